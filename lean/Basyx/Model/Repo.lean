/-
  Model of `basyx.aas.adapter.http.WSGIApp` (properties C10, C11): routing over the extracted `Rule` table,
  every modelled route handler transcribed step by step (identifier conversion, lookup + type test, body decode
  outcome, store mutation, `commit()`, status, `Location`, paging slice), the exception algebra
  (`ok | http code | py kind`) with the extracted `except`/`raise` tables, `Referable.update_from` /
  `NamespaceSet.update_nss_from` on trees of submodel elements, and the reference repository (the specification).

  Objects are abstracted: an identifiable is a shell (id, idShort, content token, submodel reference ids), a submodel
  (id + a root node) or a concept description; a node (submodel root, property, collection) carries its *filing key*
  (the key under which the parent's NamespaceSet backend dict holds it), its own idShort, a content token standing for
  all plain attributes, qualifiers by type, and children.  Request bodies are abstracted to their decode outcome.
  The store is the insertion-ordered dict of `DictObjectStore`; with `fileBacked` the same handlers run against
  `LocalFileObjectStore`, where a change to a loaded object persists only through `commit()`.
-/
import Basyx.Model.AList
import Basyx.Gen.Routes
namespace Basyx.Repo
open Basyx

/-! ## exception algebra -/

inductive PyExc where
  | keyError | valueError | typeError | indexError | attributeError
  | aascv (n : Nat) | binasciiError | unicodeDecodeError | recursionError | xmlSyntaxError | unknownClass
deriving DecidableEq, Repr

/-- class names under which an `except` clause catches the exception (own class and modelled base classes) -/
def PyExc.classes : PyExc → List String
  | .keyError => ["KeyError", "LookupError"]
  | .valueError => ["ValueError"]
  | .typeError => ["TypeError"]
  | .indexError => ["IndexError", "LookupError"]
  | .attributeError => ["AttributeError"]
  | .aascv _ => ["AASConstraintViolation"]
  | .binasciiError => ["Error", "ValueError"]          -- binascii.Error(ValueError)
  | .unicodeDecodeError => ["UnicodeDecodeError", "UnicodeError", "ValueError"]
  | .recursionError => ["RecursionError", "RuntimeError"]
  | .xmlSyntaxError => ["XMLSyntaxError", "ParseError", "LxmlSyntaxError", "LxmlError", "SyntaxError"]   -- lxml.etree
  | .unknownClass => []

def PyExc.isA (e : PyExc) (cls : String) : Bool :=
  e.classes.contains cls || cls == "Exception" || cls == "BaseException"

inductive Res (α : Type) where
  | ok (a : α)
  | http (code : Nat)
  | py (e : PyExc)
deriving Repr

def Res.bind {α β : Type} : Res α → (α → Res β) → Res β
  | .ok a, f => f a
  | .http c, _ => .http c
  | .py e, _ => .py e

instance : Monad Res where
  pure := .ok
  bind := Res.bind

/-- werkzeug.exceptions: class ↦ status code (library constants, trusted) -/
def werkzeugCode : String → Option Nat
  | "BadRequest" => some 400
  | "NotFound" => some 404
  | "MethodNotAllowed" => some 405
  | "NotAcceptable" => some 406
  | "Conflict" => some 409
  | "UnsupportedMediaType" => some 415
  | "UnprocessableEntity" => some 422
  | "InternalServerError" => some 500
  | "NotImplemented" => some 501
  | _ => none

def pyOfName : String → PyExc
  | "KeyError" => .keyError
  | "ValueError" => .valueError
  | "TypeError" => .typeError
  | "IndexError" => .indexError
  | "AttributeError" => .attributeError
  | _ => .unknownClass

/-- `raise Cls(...)` -/
def throwClass {α : Type} (cls : String) : Res α :=
  match werkzeugCode cls with
  | some c => .http c
  | none => .py (pyOfName cls)

/-- the `i`-th direct `raise` statement of function `fn` (extracted table) -/
def raiseOf {α : Type} (fn : String) (i : Nat) : Res α :=
  match AList.get fn Gen.Routes.raises with
  | some l => match l[i]? with
    | some cls => throwClass cls
    | none => .py .unknownClass
  | none => .py .unknownClass

abbrev Clause := List String × String × String × String × Nat   -- (classes, act, a, b, cid), see Gen/Routes.lean

def clausesOf (fn : String) : List Clause := (AList.get fn Gen.Routes.catches).getD []

def firstClause (e : PyExc) : List Clause → Option Clause
  | [] => none
  | c :: r => if c.1.any e.isA then some c else firstClause e r

/-- what the matching `except` clause does with exception `e` -/
def applyClause {α : Type} (c : Clause) (e : PyExc) : Res α :=
  match c with
  | (_, act, a, b, cid) =>
    if act = "raise" then throwClass a
    else if act = "cid" then
      (match e with
       | .aascv n => if n = cid then throwClass a else (if b = "reraise" then .py e else throwClass b)
       | _ => .py e)
    else .py e

/-- `try: r  except …` with the except clauses of `fn` (clauses that re-raise a mapped exception) -/
def catching {α : Type} (fn : String) (r : Res α) : Res α :=
  match r with
  | .py e => (match firstClause e (clausesOf fn) with
    | some c => applyClause c e
    | none => .py e)
  | x => x

/-- does `fn` have a clause that swallows `e` (`return …` / `pass`)? -/
def swallows (fn : String) (e : PyExc) : Bool :=
  match firstClause e (clausesOf fn) with
  | some (_, act, _, _, _) => act = "return" || act = "pass"
  | none => false

/-! ## data -/

inductive EKind where
  | sm | prop | coll
deriving DecidableEq, Repr

inductive Elem where
  | mk (key : String) (kind : EKind) (idShort : Option String) (tok : Nat)
       (quals : List (String × Nat)) (ch : List Elem)
deriving Repr

namespace Elem
def key : Elem → String | .mk k _ _ _ _ _ => k
def kind : Elem → EKind | .mk _ k _ _ _ _ => k
def idShort : Elem → Option String | .mk _ _ i _ _ _ => i
def tok : Elem → Nat | .mk _ _ _ t _ _ => t
def quals : Elem → List (String × Nat) | .mk _ _ _ _ q _ => q
def ch : Elem → List Elem | .mk _ _ _ _ _ c => c
def withKey (k : String) : Elem → Elem | .mk _ kd i t q c => .mk k kd i t q c
def withQuals (q : List (String × Nat)) : Elem → Elem | .mk k kd i t _ c => .mk k kd i t q c
def withCh (c : List Elem) : Elem → Elem | .mk k kd i t q _ => .mk k kd i t q c
/-- `isinstance(x, UniqueIdShortNamespace)` -/
def isNamespace (e : Elem) : Bool := e.kind = .sm || e.kind = .coll
end Elem

instance : Inhabited Elem := ⟨.mk "" .prop none 0 [] []⟩

inductive OKind where
  | shell | sm | cd
deriving DecidableEq, Repr

inductive Obj where
  | shell (id : String) (idShort : Option String) (tok : Nat) (refs : List String)
  | sm (id : String) (root : Elem)
  | cd (id : String) (idShort : Option String) (tok : Nat)
deriving Repr

namespace Obj
def id : Obj → String | .shell i _ _ _ => i | .sm i _ => i | .cd i _ _ => i
def kind : Obj → OKind | .shell .. => .shell | .sm .. => .sm | .cd .. => .cd
end Obj

/-- decoded request body -/
inductive Payload where
  | obj (o : Obj)
  | elem (e : Elem)
  | qual (t : String) (v : Nat)
  | ref (id : String)
  | other
deriving Repr

inductive Body where
  | absent | malformed | array
  | tooDeep                    -- nested deeper than the parser follows (json: RecursionError, lxml: "Excessive depth")
  | ok (p : Payload)
deriving Repr

inductive CType where
  | json | xml | textxml | none | other
deriving DecidableEq, Repr

inductive Accept where
  | json | xml | textxml | notAcceptable
deriving DecidableEq, Repr

/-- a query value after Python's `int()` -/
inductive QInt where
  | absent | val (i : Int) | bad
deriving DecidableEq, Repr

/-- a path segment with the outcome of `base64.urlsafe_b64decode(raw + "==").decode("utf-8")` -/
inductive B64 where
  | ok (s : String) | binascii | unicode | nonAscii
deriving DecidableEq, Repr

structure Seg where
  raw : String
  dec : B64
deriving Repr

structure Req where
  method : String
  path : List Seg
  accept : Accept := .json
  ctype : CType := .none
  body : Body := .absent
  limit : QInt := .absent
  cursor : QInt := .absent
  core : Bool := false
deriving Repr

inductive Item where
  | obj (o : Obj)
  | elem (e : Elem)
  | qual (t : String) (v : Nat)
  | ref (id : String)
deriving Repr

inductive Loc where
  | shell (id : String) | sm (id : String) | cd (id : String)
  | elem (smId : String) (path : List String)
  | qual (smId : String) (path : Option (List String)) (t : String)
deriving DecidableEq, Repr

inductive RBody where
  | empty                      -- no payload (204)
  | result                     -- the Result structure with success = false
  | plain                      -- werkzeug's own rendering (406)
  | item (i : Item)
  | page (is : List Item) (cursor : Nat)
  | items (is : List Item)
deriving Repr

structure Resp where
  status : Nat
  loc : Option Loc := none
  body : RBody := .empty
deriving Repr

inductive Out where
  | resp (r : Resp)
  | crash (e : PyExc)          -- a Python exception leaves the WSGI callable
  | unmodelled                 -- the route exists but its handler is outside the model
deriving Repr

structure St where
  objs : List (String × Obj) := []
  fileBacked : Bool := false
deriving Repr

/-! ## state + exception monad of a handler: mutations made before a raise stay -/

def M (α : Type) := St → St × Res α

def M.pure' {α : Type} (a : α) : M α := fun s => (s, .ok a)

def M.bind' {α β : Type} (m : M α) (f : α → M β) : M β := fun s =>
  match m s with
  | (s', .ok a) => f a s'
  | (s', .http c) => (s', .http c)
  | (s', .py e) => (s', .py e)

instance : Monad M where
  pure := M.pure'
  bind := M.bind'

def liftR {α : Type} (r : Res α) : M α := fun s => (s, r)

/-- `try: m` with the except clauses of function `fn` -/
def tryM {α : Type} (fn : String) (m : M α) : M α := fun s =>
  match m s with
  | (s', r) => (s', catching fn r)
def getSt : M St := fun s => (s, .ok s)

/-- a change made to a loaded object: visible at once in `DictObjectStore` (the stored object itself is changed) -/
def live (id : String) (o : Obj) : M Unit := fun s =>
  if s.fileBacked then (s, .ok ()) else ({ s with objs := AList.set id o s.objs }, .ok ())

/-- `x.commit()` written `n` times in the handler: writes the object's file in `LocalFileObjectStore` -/
def commitObj (n : Nat) (id : String) (o : Obj) : M Unit := fun s =>
  if s.fileBacked ∧ n > 0 then ({ s with objs := AList.set id o s.objs }, .ok ()) else (s, .ok ())

def commitsOf (fn : String) : Nat := (AList.get fn Gen.Routes.commits).getD 0

/-! ## trees: path resolution, add/remove, update_from -/

/-- `NamespaceSet.get_object_by_attribute("id_short", k)` over the backend dict -/
def findKey (k : String) : List Elem → Option Elem
  | [] => none
  | c :: r => if c.key = k then some c else findKey k r

def eraseKey (k : String) : List Elem → List Elem
  | [] => []
  | c :: r => if c.key = k then r else c :: eraseKey k r

def replaceKey (k : String) (n : Elem) : List Elem → List Elem
  | [] => []
  | c :: r => if c.key = k then n :: r else c :: replaceKey k n r

/-- `UniqueIdShortNamespace.get_referable(id_shorts)` -/
def getReferable : Elem → List String → Res Elem
  | e, [] => .ok e
  | e, k :: rest =>
    if ¬ e.isNamespace then .py .typeError
    else match findKey k e.ch with
      | none => .py .keyError
      | some c => getReferable c rest

/-- the tree with the node at `path` (resolved by filing keys) replaced by `f node` -/
def modifyAt (f : Elem → Elem) : Elem → List String → Elem
  | e, [] => f e
  | e, k :: rest =>
    match findKey k e.ch with
    | none => e
    | some c => e.withCh (replaceKey k (modifyAt f c rest) e.ch)

/-- `_add_object("id_short", new)` → `NamespaceSet.add`: AASd-117 without idShort, AASd-022 when the key is taken -/
def addReferable (parent new : Elem) : Res Elem :=
  match new.idShort with
  | none => .py (.aascv 117)
  | some k => if (findKey k parent.ch).isSome then .py (.aascv 22)
              else .ok (parent.withCh (parent.ch ++ [new.withKey k]))

/-- `NamespaceSet.remove(item)`: the item is looked up under its *own* attribute value -/
def nssRemove (ch : List Elem) (item : Elem) : Res (List Elem) :=
  match item.idShort with
  | none => .py .keyError
  | some k' => match findKey k' ch with
    | none => .py .keyError
    | some x => if x.key = item.key then .ok (eraseKey k' ch) else .py .keyError

/-- `_remove_object(Referable, "id_short", k)` = `remove_by_id` = lookup by key, then `remove(item)` -/
def removeReferable (parent : Elem) (k : String) : Res Elem :=
  match findKey k parent.ch with
  | none => .py .keyError
  | some item => do
    let ch' ← nssRemove parent.ch item
    pure (parent.withCh ch')

/-- qualifier NamespaceSet of `update_nss_from`: existing types keep their object (and, on this tree, its value —
    `Gen.qualifierValueUpdated`), new types are added, types missing in `other` are removed -/
def mergeQuals (self other : List (String × Nat)) : List (String × Nat) :=
  let kept := self.filterMap (fun (t, v) =>
    match AList.get t other with
    | some v' => some (t, if Gen.Routes.qualifierValueUpdated then v' else v)
    | none => none)
  kept ++ other.filter (fun (t, _) => ¬ AList.has t self)

def ownKeyIn (other : List Elem) (item : Elem) : Bool :=
  match item.idShort with
  | some k => (findKey k other).isSome
  | none => false

/-- phase 3 of `update_nss_from`: `for o in objects_to_add: other.remove(o); self.add(o)` -/
def addAll (ch : List Elem) : List Elem → List Elem × Option PyExc
  | [] => (ch, none)
  | o :: rest =>
    match o.idShort with
    | none => (ch, some (.aascv 117))
    | some k => if (findKey k ch).isSome then (ch, some (.aascv 22)) else addAll (ch ++ [o.withKey k]) rest

/-- phase 4: `for o in objects_to_remove: self.remove(o)` -/
def removeAll (ch : List Elem) : List Elem → List Elem × Option PyExc
  | [] => (ch, none)
  | o :: rest =>
    match nssRemove ch o with
    | .ok ch' => removeAll ch' rest
    | .py e => (ch, some e)
    | .http _ => (ch, some .unknownClass)

/-- phases 2–4 of `update_nss_from`, given phase 1's (children, objects_to_add, class-changed objects_to_remove, error).
    On the original tree additions precede removals; the repaired `update_nss_from` (`Gen.classChangeReplaces`) removes first. -/
def finishNss (och : List Elem) : List Elem × List Elem × List Elem × Option PyExc → List Elem × Option PyExc
  | (sch1, _, _, some e) => (sch1, some e)
  | (sch1, toAdd, toRem1, none) =>
    let toRemove := toRem1 ++ sch1.filter (fun item => ¬ ownKeyIn och item)
    if Gen.Routes.classChangeReplaces then
      match removeAll sch1 toRemove with
      | (sch2, some e) => (sch2, some e)
      | (sch2, none) => addAll sch2 toAdd
    else
      match addAll sch1 toAdd with
      | (sch2, some e) => (sch2, some e)
      | (sch2, none) => removeAll sch2 toRemove

mutual
/-- `Referable.update_from(other)`: every plain attribute is assigned (idShort included, bypassing the setter),
    NamespaceSets are merged.  Returns the changed object and the exception that interrupted it, if any. -/
def updateFrom (self : Elem) : Elem → Elem × Option PyExc
  | .mk _ okind oids otok oq och =>
    if okind = .prop then
      -- `other` has no child set: plain attributes and qualifiers only (children of `self`, if any, stay)
      (.mk self.key self.kind oids otok (mergeQuals self.quals oq) self.ch, none)
    else if ¬ self.isNamespace then
      -- `vars(self)["value"]` does not exist: KeyError after the attributes listed before it were assigned
      (.mk self.key self.kind oids otok (mergeQuals self.quals oq) self.ch, some .keyError)
    else if self.kind = .sm then
      -- Submodel: `submodel_element` precedes `qualifier` in `vars()`
      match finishNss och (updatePhase1 self.ch och) with
      | (ch', some e) => (.mk self.key self.kind oids otok self.quals ch', some e)
      | (ch', none) => (.mk self.key self.kind oids otok (mergeQuals self.quals oq) ch', none)
    else
      match finishNss och (updatePhase1 self.ch och) with
      | (ch', err) => (.mk self.key self.kind oids otok (mergeQuals self.quals oq) ch', err)
termination_by structural x => x

/-- phase 1 of `update_nss_from`: children of `other` in order; returns (self's children, objects_to_add,
    objects_to_remove because their class changed, error) -/
def updatePhase1 (sch : List Elem) : List Elem → List Elem × List Elem × List Elem × Option PyExc
  | [] => (sch, [], [], none)
  | oc :: rest =>
    match oc.idShort.bind (fun k => findKey k sch) with
    | some sc =>
      if Gen.Routes.classChangeReplaces ∧ sc.kind ≠ oc.kind then
        -- repaired tree: `type(referable) is not type(other_object)` ⇒ replace instead of updating in place
        (match updatePhase1 sch rest with
         | (a, b, c, d) => (a, oc :: b, sc :: c, d))
      else
        match updateFrom sc oc with
        | (sc', none) =>
          updatePhase1 (replaceKey sc.key sc' sch) rest
        | (sc', some .keyError) =>       -- `except KeyError:` of update_nss_from takes it for "not contained"
          (match updatePhase1 (replaceKey sc.key sc' sch) rest with
           | (a, b, c, d) => (a, oc :: b, c, d))
        | (sc', some e) => (replaceKey sc.key sc' sch, [], [], some e)
    | none =>
      match updatePhase1 sch rest with
      | (a, b, c, d) => (a, oc :: b, c, d)
termination_by structural x => x
end

/-- `NamespaceSet.update_nss_from(other)` -/
def updateNss (sch : List Elem) (och : List Elem) : List Elem × Option PyExc :=
  finishNss och (updatePhase1 sch och)

/-! ## identifiers, conversion, routing -/

def isAsciiAlpha (c : Char) : Bool := ('a' ≤ c ∧ c ≤ 'z') || ('A' ≤ c ∧ c ≤ 'Z')
def isIdShortChar (c : Char) : Bool := isAsciiAlpha c || ('0' ≤ c ∧ c ≤ '9') || c = '_'

/-- `Referable.validate_id_short` -/
def validateIdShort (s : String) : Res Unit :=
  let cs := s.toList
  if cs.length < 1 ∨ cs.length > 128 then .py .valueError           -- check_name_type
  else if ¬ cs.all isIdShortChar then .py (.aascv 2)
  else match cs with
    | c :: _ => if isAsciiAlpha c then .ok () else .py (.aascv 2)
    | [] => .py .valueError

def validIdShort (s : String) : Bool := match validateIdShort s with | .ok _ => true | _ => false

/-- `IdShortPathConverter.to_python` -/
def idShortPathToPython (raw : String) : Res (List String) :=
  let segs := raw.splitOn "."
  match segs.find? (fun s => ¬ validIdShort s) with
  | some bad => catching "to_python" (match validateIdShort bad with | .ok _ => .py .unknownClass | .http c => .http c | .py e => .py e)
  | none => .ok segs

/-- `base64url_decode` -/
def base64urlDecode (d : B64) : Res String :=
  catching "base64url_decode" (match d with
    | .ok s => .ok s
    | .binascii => .py .binasciiError
    | .unicode => .py .unicodeDecodeError
    | .nonAscii => .py .valueError)

inductive Pat where
  | lit (s : String) | b64 (name : String) | idPath (name : String) | rest (name : String)
deriving DecidableEq, Repr

def parsePat (seg : String) : Pat :=
  if seg.startsWith "<" then
    let inner := String.ofList ((seg.toList.drop 1).dropLast)
    match inner.splitOn ":" with
    | [conv, name] =>
      if conv = "base64url" then .b64 name
      else if conv = "id_short_path" then .idPath name
      else if conv = "path" then .rest name
      else .lit seg
    | _ => .lit seg
  else .lit seg

def parsePath (p : String) : List Pat := ((p.splitOn "/").filter (· ≠ "")).map parsePat

structure Rule where
  pat : List Pat
  methods : Option (List String)
  endpoint : String
deriving Repr

def ruleTable : List Rule := Gen.Routes.rules.map (fun (p, m, e) => ⟨parsePath p, m, e⟩)

/-- does the pattern match the raw segments? returns the converter arguments in order -/
def matchPat : List Pat → List Seg → Option (List (Pat × List Seg))
  | [], [] => some []
  | [], _ :: _ => none
  | .rest n :: ps, segs => if segs.isEmpty || !ps.isEmpty then none else some [(.rest n, segs)]
  | _ :: _, [] => none
  | .lit s :: ps, x :: xs => if x.raw = s then matchPat ps xs else none
  | .b64 n :: ps, x :: xs => (matchPat ps xs).map (fun r => (.b64 n, [x]) :: r)
  | .idPath n :: ps, x :: xs => (matchPat ps xs).map (fun r => (.idPath n, [x]) :: r)

/-- werkzeug adds HEAD wherever GET is allowed; `methods=None` accepts every method -/
def methodOk (r : Rule) (m : String) : Bool :=
  match r.methods with
  | none => true
  | some ms => ms.contains m || (m == "HEAD" && ms.contains "GET")

def patWeight : Pat → Nat
  | .lit _ => 0
  | .rest _ => 2
  | _ => 1

/-- the matcher tries static parts before converters (and `path` last) at every segment -/
def weightLt : List Nat → List Nat → Bool
  | a :: r, b :: r' => a < b || (a == b && weightLt r r')
  | [], _ :: _ => true
  | _, _ => false

structure Cand where
  rule : Rule
  caps : List (Pat × List Seg)

def betterCand (best : Option Cand) (c : Cand) : Option Cand :=
  match best with
  | none => some c
  | some b => if weightLt (c.rule.pat.map patWeight) (b.rule.pat.map patWeight) then some c else some b

/-- (some rule matched the path, best rule that also allows the method) -/
def selectRule (m : String) (path : List Seg) : List Rule → Bool × Option Cand → Bool × Option Cand
  | [], acc => acc
  | r :: rest, (anyPath, best) =>
    match matchPat r.pat path with
    | none => selectRule m path rest (anyPath, best)
    | some caps =>
      if methodOk r m then selectRule m path rest (true, betterCand best ⟨r, caps⟩)
      else selectRule m path rest (true, best)

structure Args where
  aasId : String := ""
  smId : String := ""
  cdId : String := ""
  qType : Option String := none
  idShorts : Option (List String) := none
deriving Repr

def Args.setB64 (a : Args) (name v : String) : Args :=
  if name = "aas_id" then { a with aasId := v }
  else if name = "submodel_id" then { a with smId := v }
  else if name = "concept_id" then { a with cdId := v }
  else if name = "qualifier_type" then { a with qType := some v }
  else a

/-- converters run left to right after the rule is chosen; the first failure is the response -/
def convertArgs : List (Pat × List Seg) → Args → Res Args
  | [], a => .ok a
  | (.b64 n, [x]) :: r, a =>
    (match base64urlDecode x.dec with
     | .ok v => convertArgs r (a.setB64 n v)
     | .http c => .http c
     | .py e => .py e)
  | (.idPath _, [x]) :: r, a =>
    (match idShortPathToPython x.raw with
     | .ok v => convertArgs r { a with idShorts := some v }
     | .http c => .http c
     | .py e => .py e)
  | _ :: r, a => convertArgs r a

/-- `map_adapter.match()` -/
def route (r : Req) : Res (String × Args) :=
  match selectRule r.method r.path ruleTable (false, none) with
  | (_, some c) =>
    (match convertArgs c.caps {} with
     | .ok a => .ok (c.rule.endpoint, a)
     | .http code => .http code
     | .py e => .py e)
  | (true, none) => throwClass "MethodNotAllowed"
  | (false, none) => throwClass "NotFound"

/-! ## decoding the request body -/

inductive Expect where
  | shell | sm | cd | elem | qual | ref | unmodelled
deriving DecidableEq, Repr

def Expect.ofName : String → Expect
  | "AssetAdministrationShell" => .shell
  | "Submodel" => .sm
  | "ConceptDescription" => .cd
  | "SubmodelElement" => .elem
  | "Qualifier" => .qual
  | "ModelReference" => .ref
  | _ => .unmodelled

def Payload.matchesExpect : Payload → Expect → Bool
  | .obj (.shell ..), .shell => true
  | .obj (.sm ..), .sm => true
  | .obj (.cd ..), .cd => true
  | .elem e, .elem => e.kind ≠ .sm
  | .qual .., .qual => true
  | .ref _, .ref => true
  | _, _ => false

def Elem.strip : Elem → Elem | .mk k kd i t _ _ => .mk k kd i t [] []

def Obj.strip : Obj → Obj
  | .shell i s t _ => .shell i s t []
  | .sm i root => .sm i root.strip
  | .cd i s t => .cd i s t

/-- what the stripped decoders / encoder leave of an object -/
def Payload.strip : Payload → Payload
  | .obj o => .obj o.strip
  | .elem e => .elem e.strip
  | p => p

def Item.strip : Item → Item
  | .obj o => .obj o.strip
  | .elem e => .elem e.strip
  | i => i

def CType.mime : CType → String
  | .json => "application/json"
  | .xml => "application/xml"
  | .textxml => "text/xml"
  | .none => ""
  | .other => "text/plain"

def stripMode (mode : String) (r : Req) : Bool := mode = "always" || (mode = "core" && r.core)

/-- `HTTPApiDecoder.request_body(request, model.<T>, <stripped>)` as written in handler `fn` -/
def requestBody (fn : String) (r : Req) : Res Payload :=
  match (AList.get fn Gen.Routes.decodes).bind (·.head?) with
  | none => .py .unknownClass
  | some (tname, mode) =>
    if ¬ Gen.Routes.validContentTypes.contains r.ctype.mime then raiseOf "request_body" 0
    else if ¬ Gen.Routes.constructables.contains tname then raiseOf "check_type_supportance" 0
    else
      let dec := if r.ctype = .json then "json_list" else "xml"
      match r.body with
      | .ok p =>
        if p.matchesExpect (Expect.ofName tname) then .ok (if stripMode mode r then p.strip else p)
        else if r.ctype = .json then raiseOf "assert_type" 0 else catching dec (.py .keyError)
      | .array => if r.ctype = .json then raiseOf "json_list" 1 else catching dec (.py .valueError)
      | .tooDeep => if r.ctype = .json then catching dec (.py .recursionError) else catching dec (.py .xmlSyntaxError)
      | _ => catching dec (.py .valueError)

/-! ## paging, responses -/

/-- `_get_slice`: `islice(iterator, cursor, cursor + limit)` and the cursor handed back -/
def getSlice {α : Type} (r : Req) (l : List α) : Res (List α × Nat) :=
  catching "_get_slice" (
    match (match r.limit with | .absent => some 10 | .val i => some i | .bad => (none : Option Int)),
          (match r.cursor with | .absent => some 0 | .val i => some i | .bad => (none : Option Int)) with
    | some lim, some cur =>
      if lim < 0 ∨ cur < 0 ∨ cur + lim > 9223372036854775807 then raiseOf "_get_slice" 0    -- sys.maxsize
      else .ok ((l.drop cur.toNat).take lim.toNat, cur.toNat + lim.toNat)
    | _, _ => .py .valueError)

/-- `response_t(...)` number `i` of handler `fn`: status and Location presence from the extracted table; the payload
    is stripped only by the JSON encoder (`XmlResponse.serialize` ignores `stripped`) -/
def mkResp (fn : String) (i : Nat) (r : Req) (loc : Option Loc) (body : Bool → RBody) : Resp :=
  match (AList.get fn Gen.Routes.responses).bind (·[i]?) with
  | some (st, mode, hasLoc) => ⟨st, if hasLoc then loc else none, body (stripMode mode r && r.accept = .json)⟩
  | none => ⟨0, none, .empty⟩

def stripIf (b : Bool) (i : Item) : Item := if b then i.strip else i

/-! ## handlers -/

/-- `_get_obj_ts` -/
def getObjTs (id : String) (k : OKind) : M Obj := fun s =>
  match AList.get id s.objs with
  | some o => if o.kind = k then (s, .ok o) else (s, raiseOf "_get_obj_ts" 0)
  | none => (s, raiseOf "_get_obj_ts" 0)

/-- `_get_all_obj_of_type` -/
def allOfKind (s : St) (k : OKind) : List Obj := (s.objs.map Prod.snd).filter (fun o => o.kind = k)

/-- `object_store.add(x)` for a freshly decoded object -/
def storeAdd (o : Obj) : M Unit := fun s =>
  if AList.has o.id s.objs then (s, .py .keyError)
  else ({ s with objs := AList.set o.id o s.objs }, .ok ())

/-- `object_store.remove(x)` for the object found under key `k`: `x in store` tests the entry under `x.id` -/
def storeRemove (k : String) (o : Obj) : M Unit := fun s =>
  if o.id = k then ({ s with objs := AList.erase k s.objs }, .ok ()) else (s, .py .keyError)

def Obj.root : Obj → Elem
  | .sm _ r => r
  | _ => default

/-- `_expect_same_identity` (fix C10-put-keeps-identity) for identifiables -/
def expectSameId (existing new : Obj) : Res Unit :=
  if existing.kind ≠ new.kind then raiseOf "_expect_same_identity" 0
  else if new.id ≠ existing.id then raiseOf "_expect_same_identity" 1
  else .ok ()

/-- `_expect_same_identity` for submodel elements -/
def expectSameElem (existing new : Elem) : Res Unit :=
  if existing.kind ≠ new.kind then raiseOf "_expect_same_identity" 0
  else if new.idShort ≠ existing.idShort then raiseOf "_expect_same_identity" 2
  else .ok ()

/-- `obj.update_from(new)` for identifiables -/
def objUpdateFrom (existing new : Obj) : Obj × Option PyExc :=
  match existing, new with
  | .shell _ _ _ _, .shell i s t refs => (.shell i s t refs, none)
  | .cd _ _ _, .cd i s t => (.cd i s t, none)
  | .sm _ root, .sm i nroot => let (r', err) := updateFrom root nroot; (.sm i r', err)
  | e, _ => (e, some .keyError)

def listPage (fn : String) (r : Req) (items : List Item) : M Resp := do
  let (pg, cur) ← liftR (getSlice r items)
  pure (mkResp fn 0 r none (fun st => .page (pg.map (stripIf st)) cur))

def postObj (fn : String) (loc : String → Loc) (r : Req) : M Resp := do
  let p ← liftR (requestBody fn r)
  match p with
  | .obj o =>
    tryM fn (storeAdd o)
    commitObj (commitsOf fn) o.id o
    pure (mkResp fn 0 r (some (loc o.id)) (fun st => .item (stripIf st (.obj o))))
  | _ => liftR (.py .unknownClass)

def getObj (fn : String) (id : String) (k : OKind) (r : Req) : M Resp := do
  let o ← getObjTs id k
  pure (mkResp fn 0 r none (fun st => .item (stripIf st (.obj o))))

def putObj (fn : String) (id : String) (k : OKind) (r : Req) : M Resp := do
  let o ← getObjTs id k
  let p ← liftR (requestBody fn r)
  match p with
  | .obj n =>
    liftR (expectSameId o n)
    let (o', err) := objUpdateFrom o n
    live id o'
    match err with
    | some e => liftR (.py e)
    | none =>
      commitObj (commitsOf fn) id o'
      pure (mkResp fn 0 r none (fun _ => .empty))
  | _ => liftR (.py .unknownClass)

def deleteObj (fn : String) (id : String) (k : OKind) (r : Req) : M Resp := do
  let o ← getObjTs id k
  storeRemove id o
  pure (mkResp fn 0 r none (fun _ => .empty))

/-- `_get_nested_submodel_element` -/
def getNested (root : Elem) (path : List String) : Res Elem :=
  if path.isEmpty then raiseOf "_get_nested_submodel_element" 0
  else catching "_get_nested_submodel_element" (getReferable root path)

/-- `_get_submodel_or_nested_submodel_element`: the submodel, the path (empty = the submodel itself), the target -/
def getSmOrNested (a : Args) : M (Obj × List String × Elem) := do
  let sm ← getObjTs a.smId .sm
  let path := a.idShorts.getD []
  match getNested sm.root path with
  | .ok e => pure (sm, path, e)
  | .py e => if swallows "_get_submodel_or_nested_submodel_element" e then pure (sm, [], sm.root) else liftR (.py e)
  | .http c => liftR (.http c)

def smWithRoot (sm : Obj) (root : Elem) : Obj := .sm sm.id root

def pathOpt (a : Args) : Option (List String) :=
  match a.idShorts with
  | some [] => none
  | x => x

def getRefs (ep : String) (a : Args) (r : Req) : M Resp := do
  let o ← getObjTs a.aasId .shell
  match o with
  | .shell _ _ _ refs => listPage ep r (refs.map .ref)
  | _ => liftR (.py .unknownClass)

def postRef (ep : String) (a : Args) (r : Req) : M Resp := do
  let o ← getObjTs a.aasId .shell
  let p ← liftR (requestBody ep r)
  match o, p with
  | .shell i s t refs, .ref x =>
    if refs.contains x then liftR (raiseOf ep 0)
    else do
      let o' := Obj.shell i s t (refs ++ [x])
      live a.aasId o'
      commitObj (commitsOf ep) a.aasId o'
      pure (mkResp ep 0 r none (fun _ => .item (.ref x)))
  | _, _ => liftR (.py .unknownClass)

def deleteRef (ep : String) (a : Args) (r : Req) : M Resp := do
  let o ← getObjTs a.aasId .shell
  match o with
  | .shell i s t refs =>
    if ¬ refs.contains a.smId then liftR (raiseOf "_get_submodel_reference" 0)
    else do
      let o' := Obj.shell i s t (refs.erase a.smId)
      live a.aasId o'
      commitObj (commitsOf ep) a.aasId o'
      pure (mkResp ep 0 r none (fun _ => .empty))
  | _ => liftR (.py .unknownClass)

def listElems (ep : String) (a : Args) (r : Req) : M Resp := do
  let sm ← getObjTs a.smId .sm
  listPage ep r (sm.root.ch.map .elem)

def getElem (ep : String) (a : Args) (path : List String) (r : Req) : M Resp := do
  let sm ← getObjTs a.smId .sm
  let e ← liftR (getNested sm.root path)
  pure (mkResp ep 0 r none (fun st => .item (stripIf st (.elem e))))

def postElem (ep : String) (a : Args) (r : Req) : M Resp := do
  let (sm, path, parent) ← getSmOrNested a
  if ¬ parent.isNamespace then liftR (raiseOf ep 0)
  else do
    let p ← liftR (requestBody ep r)
    match p with
    | .elem n =>
      let parent' ← liftR (catching ep (addReferable parent n))
      let sm' := smWithRoot sm (modifyAt (fun _ => parent') sm.root path)
      live a.smId sm'
      commitObj (commitsOf ep) a.smId sm'
      pure (mkResp ep 0 r (some (.elem sm.id ((a.idShorts.getD []) ++ [n.idShort.getD ""])))
        (fun st => .item (stripIf st (.elem (n.withKey (n.idShort.getD ""))))))
    | _ => liftR (.py .unknownClass)

def putElem (ep : String) (a : Args) (path : List String) (r : Req) : M Resp := do
  let sm ← getObjTs a.smId .sm
  let e ← liftR (getNested sm.root path)
  let p ← liftR (requestBody ep r)
  match p with
  | .elem n =>
    liftR (expectSameElem e n)
    let (e', err) := updateFrom e n
    let sm' := smWithRoot sm (modifyAt (fun _ => e') sm.root path)
    live a.smId sm'
    match err with
    | some x => liftR (.py x)
    | none =>
      commitObj (commitsOf ep) a.smId sm'
      pure (mkResp ep 0 r none (fun _ => .empty))
  | _ => liftR (.py .unknownClass)

def deleteElem (ep : String) (a : Args) (r : Req) : M Resp := do
  let (sm, path, e) ← getSmOrNested a
  -- `sm_or_se.parent`: None for the submodel itself → `_expect_namespace` → BadRequest
  if path.isEmpty then liftR (raiseOf "_expect_namespace" 0)
  else
    match getReferable sm.root path.dropLast, e.idShort with
    | .ok parent, some k => do
      let parent' ← liftR (catching "_namespace_submodel_element_op" (removeReferable parent k))
      let sm' := smWithRoot sm (modifyAt (fun _ => parent') sm.root path.dropLast)
      live a.smId sm'
      commitObj (commitsOf ep) a.smId sm'
      pure (mkResp ep 0 r none (fun _ => .empty))
    | _, _ => liftR (catching "_namespace_submodel_element_op" (.py .keyError))

def getQual (ep : String) (a : Args) (r : Req) : M Resp := do
  let (_, _, e) ← getSmOrNested a
  match a.qType with
  | none => pure (mkResp ep 0 r none (fun _ => .items (e.quals.map (fun (t, v) => .qual t v))))
  | some t =>
    match AList.get t e.quals with
    | some v => pure (mkResp ep 1 r none (fun _ => .item (.qual t v)))
    | none => liftR (catching "_qualifiable_qualifier_op" (.py .keyError))

def postQual (ep : String) (a : Args) (r : Req) : M Resp := do
  let (sm, path, e) ← getSmOrNested a
  let p ← liftR (requestBody ep r)
  match p with
  | .qual t v =>
    if AList.has t e.quals then liftR (raiseOf ep 0)
    else do
      let sm' := smWithRoot sm (modifyAt (fun x => x.withQuals (x.quals ++ [(t, v)])) sm.root path)
      live a.smId sm'
      commitObj (commitsOf ep) a.smId sm'
      pure (mkResp ep 0 r (some (.qual a.smId (pathOpt a) t)) (fun _ => .item (.qual t v)))
  | _ => liftR (.py .unknownClass)

def putQual (ep : String) (a : Args) (r : Req) : M Resp := do
  let (sm, path, e) ← getSmOrNested a
  let p ← liftR (requestBody ep r)
  match p, a.qType with
  | .qual t v, some qt =>
    if ¬ AList.has qt e.quals then liftR (catching "_qualifiable_qualifier_op" (.py .keyError))
    else if qt ≠ t ∧ AList.has t e.quals then liftR (raiseOf ep 0)
    else do
      let sm' := smWithRoot sm (modifyAt (fun x => x.withQuals (AList.erase qt x.quals ++ [(t, v)])) sm.root path)
      -- `if qualifier_type_changed:` 201 + Location, else 200
      let resp := if qt ≠ t then mkResp ep 0 r (some (.qual a.smId (pathOpt a) t)) (fun _ => .item (.qual t v))
                  else mkResp ep 1 r none (fun _ => .item (.qual t v))
      live a.smId sm'
      commitObj (commitsOf ep) a.smId sm'
      pure resp
  | _, _ => liftR (.py .unknownClass)

def deleteQual (ep : String) (a : Args) (r : Req) : M Resp := do
  let (sm, path, e) ← getSmOrNested a
  match a.qType with
  | some qt =>
    if ¬ AList.has qt e.quals then liftR (catching "_qualifiable_qualifier_op" (.py .keyError))
    else do
      let sm' := smWithRoot sm (modifyAt (fun x => x.withQuals (AList.erase qt x.quals)) sm.root path)
      live a.smId sm'
      commitObj (commitsOf ep) a.smId sm'
      pure (mkResp ep 0 r none (fun _ => .empty))
  | none => liftR (.py .unknownClass)

def listObjs (ep : String) (k : OKind) (r : Req) : M Resp := do
  let s ← getSt
  listPage ep r ((allOfKind s k).map .obj)

/-- endpoint name ↦ handler (`none`: the route exists, the handler is outside the model) -/
def handlerOf (ep : String) (a : Args) (r : Req) : Option (M Resp) :=
  match ep with
  | "not_implemented" => some (liftR (raiseOf "not_implemented" 0))
  | "get_aas_all" => some (listObjs ep .shell r)
  | "post_aas" => some (postObj ep .shell r)
  | "get_aas" => some (getObj ep a.aasId .shell r)
  | "put_aas" => some (putObj ep a.aasId .shell r)
  | "delete_aas" => some (deleteObj ep a.aasId .shell r)
  | "get_aas_submodel_refs" => some (getRefs ep a r)
  | "post_aas_submodel_refs" => some (postRef ep a r)
  | "delete_aas_submodel_refs_specific" => some (deleteRef ep a r)
  | "get_submodel_all" => some (listObjs ep .sm r)
  | "get_submodel_all_metadata" => some (listObjs ep .sm r)
  | "post_submodel" => some (postObj ep .sm r)
  | "get_submodel" => some (getObj ep a.smId .sm r)
  | "get_submodels_metadata" => some (getObj ep a.smId .sm r)
  | "put_submodel" => some (putObj ep a.smId .sm r)
  | "delete_submodel" => some (deleteObj ep a.smId .sm r)
  | "get_submodel_submodel_elements" => some (listElems ep a r)
  | "get_submodel_submodel_elements_metadata" => some (listElems ep a r)
  -- these routes always carry an `id_short_path` argument (`url_args["id_shorts"]`); without one the model makes no claim
  | "get_submodel_submodel_elements_id_short_path" =>
    (match a.idShorts with | some (x :: xs) => some (getElem ep a (x :: xs) r) | _ => none)
  | "get_submodel_submodel_elements_id_short_path_metadata" =>
    (match a.idShorts with | some (x :: xs) => some (getElem ep a (x :: xs) r) | _ => none)
  | "post_submodel_submodel_elements_id_short_path" => some (postElem ep a r)
  | "put_submodel_submodel_elements_id_short_path" =>
    (match a.idShorts with | some (x :: xs) => some (putElem ep a (x :: xs) r) | _ => none)
  | "delete_submodel_submodel_elements_id_short_path" => some (deleteElem ep a r)
  | "get_submodel_submodel_element_qualifiers" => some (getQual ep a r)
  | "post_submodel_submodel_element_qualifiers" => some (postQual ep a r)
  -- likewise `url_args["qualifier_type"]`
  | "put_submodel_submodel_element_qualifiers" =>
    (match a.qType with | some _ => some (putQual ep a r) | none => none)
  | "delete_submodel_submodel_element_qualifiers" =>
    (match a.qType with | some _ => some (deleteQual ep a r) | none => none)
  | "get_concept_description_all" => some (listObjs ep .cd r)
  | "post_concept_description" => some (postObj ep .cd r)
  | "get_concept_description" => some (getObj ep a.cdId .cd r)
  | "put_concept_description" => some (putObj ep a.cdId .cd r)
  | "delete_concept_description" => some (deleteObj ep a.cdId .cd r)
  | _ => none

def dispatch (ep : String) (a : Args) (r : Req) : M Out :=
  match handlerOf ep a r with
  | some h => Out.resp <$> h
  | none => pure .unmodelled

/-- `http_exception_to_response` for codes ≥ 400 -/
def errResp (code : Nat) : Resp := ⟨code, none, .result⟩

/-- `WSGIApp.handle_request` -/
def handleCore (s : St) (r : Req) : St × Out :=
  -- `get_response_type`: NotAcceptable is returned as it is (werkzeug's own page)
  if r.accept = .notAcceptable then (s, .resp ⟨406, none, .plain⟩)
  else
    match route r with
    | .http c => (s, .resp (errResp c))
    | .py e => (s, .crash e)
    | .ok (ep, a) =>
      match dispatch ep a r s with
      | (s', .ok o) => (s', o)
      | (s', .http c) => (s', .resp (errResp c))
      | (s', .py e) => (s', .crash e)

/-- the WSGI layer sends no body in answer to HEAD -/
def headStrip (r : Req) : Out → Out
  | .resp resp => if r.method = "HEAD" then .resp { resp with body := .empty } else .resp resp
  | o => o

/-- `WSGIApp.__call__` -/
def handle (s : St) (r : Req) : St × Out :=
  match handleCore s r with
  | (s', o) => (s', headStrip r o)

def run (s : St) : List Req → St × List Out
  | [] => (s, [])
  | r :: rs =>
    let (s', o) := handle s r
    let (s'', os) := run s' rs
    (s'', o :: os)

end Basyx.Repo
