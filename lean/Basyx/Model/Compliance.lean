/-
  Model of the compliance tool (property C20):
   * `state_manager.py`: steps with a status, overall status = the worst step status (IntEnum order);
   * the check functions as *scripts*: a sequence of phases, each opening a report step and making one external call
     that may raise; what the surrounding `try` catches is REGENERATED from the source, what the call may raise for an
     arbitrary input file is the SPEC side;
   * `AASDataChecker` as a *coverage table* (which attribute of which class is compared, and how), interpreted by a
     generic comparison `checkEq` over the value trees of the codec model.
-/
import Basyx.Model.Codec
namespace Basyx.Compliance
open Basyx.Codec (Val)

inductive Status where
  | success | warnings | failed | notExecuted
deriving Repr, DecidableEq

def Status.rank : Status → Nat
  | .success => 0 | .warnings => 1 | .failed => 2 | .notExecuted => 3

/-- `ComplianceToolStateManager.status`: `status = SUCCESS; for step: if status < step.status: status = step.status` -/
def overall : List Status → Status
  | [] => .success
  | s :: r => let o := overall r; if o.rank < s.rank then s else o

/-! ### exceptions and scripts -/

abbrev Exc := String

/-- SPEC: Python's exception hierarchy as far as the checks are concerned (child, parent) -/
def parents : List (Exc × Exc) :=
  [("UnicodeDecodeError", "ValueError"), ("JSONDecodeError", "ValueError"), ("FileNotFoundError", "OSError"),
   ("IOError", "OSError"), ("OSError", "IOError"), ("XMLSyntaxError", "ParseError"), ("ParseError", "SyntaxError"),
   ("ValidationError", "Exception"), ("ValueError", "Exception"), ("KeyError", "LookupError"), ("IndexError", "LookupError"),
   ("LookupError", "Exception"), ("AssertionError", "Exception"), ("NotImplementedError", "RuntimeError"), ("RecursionError", "RuntimeError"),
   ("RuntimeError", "Exception"), ("OSError", "Exception"), ("SyntaxError", "Exception"), ("TypeError", "Exception"),
   ("AttributeError", "Exception"), ("BadZipFile", "Exception"), ("AASConstraintViolation", "Exception")]

/-- is `e` an instance of class `c`?  (bounded ancestor walk; the table is a forest of depth ≤ 4 plus the IOError alias) -/
def isa : Nat → Exc → Exc → Bool
  | 0, e, c => e == c
  | f + 1, e, c => e == c || parents.any (fun p => p.1 == e && isa f p.2 c)

def catches (caught : List Exc) (e : Exc) : Bool := caught.any (fun c => isa 5 e c)

structure Phase where
  step : String          -- the report step that is open while the call runs
  call : String          -- the external call (for the report only)
  raisable : List Exc    -- SPEC: what the call may raise on an arbitrary input file
  caught : List Exc      -- REGENERATED: union of the `except` clauses of the enclosing `try` blocks
  failsReport : Bool     -- after the call returned, can the step still be marked FAILED from the log (status from log)?
deriving Repr

inductive Outcome where
  | ok (logged : Bool)     -- returned (and whether the reader logged an error)
  | raises (e : Exc)
deriving Repr, DecidableEq

/-- Run a script: the first phase whose call raises ends it — caught: that step FAILED, the remaining ones NOT_EXECUTED,
    the report is complete; not caught: the exception leaves the check function. -/
def runScript : List Phase → List Outcome → Except Exc (List (String × Status))
  | [], _ => .ok []
  | p :: ps, [] => .ok ((p.step, .notExecuted) :: ps.map (fun q => (q.step, .notExecuted)))
  | p :: ps, o :: os =>
    match o with
    | .ok logged =>
      (runScript ps os).map (fun r => (p.step, if logged && p.failsReport then Status.failed else Status.success) :: r)
    | .raises e =>
      if catches p.caught e then .ok ((p.step, .failed) :: ps.map (fun q => (q.step, .notExecuted)))
      else .error e

/-! ### the data checker as a coverage table -/

inductive How where
  | eq            -- compared with `==` against the expected object's attribute
  | recurse       -- children matched (by identifying attribute / position) and compared recursively
  | existsOnly    -- only presence / number of children checked
  | selfCompare   -- compared with the object's own attribute
  | notCompared
deriving Repr, DecidableEq

structure Cover where
  cls : String
  attrs : List (String × How)      -- in the order of the class's fields
deriving Repr

def coverOf (C : List Cover) (c : String) : List (String × How) :=
  match C.find? (fun x => x.cls = c) with
  | some x => x.attrs
  | none => []

mutual
def beqVal : Val → Val → Bool
  | .none, .none => true
  | .tok s f, .tok s' f' => s == s' && f == f'
  | .list xs, .list ys => beqList xs ys
  | .node c fs, .node c' fs' => c == c' && beqList fs fs'
  | _, _ => false
def beqList : List Val → List Val → Bool
  | [], [] => true
  | x :: xs, y :: ys => beqVal x y && beqList xs ys
  | _, _ => false
end

mutual
/-- the verdict of the data checker on two values: `true` = "no failed check" -/
def checkEq (C : List Cover) : Val → Val → Bool
  | .node c fs, .node c' fs' => c == c' && checkFields C (coverOf C c) fs fs'
  | .list xs, .list ys => checkList C xs ys
  | v, w => beqVal v w
def checkList (C : List Cover) : List Val → List Val → Bool
  | [], [] => true
  | x :: xs, y :: ys => checkEq C x y && checkList C xs ys
  | _, _ => false
def checkFields (C : List Cover) : List (String × How) → List Val → List Val → Bool
  | (_, h) :: hs, v :: vs, w :: ws =>
    (match h with
     | .eq => beqVal v w
     | .recurse => checkEq C v w
     | .existsOnly => (match v, w with | .list xs, .list ys => xs.length == ys.length | _, _ => true)
     | .selfCompare => true
     | .notCompared => true) && checkFields C hs vs ws
  | [], [], [] => true
  | _, _, _ => false
end

def complete (C : List Cover) : Bool :=
  C.all (fun c => c.attrs.all (fun a => a.2 == .eq || a.2 == .recurse))

end Basyx.Compliance
