/-
  C06 model — xs:duration as `dateutil.relativedelta.relativedelta` with its seven *relative* integer fields
  (`years months days hours minutes seconds microseconds`).  Absolute fields (`year=…`, `weekday=…`), `leapdays` and
  float-valued fields are outside the modelled value space.

  DURATION_RE  ^(-?)P(\d+Y)?(\d+M)?(\d+D)?(T(\d+H)?(\d+M)?((\d+)(\.\d+)?S)?)?$
-/
import Basyx.Model.Lex.Basic
namespace Basyx.Lex
open Basyx.Fmt (padN)

structure Dur where
  years : Int
  months : Int
  days : Int
  hours : Int
  minutes : Int
  seconds : Int
  micros : Int
deriving DecidableEq, Repr

/-- one step of `relativedelta._fix`:
    `if abs(lo) > lim-1: s = _sign(lo); div, mod = divmod(lo*s, lim); lo = mod*s; hi += div*s` -/
def carry (lim : Nat) (lo hi : Int) : Int × Int :=
  if lo.natAbs > lim - 1 then
    let s : Int := if lo < 0 then -1 else 1
    (Int.ofNat (lo.natAbs % lim) * s, hi + Int.ofNat (lo.natAbs / lim) * s)
  else (lo, hi)

/-- `relativedelta.__init__` → `_fix()`: microseconds→seconds→minutes→hours→days, months→years -/
def Dur.fix (d : Dur) : Dur :=
  let c1 := carry 1000000 d.micros d.seconds
  let c2 := carry 60 c1.2 d.minutes
  let c3 := carry 60 c2.2 d.hours
  let c4 := carry 24 c3.2 d.days
  let c5 := carry 12 d.months d.years
  ⟨c5.2, c5.1, c4.2, c4.1, c3.1, c2.1, c1.1⟩

/-- `relativedelta.__neg__`: a new relativedelta of the negated fields (constructor ⇒ `_fix`) -/
def Dur.neg (d : Dur) : Dur :=
  Dur.fix ⟨-d.years, -d.months, -d.days, -d.hours, -d.minutes, -d.seconds, -d.micros⟩

def Dur.fields (d : Dur) : List Int := [d.years, d.months, d.days, d.hours, d.minutes, d.seconds, d.micros]

/-- `"{:.0f}X".format(abs(v))` if `v` else `""` (exact for |v| < 2^53, see known finding) -/
def comp (v : Int) (c : Char) : Str := if v = 0 then [] else Nat.toDigits 10 v.natAbs ++ [c]

/-- `"{:.8g}".format(Decimal(s) + Decimal(us) / 1000000)` for `s ≤ 59`, `us ≤ 999999` (at most 8 significant digits,
    so nothing is rounded and no exponent appears): the integer part, and the six-digit fraction without its trailing
    zeros when it is not zero. -/
def secRepr (s us : Nat) : Str :=
  Nat.toDigits 10 s ++ (if us = 0 then [] else '.' :: rstrip0 (padN 6 us))

/-- `_serialize_duration`; `none` = ValueError (mixed signs) -/
def reprDur (d0 : Dur) : Option Str :=
  let d := d0.fix            -- `value.normalized()` on integer fields is the constructor again
  let hasNeg := d.fields.any (· < 0)
  let hasPos := d.fields.any (· > 0)
  if hasNeg && hasPos then none
  else if !hasNeg && !hasPos then some ['P', '0', 'D']
  else
    let time := comp d.hours 'H' ++ (comp d.minutes 'M' ++
      (if d.seconds ≠ 0 || d.micros ≠ 0 then secRepr d.seconds.natAbs d.micros.natAbs ++ ['S'] else []))
    some ((if hasNeg then ['-'] else []) ++ 'P' :: (comp d.years 'Y' ++ (comp d.months 'M' ++ (comp d.days 'D' ++
      (if time.isEmpty then [] else 'T' :: time)))))

/-- `(\d+X)?` : the component value if present, and the rest -/
def optComp (x : Char) (s : Str) : Option Nat × Str :=
  let ds := s.takeWhile isDig
  match s.dropWhile isDig with
  | c :: r => if c = x && !ds.isEmpty then (some (dval ds), r) else (none, s)
  | [] => (none, s)

/-- `((\d+)(\.\d+)?S)?$` : (seconds, microseconds) -/
def parseSecs (s : Str) : Option (Nat × Nat) :=
  if s.isEmpty then some (0, 0)
  else
    let ds := s.takeWhile isDig
    if ds.isEmpty then none
    else match s.dropWhile isDig with
      | ['S'] => some (dval ds, 0)
      | '.' :: r =>
        let fs := r.takeWhile isDig
        if fs.isEmpty then none
        else if r.dropWhile isDig = ['S'] then some (dval ds, micros fs) else none
      | _ => none

/-- `(T(\d+H)?(\d+M)?(…S)?)?$` : (hours, minutes, seconds, microseconds) -/
def parseDurTime (r : Str) : Option (Nat × Nat × Nat × Nat) :=
  match r with
  | [] => some (0, 0, 0, 0)
  | 'T' :: t =>
    let h := optComp 'H' t
    let mi := optComp 'M' h.2
    (parseSecs mi.2).map (fun su => (h.1.getD 0, mi.1.getD 0, su.1, su.2))
  | _ => none

/-- after the optional sign: `P(\d+Y)?(\d+M)?(\d+D)?(T…)?$`, then the `relativedelta` constructor -/
def parseDurBody (s : Str) : Option Dur :=
  match s with
  | 'P' :: r =>
    let y := optComp 'Y' r
    let mo := optComp 'M' y.2
    let d := optComp 'D' mo.2
    (parseDurTime d.2).map (fun t =>
      Dur.fix ⟨Int.ofNat (y.1.getD 0), Int.ofNat (mo.1.getD 0), Int.ofNat (d.1.getD 0),
               Int.ofNat t.1, Int.ofNat t.2.1, Int.ofNat t.2.2.1, Int.ofNat t.2.2.2⟩)
  | _ => none

/-- `_parse_xsd_duration` -/
def parseDur (s0 : Str) : Option Dur :=
  match dropNl s0 with
  | '-' :: r => (parseDurBody r).map Dur.neg
  | r => parseDurBody r

/-! ### lexical space, XML Schema Part 2 §3.2.6.1: `-?PnYnMnDTnHnMnS`, every part optional, at least one present,
    `T` present iff a time part is present, seconds may carry a decimal fraction -/

/-- is there a `digits x` group at the front? -/
def vComp (x : Char) (s : Str) : Bool × Str :=
  match s.takeWhile isDig, s.dropWhile isDig with
  | _ :: _, c :: r => if c = x then (true, r) else (false, s)
  | _, _ => (false, s)

/-- `none` = garbage; `some b` = end reached, `b` = a seconds part was present -/
def vSecs (s : Str) : Option Bool :=
  match s with
  | [] => some false
  | _ =>
    match s.takeWhile isDig, s.dropWhile isDig with
    | _ :: _, ['S'] => some true
    | _ :: _, '.' :: r =>
      (match r.takeWhile isDig, r.dropWhile isDig with
       | _ :: _, ['S'] => some true
       | _, _ => none)
    | _, _ => none

def validDurBody (s : Str) : Bool :=
  match s with
  | 'P' :: r =>
    let y := vComp 'Y' r
    let mo := vComp 'M' y.2
    let d := vComp 'D' mo.2
    (match d.2 with
     | [] => y.1 || mo.1 || d.1
     | 'T' :: t =>
       let h := vComp 'H' t
       let mi := vComp 'M' h.2
       (match vSecs mi.2 with
        | some hs => h.1 || mi.1 || hs
        | none => false)
     | _ => false)
  | _ => false

def validDur (s0 : Str) : Bool :=
  match s0 with
  | '-' :: r => validDurBody r
  | r => validDurBody r

end Basyx.Lex
