/-
  C06 model — the date/time family: `Date`, `datetime.datetime`, `datetime.time`, `GYear`, `GMonth`, `GDay`,
  `GYearMonth`, `GMonthDay`; time zones as whole minutes east of UTC (`datetime.timezone(timedelta(minutes=m))`;
  offsets with a seconds part are a neutral zone and not modelled).

  The parsers mirror the regular expressions of the module group by group:
    DATE_RE       ^(-?)(\d\d\d\d)-(\d\d)-(\d\d)([+\-](\d\d):(\d\d)|Z)?$
    DATETIME_RE   ^(-?)(\d\d\d\d)-(\d\d)-(\d\d)T(\d\d):(\d\d):(\d\d)(\.\d+)?([+\-](\d\d):(\d\d)|Z)?$
    TIME_RE       ^(\d\d):(\d\d):(\d\d)(\.\d+)?([+\-](\d\d):(\d\d)|Z)?$
    GYEAR_RE      ^(\d\d\d\d)([+\-]\d\d:\d\d|Z)?$          GMONTH_RE  ^--(\d\d)(…)?$      GDAY_RE ^---(\d\d)(…)?$
    GYEARMONTH_RE ^(\d\d\d\d)-(\d\d)(…)?$                   GMONTHDAY_RE ^--(\d\d)-(\d\d)(…)?$
  followed by the constructor's own checks.  A leading `-` (group 1 of DATE_RE/DATETIME_RE) always ends in
  `ValueError` (either no match or "Negative Dates are not supported"), so it is one error branch here.
-/
import Basyx.Model.Lex.Basic
namespace Basyx.Lex
open Basyx.Fmt (padN pad2 pad4)

/-- `tzinfo`: `none`, or minutes east of UTC -/
abbrev Tz := Option Int

structure DateV where
  year : Nat
  month : Nat
  day : Nat
  tz : Tz
deriving DecidableEq, Repr

structure TimeV where
  hour : Nat
  minute : Nat
  second : Nat
  micro : Nat
  tz : Tz
deriving DecidableEq, Repr

structure DateTimeV where
  year : Nat
  month : Nat
  day : Nat
  hour : Nat
  minute : Nat
  second : Nat
  micro : Nat
  tz : Tz
deriving DecidableEq, Repr

structure GYearV where
  year : Int
  tz : Tz
deriving DecidableEq, Repr

structure GMonthV where
  month : Nat
  tz : Tz
deriving DecidableEq, Repr

structure GDayV where
  day : Nat
  tz : Tz
deriving DecidableEq, Repr

structure GYearMonthV where
  year : Int
  month : Nat
  tz : Tz
deriving DecidableEq, Repr

structure GMonthDayV where
  month : Nat
  day : Nat
  tz : Tz
deriving DecidableEq, Repr

/-! ### time zones -/

/-- `_serialize_date_tzinfo` for an offset of whole minutes:
    `"Z"` if the offset is zero, else sign, `{:02.0f}` of `abs // 3600`, `{:02.0f}` of `(abs // 60) % 60`. -/
def tzReprDate : Tz → Str
  | none => []
  | some m => if m = 0 then ['Z']
              else (if m ≥ 0 then '+' else '-') :: (pad2 (m.natAbs / 60) ++ ':' :: pad2 (m.natAbs % 60))

/-- the zone part of `datetime.isoformat()` / `time.isoformat()` : `+HH:MM` / `-HH:MM` (never `Z`) -/
def tzReprIso : Tz → Str
  | none => []
  | some m => (if m < 0 then '-' else '+') :: (pad2 (m.natAbs / 60) ++ ':' :: pad2 (m.natAbs % 60))

/-- `([+\-](\d\d):(\d\d)|Z)?$` followed by `_parse_xsd_date_tzinfo`:
    `timezone(timedelta(hours=hh, minutes=mm) * ±1)` raises ValueError unless the offset is strictly below 24 h.
    Outer `none` = no match / ValueError. -/
def parseTz : Str → Option Tz
  | [] => some none
  | ['Z'] => some (some 0)
  | [sg, h1, h2, ':', m1, m2] =>
    if (sg = '+' || sg = '-') && isDig h1 && isDig h2 && isDig m1 && isDig m2 then
      let mins := dval [h1, h2] * 60 + dval [m1, m2]
      if mins < 1440 then some (some (if sg = '-' then -(Int.ofNat mins) else Int.ofNat mins)) else none
    else none
  | _ => none

/-- XML Schema Part 2 §3.2.7.3: `(('+' | '-') hh ':' mm) | 'Z'`, hh:mm between 00:00 and 14:00 -/
def validTz : Str → Bool
  | [] => true
  | ['Z'] => true
  | [sg, h1, h2, ':', m1, m2] =>
    (sg = '+' || sg = '-') && isDig h1 && isDig h2 && isDig m1 && isDig m2 &&
      ((dval [h1, h2] ≤ 13 && dval [m1, m2] ≤ 59) || (dval [h1, h2] = 14 && dval [m1, m2] = 0))
  | _ => false

/-- `(\.\d+)?` then the zone: returns (microseconds, zone) -/
def parseFracTz (rest : Str) : Option (Nat × Tz) :=
  match rest with
  | '.' :: r =>
    let ds := r.takeWhile isDig
    if ds.isEmpty then none else (parseTz (r.dropWhile isDig)).map (fun z => (micros ds, z))
  | _ => (parseTz rest).map (fun z => (0, z))

/-- `datetime.date.__new__` checks -/
def dateOk (y m d : Nat) : Bool := 1 ≤ y && y ≤ 9999 && 1 ≤ m && m ≤ 12 && 1 ≤ d && d ≤ daysInMonth y m
/-- `datetime.time.__new__` checks -/
def timeOk (h mi s us : Nat) : Bool := h ≤ 23 && mi ≤ 59 && s ≤ 59 && us ≤ 999999

/-! ### xs:date -/

/-- `_parse_xsd_date` -/
def parseDate (s0 : Str) : Option DateV :=
  match dropNl s0 with
  | y1 :: y2 :: y3 :: y4 :: '-' :: m1 :: m2 :: '-' :: d1 :: d2 :: z =>
    if [y1, y2, y3, y4, m1, m2, d1, d2].all isDig then
      match parseTz z with
      | none => none
      | some tz =>
        let y := dval [y1, y2, y3, y4]; let m := dval [m1, m2]; let d := dval [d1, d2]
        if dateOk y m d then some ⟨y, m, d, tz⟩ else none
    else none
  | _ => none

/-- `value.isoformat() + _serialize_date_tzinfo(value)`; `date.isoformat` is `"%04d-%02d-%02d"` -/
def reprDate (v : DateV) : Str :=
  pad4 v.year ++ '-' :: (pad2 v.month ++ '-' :: (pad2 v.day ++ tzReprDate v.tz))

/-! ### xs:time -/

/-- `_parse_xsd_time` -/
def parseTime (s0 : Str) : Option TimeV :=
  match dropNl s0 with
  | h1 :: h2 :: ':' :: m1 :: m2 :: ':' :: s1 :: s2 :: rest =>
    if [h1, h2, m1, m2, s1, s2].all isDig then
      match parseFracTz rest with
      | none => none
      | some (us, tz) =>
        let h := dval [h1, h2]; let mi := dval [m1, m2]; let s := dval [s1, s2]
        if timeOk h mi s us then some ⟨h, mi, s, us, tz⟩ else none
    else none
  | _ => none

/-- the clock part of `isoformat()`: `"%02d:%02d:%02d"` plus `".%06d"` iff microsecond ≠ 0 -/
def reprClock (h mi s us : Nat) : Str :=
  pad2 h ++ ':' :: (pad2 mi ++ ':' :: (pad2 s ++ (if us = 0 then [] else '.' :: padN 6 us)))

/-- `time.isoformat()` -/
def reprTime (v : TimeV) : Str := reprClock v.hour v.minute v.second v.micro ++ tzReprIso v.tz

/-! ### xs:dateTime -/

/-- `_parse_xsd_datetime` -/
def parseDateTime (s0 : Str) : Option DateTimeV :=
  match dropNl s0 with
  | y1 :: y2 :: y3 :: y4 :: '-' :: o1 :: o2 :: '-' :: d1 :: d2 :: 'T' ::
      h1 :: h2 :: ':' :: m1 :: m2 :: ':' :: s1 :: s2 :: rest =>
    if [y1, y2, y3, y4, o1, o2, d1, d2, h1, h2, m1, m2, s1, s2].all isDig then
      match parseFracTz rest with
      | none => none
      | some (us, tz) =>
        let y := dval [y1, y2, y3, y4]; let mo := dval [o1, o2]; let d := dval [d1, d2]
        let h := dval [h1, h2]; let mi := dval [m1, m2]; let s := dval [s1, s2]
        if dateOk y mo d && timeOk h mi s us then some ⟨y, mo, d, h, mi, s, us, tz⟩ else none
    else none
  | _ => none

/-- `datetime.isoformat()` -/
def reprDateTime (v : DateTimeV) : Str :=
  pad4 v.year ++ '-' :: (pad2 v.month ++ '-' :: (pad2 v.day ++ 'T' ::
    (reprClock v.hour v.minute v.second v.micro ++ tzReprIso v.tz)))

/-! ### the five g-types -/

/-- `"{:04d}".format(y)` for any int -/
def fmt04 (y : Int) : Str :=
  match y with
  | .ofNat n => padN 4 n
  | .negSucc n => '-' :: padN 3 (n + 1)

/-- `_parse_xsd_gyear`; `GYear.__init__` checks nothing -/
def parseGYear (s0 : Str) : Option GYearV :=
  match dropNl s0 with
  | y1 :: y2 :: y3 :: y4 :: z =>
    if [y1, y2, y3, y4].all isDig then (parseTz z).map (fun tz => ⟨Int.ofNat (dval [y1, y2, y3, y4]), tz⟩) else none
  | _ => none

/-- `date.into_date()` inside `_serialize_date_tzinfo` builds a `Date`, which needs `MINYEAR <= year <= MAXYEAR` -/
def yearInPy (y : Int) : Bool := 1 ≤ y && y ≤ 9999

/-- `"{:04d}".format(year) + _serialize_date_tzinfo(value)`; `none` = ValueError (zone given, year outside 1..9999) -/
def reprGYear (v : GYearV) : Option Str :=
  if v.tz.isSome && !yearInPy v.year then none else some (fmt04 v.year ++ tzReprDate v.tz)

/-- `_parse_xsd_gmonth`; `GMonth.__init__`: `1 <= month <= 12` -/
def parseGMonth (s0 : Str) : Option GMonthV :=
  match dropNl s0 with
  | '-' :: '-' :: m1 :: m2 :: z =>
    if [m1, m2].all isDig then
      match parseTz z with
      | none => none
      | some tz => let m := dval [m1, m2]; if 1 ≤ m && m ≤ 12 then some ⟨m, tz⟩ else none
    else none
  | _ => none

def reprGMonth (v : GMonthV) : Str := '-' :: '-' :: (pad2 v.month ++ tzReprDate v.tz)

/-- `_parse_xsd_gday`; `GDay.__init__`: `1 <= day <= 31` -/
def parseGDay (s0 : Str) : Option GDayV :=
  match dropNl s0 with
  | '-' :: '-' :: '-' :: d1 :: d2 :: z =>
    if [d1, d2].all isDig then
      match parseTz z with
      | none => none
      | some tz => let d := dval [d1, d2]; if 1 ≤ d && d ≤ 31 then some ⟨d, tz⟩ else none
    else none
  | _ => none

def reprGDay (v : GDayV) : Str := '-' :: '-' :: '-' :: (pad2 v.day ++ tzReprDate v.tz)

/-- `_parse_xsd_gyearmonth`; `GYearMonth.__init__`: `1 <= month <= 12` -/
def parseGYearMonth (s0 : Str) : Option GYearMonthV :=
  match dropNl s0 with
  | y1 :: y2 :: y3 :: y4 :: '-' :: m1 :: m2 :: z =>
    if [y1, y2, y3, y4, m1, m2].all isDig then
      match parseTz z with
      | none => none
      | some tz =>
        let m := dval [m1, m2]
        if 1 ≤ m && m ≤ 12 then some ⟨Int.ofNat (dval [y1, y2, y3, y4]), m, tz⟩ else none
    else none
  | _ => none

/-- `"{:04d}-{:02d}".format(year, month)` (after fix C06-gyearmonth-format) -/
def reprGYearMonth (v : GYearMonthV) : Option Str :=
  if v.tz.isSome && !yearInPy v.year then none else some (fmt04 v.year ++ '-' :: (pad2 v.month ++ tzReprDate v.tz))

/-- longest month length over all years (29 for February) -/
def maxDay (m : Nat) : Nat := if m = 2 then 29 else if m = 4 || m = 6 || m = 9 || m = 11 then 30 else 31

/-- `GMonthDay.__init__`: day 1..31, month 1..12, day within the month (after fix C06-gmonthday-day-range) -/
def monthDayOk (m d : Nat) : Bool := 1 ≤ d && d ≤ 31 && 1 ≤ m && m ≤ 12 && d ≤ maxDay m

/-- `_parse_xsd_gmonthday` -/
def parseGMonthDay (s0 : Str) : Option GMonthDayV :=
  match dropNl s0 with
  | '-' :: '-' :: m1 :: m2 :: '-' :: d1 :: d2 :: z =>
    if [m1, m2, d1, d2].all isDig then
      match parseTz z with
      | none => none
      | some tz =>
        let m := dval [m1, m2]; let d := dval [d1, d2]
        if monthDayOk m d then some ⟨m, d, tz⟩ else none
    else none
  | _ => none

def reprGMonthDay (v : GMonthDayV) : Str := '-' :: '-' :: (pad2 v.month ++ '-' :: (pad2 v.day ++ tzReprDate v.tz))

/-! ### the lexical spaces of XML Schema Part 2 (§3.2.7 – §3.2.14), independent of the parsers above -/

/-- `'-'? yyyy…`: at least four digits, no leading zero beyond four digits.  Returns (digits, rest). -/
def splitYear (s : Str) : Option (Str × Str) :=
  let body := if s.head? = some '-' then s.tail else s
  let ds := body.takeWhile isDig
  if ds.length < 4 then none
  else if ds.length > 4 && ds.head? = some '0' then none
  else some (ds, body.dropWhile isDig)

/-- `ss ('.' s+)?` then zone; `ss` given as a number; 24:00:00 is allowed with zero fraction only -/
def validFracTz (rest : Str) : Bool :=
  match rest with
  | '.' :: r => !(r.takeWhile isDig).isEmpty && validTz (r.dropWhile isDig)
  | _ => validTz rest

def validClock (h mi s : Nat) (rest : Str) : Bool :=
  ((h ≤ 23 && mi ≤ 59 && s ≤ 59) ||
    (h = 24 && mi = 0 && s = 0 &&
      (match rest with | '.' :: r => (r.takeWhile isDig).all (· = '0') | _ => true))) && validFracTz rest

/-- xs:date: `'-'? yyyy '-' mm '-' dd zzzzzz?`, day no larger than the month allows.
    (year 0000 is lexically accepted here: XSD 1.1 allows it, XSD 1.0 does not — neutral zone.) -/
def validDate (s : Str) : Bool :=
  match splitYear s with
  | some (ys, '-' :: m1 :: m2 :: '-' :: d1 :: d2 :: z) =>
    isDig m1 && isDig m2 && isDig d1 && isDig d2 &&
      1 ≤ dval [m1, m2] && dval [m1, m2] ≤ 12 && 1 ≤ dval [d1, d2] && dval [d1, d2] ≤ daysInMonth (dval ys) (dval [m1, m2]) &&
      validTz z
  | _ => false

def validTime (s : Str) : Bool :=
  match s with
  | h1 :: h2 :: ':' :: m1 :: m2 :: ':' :: s1 :: s2 :: rest =>
    [h1, h2, m1, m2, s1, s2].all isDig && validClock (dval [h1, h2]) (dval [m1, m2]) (dval [s1, s2]) rest
  | _ => false

def validDateTime (s : Str) : Bool :=
  match splitYear s with
  | some (ys, '-' :: o1 :: o2 :: '-' :: d1 :: d2 :: 'T' :: t) =>
    isDig o1 && isDig o2 && isDig d1 && isDig d2 &&
      1 ≤ dval [o1, o2] && dval [o1, o2] ≤ 12 && 1 ≤ dval [d1, d2] && dval [d1, d2] ≤ daysInMonth (dval ys) (dval [o1, o2]) &&
      validTime t
  | _ => false

def validGYear (s : Str) : Bool :=
  match splitYear s with
  | some (_, z) => validTz z
  | none => false

def validGYearMonth (s : Str) : Bool :=
  match splitYear s with
  | some (_, '-' :: m1 :: m2 :: z) => isDig m1 && isDig m2 && 1 ≤ dval [m1, m2] && dval [m1, m2] ≤ 12 && validTz z
  | _ => false

def validGMonth (s : Str) : Bool :=
  match s with
  | '-' :: '-' :: m1 :: m2 :: z => isDig m1 && isDig m2 && 1 ≤ dval [m1, m2] && dval [m1, m2] ≤ 12 && validTz z
  | _ => false

def validGDay (s : Str) : Bool :=
  match s with
  | '-' :: '-' :: '-' :: d1 :: d2 :: z => isDig d1 && isDig d2 && 1 ≤ dval [d1, d2] && dval [d1, d2] ≤ 31 && validTz z
  | _ => false

def validGMonthDay (s : Str) : Bool :=
  match s with
  | '-' :: '-' :: m1 :: m2 :: '-' :: d1 :: d2 :: z =>
    isDig m1 && isDig m2 && isDig d1 && isDig d2 && 1 ≤ dval [m1, m2] && dval [m1, m2] ≤ 12 &&
      1 ≤ dval [d1, d2] && dval [d1, d2] ≤ maxDay (dval [m1, m2]) && validTz z
  | _ => false

end Basyx.Lex
