/-
  C06 model — integers: `int(str)` as CPython implements it for ASCII input, `str(int)`, the 13 range-checked
  subclasses (`Long … UnsignedByte`), `bool`, the three string types.
-/
import Basyx.Model.Lex.Basic
namespace Basyx.Lex

/-! ### `int(s)` (base 10), ASCII part: `ws* [+-]? digit (_? digit)* ws*` -/

/-- after a digit: `(_? digit)*`, returns the digits without the underscores -/
def pyDigitsAux : Str → Option Str
  | [] => some []
  | '_' :: c :: r => if isDig c then (pyDigitsAux r).map (c :: ·) else none
  | c :: r => if isDig c then (pyDigitsAux r).map (c :: ·) else none

/-- `digit (_? digit)*` -/
def pyDigits : Str → Option Str
  | c :: r => if isDig c then (pyDigitsAux r).map (c :: ·) else none
  | [] => none

/-- `int(s)`; `none` = ValueError.  (CPython additionally refuses more than 4300 digits
    — `sys.int_max_str_digits` — which is not modelled.) -/
def pyInt (s : Str) : Option Int :=
  match strip s with
  | '-' :: r => (pyDigits r).map (fun d => -(Int.ofNat (dval d)))
  | '+' :: r => (pyDigits r).map (fun d => Int.ofNat (dval d))
  | r => (pyDigits r).map (fun d => Int.ofNat (dval d))

/-- `str(i)` -/
def intRepr : Int → Str
  | .ofNat n => Nat.toDigits 10 n
  | .negSucc n => '-' :: Nat.toDigits 10 (n + 1)

/-- XML Schema Part 2 §3.3.13.1: "an optional sign followed by a finite-length sequence of decimal digits" -/
def validInt (s : Str) : Bool :=
  let body := match s with
    | '+' :: r => r
    | '-' :: r => r
    | r => r
  !body.isEmpty && body.all isDig

/-- a closed/half-open integer interval `(lo, hi)`, `none` = unbounded -/
abbrev Range := Option Int × Option Int

def Range.contains (r : Range) (v : Int) : Bool :=
  (match r.1 with | some lo => decide (lo ≤ v) | none => true) &&
  (match r.2 with | some hi => decide (v ≤ hi) | none => true)

/-- `Long.__new__` … `UnsignedByte.__new__`: `res = int.__new__(cls, v); if <out of range>: raise ValueError`.
    The range is a parameter: it is regenerated from the comparison literals of the source
    (`Basyx.Gen.XsdNames.intRanges`). -/
def construct (r : Range) (v : Int) : Option Int := if r.contains v then some v else none

/-- `from_xsd(s, T)` for an integer class `T`: `T(s)` -/
def parseInt (r : Range) (s : Str) : Option Int := (pyInt s).bind (construct r)

/-! ### boolean -/

/-- `_parse_xsd_bool` -/
def parseBool (s : Str) : Option Bool :=
  if s = ['1'] || s = ['t','r','u','e'] then some true
  else if s = ['0'] || s = ['f','a','l','s','e'] then some false
  else none

def reprBool (b : Bool) : Str := if b then ['t','r','u','e'] else ['f','a','l','s','e']

/-- §3.2.2.1: `{true, false, 1, 0}` -/
def validBool (s : Str) : Bool := [['t','r','u','e'], ['f','a','l','s','e'], ['1'], ['0']].contains s

/-! ### string, anyURI (`str(value)` both ways) and normalizedString -/

def isNormBreak (c : Char) : Bool := c = '\r' || c = '\n' || c = '\t'

/-- `NormalizedString.__new__` -/
def parseNormalized (s : Str) : Option Str := if s.any isNormBreak then none else some s

/-- §3.3.1: no carriage return, line feed or tab -/
def validNormalized (s : Str) : Bool := s.all (fun c => c ≠ '\r' && c ≠ '\n' && c ≠ '\t')

/-- `NormalizedString.from_string` -/
def normalizedFromString (s : Str) : Str := s.filter (fun c => !isNormBreak c)

end Basyx.Lex
