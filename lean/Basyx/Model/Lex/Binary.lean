/-
  C06 model — xs:hexBinary (`bytearray.hex()` / `bytes.fromhex`) and xs:base64Binary (`base64.b64encode` /
  `base64.b64decode(value.encode())`, i.e. `binascii.a2b_base64` in its default *non-strict* mode).
  A byte is a `Nat` below 256 (`Bytes.ok`).
-/
import Basyx.Model.Lex.Basic
namespace Basyx.Lex

abbrev Bytes := List Nat
def Bytes.ok (bs : Bytes) : Prop := ∀ b ∈ bs, b < 256

/-! ### hexBinary -/

/-- `bytes.hex()`: two lower-case digits per byte -/
def hexEncode : Bytes → Str
  | [] => []
  | b :: r => Nat.digitChar (b / 16) :: Nat.digitChar (b % 16) :: hexEncode r

/-- `_PyLong_DigitValue[c] < 16` -/
def hexVal (c : Char) : Option Nat :=
  if '0' ≤ c && c ≤ '9' then some (c.toNat - 48)
  else if 'a' ≤ c && c ≤ 'f' then some (c.toNat - 87)
  else if 'A' ≤ c && c ≤ 'F' then some (c.toNat - 55)
  else none

/-- `bytes.fromhex(s)` (`_PyBytes_FromHex`): ASCII white space is skipped *between* byte pairs; a non-ASCII character,
    a non-hex character or an odd digit raises ValueError (`none`). -/
def fromHex : Str → Option Bytes
  | [] => some []
  | c :: r =>
    if isPySpace c then fromHex r
    else match r with
      | d :: r' =>
        (match hexVal c, hexVal d with
         | some h, some l => (fromHex r').map (fun t => (h * 16 + l) :: t)
         | _, _ => none)
      | [] => none

/-- XML Schema Part 2 §3.2.15: `([0-9a-fA-F]{2})*` -/
def validHex : Str → Bool
  | [] => true
  | [_] => false
  | c :: d :: r => (hexVal c).isSome && (hexVal d).isSome && validHex r

/-! ### base64Binary -/

/-- the base64 alphabet `A–Z a–z 0–9 + /` by index -/
def b64char (i : Nat) : Char :=
  if i < 26 then Char.ofNat (65 + i)
  else if i < 52 then Char.ofNat (97 + (i - 26))
  else if i < 62 then Char.ofNat (48 + (i - 52))
  else if i = 62 then '+' else '/'

/-- `table_a2b_base64` (everything else, including every non-ASCII byte, is "not in the alphabet") -/
def b64index (c : Char) : Option Nat :=
  if 'A' ≤ c && c ≤ 'Z' then some (c.toNat - 65)
  else if 'a' ≤ c && c ≤ 'z' then some (c.toNat - 97 + 26)
  else if '0' ≤ c && c ≤ '9' then some (c.toNat - 48 + 52)
  else if c = '+' then some 62
  else if c = '/' then some 63
  else none

/-- `base64.b64encode` -/
def b64encode : Bytes → Str
  | a :: b :: c :: r =>
    b64char (a / 4) :: b64char ((a % 4) * 16 + b / 16) :: b64char ((b % 16) * 4 + c / 64) :: b64char (c % 64) :: b64encode r
  | [a, b] => [b64char (a / 4), b64char ((a % 4) * 16 + b / 16), b64char ((b % 16) * 4), '=']
  | [a] => [b64char (a / 4), b64char ((a % 4) * 16), '=', '=']
  | [] => []

/-- `binascii.a2b_base64(data, strict_mode=False)` as a state machine over the input characters
    (`quad` = position in the current quad, `left` = left-over bits, `pads` = consecutive `=` counted so far,
    `acc` = output so far, reversed):
    * `=`: `if (quad >= 2 && quad + ++pads >= 4) goto done;` else skip it;
    * a character outside the alphabet is skipped;
    * an alphabet character resets `pads` and shifts six bits in;
    * at the end of the input `quad` must be 0 ("Incorrect padding" / "number of data characters cannot be 1 more…"). -/
def b64decodeAux : Str → (quad left pads : Nat) → (acc : Bytes) → Option Bytes
  | [], q, _, _, acc => if q = 0 then some acc.reverse else none
  | c :: r, q, l, p, acc =>
    if c = '=' then
      if q ≥ 2 then
        if q + (p + 1) ≥ 4 then some acc.reverse else b64decodeAux r q l (p + 1) acc
      else b64decodeAux r q l p acc
    else match b64index c with
      | none => b64decodeAux r q l p acc
      | some v =>
        if q = 0 then b64decodeAux r 1 v 0 acc
        else if q = 1 then b64decodeAux r 2 (v % 16) 0 ((l * 4 + v / 16) :: acc)
        else if q = 2 then b64decodeAux r 3 (v % 4) 0 ((l * 16 + v / 4) :: acc)
        else b64decodeAux r 0 0 0 ((l * 64 + v) :: acc)

/-- `base64.b64decode(s.encode())` -/
def b64decode (s : Str) : Option Bytes := b64decodeAux s 0 0 0 []

/-- XML Schema Part 2 §3.2.16 (2nd ed.):
    `Base64Binary ::= ((B64S B64S B64S B64S)* ((B64S B64S B64S B64) | (B64S B64S B16S '=') | (B64S B04S '=' #x20? '=')))?`
    with `B64S ::= B64 #x20?` etc.: one optional space after every character but the last. -/
def despaceAux : Str → (prevSpace : Bool) → Option Str
  | [], prevSpace => if prevSpace then none else some []
  | c :: r, prevSpace =>
    if c = ' ' then (if prevSpace then none else despaceAux r true)
    else (despaceAux r false).map (c :: ·)

/-- remove the optional single spaces; `none` if a space is leading, trailing or doubled -/
def despace (s : Str) : Option Str :=
  match s with
  | ' ' :: _ => none
  | _ => despaceAux s false

def isB64 (c : Char) : Bool := (b64index c).isSome
/-- `[AEIMQUYcgkosw048]` -/
def isB16 (c : Char) : Bool := match b64index c with | some i => i % 4 = 0 | none => false
/-- `[AQgw]` -/
def isB04 (c : Char) : Bool := match b64index c with | some i => i % 16 = 0 | none => false

def validB64Core : Str → Bool
  | [] => true
  | [a, b, c, d] =>
    isB64 a && ((isB64 b && isB64 c && isB64 d) || (isB64 b && isB16 c && d = '=') || (isB04 b && c = '=' && d = '='))
  | a :: b :: c :: d :: r => isB64 a && isB64 b && isB64 c && isB64 d && validB64Core r
  | _ => false

def validB64 (s : Str) : Bool :=
  match despace s with
  | some t => validB64Core t
  | none => false

end Basyx.Lex
