/-
  Model of `basyx.aas.model.datatypes` (property C06) — shared character-level helpers.

  Conventions of the whole `Basyx.Lex` model
  * a Python `str` is a `List Char`; `parse… : Str → Option V` — `none` means *the call raises `ValueError`*
    (`binascii.Error` and `decimal.InvalidOperation`→`ValueError` included); `repr… : V → Str` is `xsd_repr`;
  * `valid… : Str → Bool` is the lexical space of XML Schema Part 2, written from the recommendation and NOT from the
    parser (it is the specification side of the theorems);
  * only ASCII digits / ASCII white space are modelled for `\d`, `int()`, `float()`, `Decimal()`: Python also accepts
    every Unicode `Nd` digit and Unicode white space there.  Such inputs are kept out of the model = implementation
    comparison and are covered by the implementation oracle only (known finding `lex:parse:non-ascii-digit`).
-/
import Basyx.Model.Fmt
namespace Basyx.Lex
open Basyx.Fmt (padN pad2 pad4)

abbrev Str := List Char

/-- `'0' ≤ c ≤ '9'` -/
def isDig (c : Char) : Bool := c.isDigit

/-- value of a string of ASCII digits (`int(s)` for such a string) -/
def dval (l : Str) : Nat := Nat.ofDigitChars 10 l 0

/-- `Py_ISSPACE`: what `int()`, `float()`, `bytes.fromhex` skip in an ASCII string: TAB LF VT FF CR SPACE -/
def isPySpace (c : Char) : Bool := c = ' ' || (9 ≤ c.toNat && c.toNat ≤ 13)

/-- `s.strip()` restricted to `Py_ISSPACE` -/
def strip (s : Str) : Str := ((s.dropWhile isPySpace).reverse.dropWhile isPySpace).reverse

/-- regex `$` after a pattern that cannot match `'\n'`: the end of the string *or just before one final newline*.
    All nine regular expressions of the module are anchored `^…$` and used with `re.match`, hence they also accept
    `literal + "\n"`. -/
def dropNl (s : Str) : Str := if s.getLast? = some '\n' then s.dropLast else s

/-- `str.ljust(6, '0')` -/
def ljust6 (s : Str) : Str := s ++ List.replicate (6 - s.length) '0'

/-- `_parse_xsd_fraction` on the digits after the point: `int(digits[:6].ljust(6, "0"))` -/
def micros (ds : Str) : Nat := dval (ljust6 (ds.take 6))

/-- `rstrip('0')` (used to describe how `Decimal` prints a fraction of a second) -/
def rstrip0 (s : Str) : Str := (s.reverse.dropWhile (· = '0')).reverse

/-- Gregorian calendar as in CPython's `datetime`: `_is_leap`, `_days_in_month` -/
def isLeap (y : Nat) : Bool := y % 4 = 0 && (y % 100 ≠ 0 || y % 400 = 0)

def daysInMonth (y m : Nat) : Nat :=
  if m = 2 then (if isLeap y then 29 else 28)
  else if m = 4 || m = 6 || m = 9 || m = 11 then 30 else 31

end Basyx.Lex
