/-
  C06 model — xs:float / xs:double (only the part that is the SDK's own: the special-literal table and the
  `repr`-translation; the digit string of a finite float is CPython's shortest repr and is an opaque string here) and
  xs:decimal (`decimal.Decimal`, abstractly sign / coefficient / exponent).
-/
import Basyx.Model.Lex.Basic
namespace Basyx.Lex

/-! ### float, double -/

inductive FloatV where
  | nan
  | inf
  | ninf
  | finite (pyrepr : Str)      -- `repr(x)` of a finite float, e.g. `1e-05`, `-0.0`, `1.5e+300`
deriving DecidableEq, Repr

/-- `repr(float)` -/
def pyFloatRepr : FloatV → Str
  | .nan => ['n', 'a', 'n']
  | .inf => ['i', 'n', 'f']
  | .ninf => ['-', 'i', 'n', 'f']
  | .finite r => r

/-- `.translate({0x65: 'E', 0x66: 'F', 0x69: 'I', 0x6e: 'N'})` -/
def floatTr (c : Char) : Char :=
  if c = 'e' then 'E' else if c = 'f' then 'F' else if c = 'i' then 'I' else if c = 'n' then 'N' else c

/-- `xsd_repr` of a float -/
def reprFloat (v : FloatV) : Str := (pyFloatRepr v).map floatTr

def lowerAscii (c : Char) : Char := if 'A' ≤ c && c ≤ 'Z' then Char.ofNat (c.toNat + 32) else c

/-- optional leading sign: (is negative, rest) -/
def splitSign (t : Str) : Bool × Str :=
  match t with
  | '-' :: r => (true, r)
  | '+' :: r => (false, r)
  | r => (false, r)

/-- the non-numeric branch of `float(s)` (`_Py_parse_inf_or_nan` after stripping white space): optional sign, then
    `inf` / `infinity` / `nan` in any letter case.  `none` = "not a special literal" (then `float()` either parses a
    number — not modelled — or raises). -/
def parseFloatSpecial (s : Str) : Option FloatV :=
  let nb := splitSign (strip s)
  let l := nb.2.map lowerAscii
  if l = ['i', 'n', 'f'] || l = ['i', 'n', 'f', 'i', 'n', 'i', 't', 'y'] then some (if nb.1 then .ninf else .inf)
  else if l = ['n', 'a', 'n'] then some .nan
  else none

/-- `digits+` prefix splitter -/
def spanDigits (s : Str) : Str × Str := (s.takeWhile isDig, s.dropWhile isDig)

/-- XML Schema Part 2 §3.2.4.1 / §3.2.5.1: mantissa (a decimal number) optionally followed by `E`/`e` and an integer
    exponent; or `INF`, `-INF`, `NaN` (`+INF` is allowed by XSD 1.1 only and tolerated here). -/
def validDecimalBody (s : Str) : Bool :=
  let a := spanDigits s
  match a.2 with
  | [] => !a.1.isEmpty
  | '.' :: r => r.all isDig && (!a.1.isEmpty || !r.isEmpty)
  | _ => false

def stripSign (s : Str) : Str :=
  match s with
  | '+' :: r => r
  | '-' :: r => r
  | r => r

/-- §3.2.3.1 xs:decimal: optional sign, digits with an optional point (`.5`, `5.`, `5.0`; at least one digit) -/
def validDecimal (s : Str) : Bool := validDecimalBody (stripSign s)

def validFloat (s : Str) : Bool :=
  if s = ['I', 'N', 'F'] || s = ['-', 'I', 'N', 'F'] || s = ['+', 'I', 'N', 'F'] || s = ['N', 'a', 'N'] then true
  else
    let body := stripSign s
    let mant := body.takeWhile (fun c => c ≠ 'E' && c ≠ 'e')
    match body.dropWhile (fun c => c ≠ 'E' && c ≠ 'e') with
    | [] => validDecimalBody mant
    | _ :: ex => validDecimalBody mant && (let d := stripSign ex; !d.isEmpty && d.all isDig)

/-- shapes of `repr(x)` for a finite float: `-?d+.d+`, `-?d+(.d+)?e[+-]d+`  (CPython `float_repr_style = 'short'`) -/
def pyFiniteRepr (s : Str) : Bool :=
  let body := match s with
    | '-' :: r => r
    | r => r
  let a := spanDigits body
  if a.1.isEmpty then false
  else match a.2 with
    | '.' :: r =>
      let b := spanDigits r
      !b.1.isEmpty && (match b.2 with
        | [] => true
        | 'e' :: sg :: ex => (sg = '+' || sg = '-') && !ex.isEmpty && ex.all isDig
        | _ => false)
    | 'e' :: sg :: ex => (sg = '+' || sg = '-') && !ex.isEmpty && ex.all isDig
    | _ => false

/-! ### decimal -/

structure DecV where
  neg : Bool
  coeff : Nat
  exp : Int
deriving DecidableEq, Repr

inductive DecR where
  | fin (v : DecV)
  | inf (neg : Bool)
  | nan (neg : Bool) (signaling : Bool)      -- diagnostic payload not modelled
deriving DecidableEq, Repr

/-- `format(value, "f")` for a finite Decimal (after fix C06-decimal-plain-notation); a zero with positive exponent is
    rescaled to exponent 0 first. -/
def reprDec (v : DecV) : Str :=
  let ds := Nat.toDigits 10 v.coeff
  let body :=
    if v.exp ≥ 0 then (if v.coeff = 0 then ds else ds ++ List.replicate v.exp.toNat '0')
    else
      let k := (-v.exp).toNat
      if ds.length > k then ds.take (ds.length - k) ++ '.' :: ds.drop (ds.length - k)
      else '0' :: '.' :: (List.replicate (k - ds.length) '0' ++ ds)
  (if v.neg then ['-'] else []) ++ body

def reprDecR : DecR → Str
  | .fin v => reprDec v
  | .inf neg => (if neg then ['-'] else []) ++ ['I', 'n', 'f', 'i', 'n', 'i', 't', 'y']
  | .nan neg sig => (if neg then ['-'] else []) ++ (if sig then ['s'] else []) ++ ['N', 'a', 'N']

/-- `str.isspace` on ASCII: TAB LF VT FF CR, FS GS RS US, SPACE (what `_decimal` strips) -/
def isUniSpaceAscii (c : Char) : Bool := isPySpace c || (28 ≤ c.toNat && c.toNat ≤ 31)

def stripU (s : Str) : Str := ((s.dropWhile isUniSpaceAscii).reverse.dropWhile isUniSpaceAscii).reverse

/-- `[-+]?\d+` exponent after `E` -/
def parseExp (s : Str) : Option Int :=
  match s with
  | '-' :: r => if !r.isEmpty && r.all isDig then some (-(Int.ofNat (dval r))) else none
  | '+' :: r => if !r.isEmpty && r.all isDig then some (Int.ofNat (dval r)) else none
  | r => if !r.isEmpty && r.all isDig then some (Int.ofNat (dval r)) else none

/-- `decimal.Decimal(s)` for ASCII `s`: white space stripped, every `_` removed, then
    `[-+]? ( (?=\d|\.\d) \d* (\. \d*)? (E [-+]?\d+)? | Inf(inity)? | s?NaN \d* )`, case-insensitive.
    `none` = InvalidOperation → ValueError. (Exponent limits of libmpdec are not modelled.) -/
def parseDec (s : Str) : Option DecR :=
  let nb := splitSign ((stripU s).filter (· ≠ '_'))
  let l := nb.2.map lowerAscii
  if l = ['i', 'n', 'f'] || l = ['i', 'n', 'f', 'i', 'n', 'i', 't', 'y'] then some (.inf nb.1)
  else match l with
    | 'n' :: 'a' :: 'n' :: d => if d.all isDig then some (.nan nb.1 false) else none
    | 's' :: 'n' :: 'a' :: 'n' :: d => if d.all isDig then some (.nan nb.1 true) else none
    | _ =>
      let ip := spanDigits l
      let fr : Option (Str × Str) := match ip.2 with
        | '.' :: r => some (spanDigits r)
        | r => if ip.1.isEmpty then none else some ([], r)
      match fr with
      | none => none
      | some (fd, rest) =>
        if ip.1.isEmpty && fd.isEmpty then none
        else
          let e : Option Int := match rest with
            | [] => some 0
            | 'e' :: x => parseExp x
            | _ => none
          e.map (fun ex => .fin ⟨nb.1, dval (ip.1 ++ fd), ex - Int.ofNat fd.length⟩)

end Basyx.Lex
