/-
  Model of `basyx.aas.adapter.aasx.AASXWriter.write_aas` / `AASXReader.read_into` (property C08), on top of the
  supplementary file container model (`Basyx.Files`, C19).

  Abstractions (named in the trusted base): the OPC/ZIP framing is a lossless container of named parts
  (pyecma376_2); the JSON/XML payload part carries the identifiables unchanged (theorems C03/C04); a submodel is
  represented by its identifier and the list of its File elements in `walk_submodel` order, each with the kinds of the
  containers it sits in (so that the model can apply the traversal's descend rule, which is REGENERATED from
  util/traversal.py).
-/
import Basyx.Model.Files
namespace Basyx.Aasx
open Basyx.Files (Name Content CT)

abbrev Id := List Char

/-- kinds of elements that can contain other elements -/
inductive Box where
  | collection | list | entity | operation | annotatedRel
deriving Repr, DecidableEq

structure FileEl where
  boxes : List Box            -- the containers on the way from the submodel to the element
  value : Option Name         -- File.value
deriving Repr, DecidableEq

inductive Kind where
  | aas | submodel | cd
deriving Repr, DecidableEq

structure Obj where
  id : Id
  kind : Kind
  uid : Nat                   -- Python identity
  smRefs : List Id            -- AAS: referenced submodels
  cdRefs : List Id            -- ConceptDescriptions referenced by semantic ids (ModelReference of type ConceptDescription)
  files : List FileEl         -- Submodel: its File elements
deriving Repr, DecidableEq

/-- which containers `walk_submodel` descends into (regenerated from the source) -/
abbrev Descends := Box → Bool

def reachable (d : Descends) (f : FileEl) : Bool := f.boxes.all d

/-- "absolute-path or relative-path reference": not a network path (`//…`) and no scheme (`:` in the first segment) -/
def firstSegment : List Char → List Char
  | [] => []
  | c :: r => if c = '/' then [] else c :: firstSegment r

def isLocal (p : Name) : Bool :=
  !(match p with | '/' :: '/' :: _ => true | _ => false) && !(firstSegment p).contains ':'

/-- `pyecma376_2.package_model.part_realpath(value, "/aasx/data.xml")` for paths without dot segments -/
def realpath (p : Name) : Name :=
  match p with
  | '/' :: _ => p
  | _ => "/aasx/".toList ++ p

structure Part where
  name : Name
  content : Content
  ctype : CT
deriving Repr, DecidableEq

structure Package where
  payload : List Obj
  parts : List Part
deriving Repr, DecidableEq

def findObj (s : List Obj) (i : Id) : Option Obj := s.find? (fun o => o.id = i)
def findPart (ps : List Part) (n : Name) : Option Part := ps.find? (fun p => p.name = n)

/-! ### writer -/

inductive WErr where
  | keyError | typeError
deriving Repr, DecidableEq

def addObj (acc : List Obj) (o : Obj) : List Obj := if acc.any (fun x => x.id = o.id) then acc else acc ++ [o]

/-- shells and the submodels they reference (unresolved references are skipped) -/
def collectShells (store : List Obj) : List Id → List Obj → Except WErr (List Obj)
  | [], acc => .ok acc
  | i :: r, acc =>
    match findObj store i with
    | none => .error .keyError
    | some a =>
      if a.kind ≠ .aas then .error .typeError
      else
        let acc1 := addObj acc a
        let acc2 := a.smRefs.foldl (fun ac ref =>
          match findObj store ref with
          | some sm => if sm.kind = .submodel then addObj ac sm else ac      -- resolve() of a wrong type: skipped
          | none => ac) acc1
        collectShells store r acc2

def collectCds (store : List Obj) (objs : List Obj) : List Obj :=
  (objs.flatMap (·.cdRefs)).foldl (fun ac ref =>
    match findObj store ref with
    | some cd => if cd.kind = .cd then addObj ac cd else ac
    | none => ac) objs

/-- supplementary parts: every reachable local File value that names a file of the container, once per name -/
def collectParts (d : Descends) (F : Files.St) : List FileEl → List Part → List Part
  | [], acc => acc
  | f :: r, acc =>
    match f.value with
    | some v =>
      if reachable d f && isLocal v then
        match Files.getContentType F v, Files.writeFile F v with
        | .ctype ct, .content c =>
          if acc.any (fun p => p.name = v) then collectParts d F r acc
          else collectParts d F r (acc ++ [⟨v, c, ct⟩])
        | _, _ => collectParts d F r acc                   -- not in the file store: skipped with a warning
      else collectParts d F r acc
    | none => collectParts d F r acc

def writeAas (d : Descends) (ids : List Id) (store : List Obj) (F : Files.St) : Except WErr Package :=
  match collectShells store ids [] with
  | .error e => .error e
  | .ok objs =>
    let all := collectCds store objs
    .ok ⟨all, collectParts d F (all.flatMap (fun o => if o.kind = .submodel then o.files else [])) []⟩

/-! ### reader -/

/-- `_collect_supplementary_files` for one submodel -/
def collectFiles (d : Descends) (parts : List Part) : Files.St → List FileEl → Files.St × List FileEl
  | G, [] => (G, [])
  | G, f :: r =>
    match f.value with
    | some v =>
      if reachable d f && isLocal v then
        match findPart parts (realpath v) with
        | some p =>
          match Files.addFile G (realpath v) p.content p.ctype with
          | (G1, .name n) =>
            let (G2, r') := collectFiles d parts G1 r
            (G2, { f with value := some n } :: r')
          | (G1, _) =>
            let (G2, r') := collectFiles d parts G1 r
            (G2, f :: r')
        | none =>                                           -- file missing in the package: left as it is
          let (G2, r') := collectFiles d parts G r
          (G2, f :: r')
      else
        let (G2, r') := collectFiles d parts G r
        (G2, f :: r')
    | none =>
      let (G2, r') := collectFiles d parts G r
      (G2, f :: r')

structure RState where
  store : List Obj
  files : Files.St
  readIds : List Id
deriving Repr

def replaceObj (s : List Obj) (o : Obj) : List Obj := s.filter (fun x => x.id ≠ o.id) ++ [o]

def readObj (d : Descends) (parts : List Part) (override : Bool) (st : RState) (o : Obj) : RState :=
  if st.readIds.contains o.id then st
  else
    let present := st.store.any (fun x => x.id = o.id)
    if present && !override then st
    else
      let (G, fs) := if o.kind = .submodel then collectFiles d parts st.files o.files else (st.files, o.files)
      let o' := { o with files := fs }
      { store := if present then replaceObj st.store o' else st.store ++ [o'], files := G, readIds := st.readIds ++ [o.id] }

def readInto (d : Descends) (P : Package) (override : Bool) (S : List Obj) (G : Files.St) : RState :=
  P.payload.foldl (readObj d P.parts override) ⟨S, G, []⟩

/-! ### packages with several AAS parts

`write_all_aas_objects` / `write_aas_objects` may be called once per AAS part; the writer's bookkeeping of the supplementary
parts already written (`_supplementary_part_names`) lives in the writer object, so a file named by File elements of several
parts is stored once.  The reader goes through the AAS parts one after the other, and inside a part through its submodels,
handing the receiving container on. -/

/-- the supplementary parts after one writer call per element of `fss` (the File elements of each AAS part) -/
def collectPartsSeq (d : Descends) (F : Files.St) : List (List FileEl) → List Part → List Part
  | [], acc => acc
  | fs :: r, acc => collectPartsSeq d F r (collectParts d F fs acc)

/-- the reader over the File-element lists of several submodels / AAS parts, one after the other -/
def collectFilesSeq (d : Descends) (parts : List Part) : Files.St → List (List FileEl) → Files.St × List (List FileEl)
  | G, [] => (G, [])
  | G, fs :: r =>
    let (G1, fs') := collectFiles d parts G fs
    let (G2, r') := collectFilesSeq d parts G1 r
    (G2, fs' :: r')

end Basyx.Aasx
