/-
  How `AASDataChecker` compares collections whose members are identified by a key and carry NO order
  (`examples/data/_helper.py`): qualifiers by `type`, extensions by `name`, the members of a submodel / collection /
  entity / annotated relationship by `id_short`, the identifiables of two object stores by `id`.  All of them follow one
  scheme, transcribed here:

      [check_contained_element_length(object_, attr, cls, len(expected))]            -- only for qualifiers / extensions
      for expected_element in expected:                                              -- (1) every expected member ...
          element = <first member of object_ with the same key>                      --     get_referable / .get(id) /
          if self.check(element is not None, "... must exist"):                      --     _find_element_by_attribute
              self._check_..._equal(element, expected_element)                       --     ... exists and compares equal
      found_elements = _find_extra_…(object_, expected)                              -- (2) no member of object_ has a key
      self.check(found_elements == set(), "... must not have extra elements")        --     that expected lacks

  `cmp` is the comparison of two members (for the theorems: any function; for the driver: `checkEq` of the coverage
  model).  Import-free.
-/
namespace Basyx.Keyed

/-- the first member filed under key `k` (`_find_element_by_attribute`, `NamespaceSet.get`, `store.get`) -/
def lookup {κ α : Type} [DecidableEq κ] (k : κ) : List (κ × α) → Option α
  | [] => none
  | (k', a) :: r => if k' = k then some a else lookup k r

/-- step (1) for one expected member: it exists in the checked collection and compares equal -/
def memberOk {κ α : Type} [DecidableEq κ] (cmp : α → α → Bool) (act : List (κ × α)) (e : κ × α) : Bool :=
  match lookup e.1 act with
  | some a => cmp a e.2
  | none => false

/-- step (2) for one member of the checked collection: it is not an extra element -/
def known {κ α : Type} [DecidableEq κ] (exp : List (κ × α)) (a : κ × α) : Bool := (lookup a.1 exp).isSome

/-- the verdict of the keyed comparison: `true` = no failed check -/
def checkKeyed {κ α : Type} [DecidableEq κ] (lenCheck : Bool) (cmp : α → α → Bool) (act exp : List (κ × α)) : Bool :=
  (!lenCheck || act.length == exp.length) && exp.all (memberOk cmp act) && act.all (known exp)

def keys {κ α : Type} (l : List (κ × α)) : List κ := l.map (·.1)

end Basyx.Keyed
