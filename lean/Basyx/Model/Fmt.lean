/- Python string-formatting helpers shared by the models. -/
namespace Basyx.Fmt

/-- `"{:04d}".format(i)` for `i ≥ 0` -/
def pad4 (i : Nat) : List Char :=
  let d := Nat.toDigits 10 i
  List.replicate (4 - d.length) '0' ++ d

/-- `"{:02d}".format(i)` for `i ≥ 0` -/
def pad2 (i : Nat) : List Char :=
  let d := Nat.toDigits 10 i
  List.replicate (2 - d.length) '0' ++ d

/-- zero-padded decimal of width `w` (`"{:0wd}"`) -/
def padN (w i : Nat) : List Char :=
  let d := Nat.toDigits 10 i
  List.replicate (w - d.length) '0' ++ d

end Basyx.Fmt
