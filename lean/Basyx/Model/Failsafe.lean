/-
  Failsafe / strict reading of possibly DAMAGED documents (property C09), on top of the generic codec.

  `DWire` is a document tree in which any position may hold `bad k`: a JSON value / XML text whose conversion
  raises an exception of kind `k` in the real reader (wrong JSON type ↦ TypeError, malformed xs literal ↦ ValueError,
  unknown enum literal ↦ KeyError, constraint-violating value ↦ AASConstraintViolation …).  Missing members are
  simply absent.  `decD` transcribes how the readers propagate and catch these exceptions:

    * strict mode: the first exception escapes;
    * failsafe mode: an exception whose kind is in the reader's catch tuple (REGENERATED from the `except (…)`
      clause of `object_hook` / `_failsafe_construct`) is caught at the nearest *recover point*:
        - a list item whose row has `itemRecover` is dropped (JSON: objects with a modelType inside a list, the
          per-item handlers of lang strings / value lists / operation variables with their own narrower catch tuple;
          XML: `_failsafe_construct_multiple` / `_child_construct_multiple`),
        - a member whose row has `recover` is left at its default (XML: `_failsafe_construct(element.find(…))`),
        - top-level identifiables are list items of the three document lists;
      any other exception, and any exception at a position without a recover point, propagates to the next one.
-/
import Basyx.Model.Codec
namespace Basyx.Codec

inductive EKind where
  | key | type | value | aascv
  | other          -- any exception that is not one of the four documented kinds (IndexError, OverflowError, AssertionError, …)
deriving Repr, DecidableEq

inductive DWire where
  | tok (s : String) (falsy : Bool)
  | bad (k : EKind)
  | arr (xs : List DWire)
  | obj (tag : Option String) (ms : List (String × DWire))
deriving Repr, Inhabited

/-- where and what a reader catches -/
structure RecRow where
  member : String
  recover : Bool            -- failure of this member leaves the attribute at its default (failsafe)
  itemRecover : Bool        -- a failing list item of this member is dropped (failsafe)
  itemCaught : List EKind   -- the catch tuple in force for the items ([] = the reader's general tuple)
deriving Repr

structure RecClass where
  cls : String
  rows : List RecRow
deriving Repr

structure Cfg where
  failsafe : Bool
  caught : List EKind          -- the reader's general catch tuple
  retype : List String := []   -- JSON: the classes with a modelType — such an object that fails is handed on as a raw
                               -- dict, so its consumer raises TypeError (`_get_ts` / `_expect_type`) whatever the kind
  points : List RecClass       -- recover points per class
deriving Repr

def recRow (cfg : Cfg) (c : String) (m : String) : RecRow :=
  match cfg.points.find? (fun rc => rc.cls = c) with
  | some rc => (rc.rows.find? (fun r => r.member = m)).getD ⟨m, false, false, []⟩
  | none => ⟨m, false, false, []⟩

def catches (cfg : Cfg) (tuple : List EKind) (e : EKind) : Bool :=
  cfg.failsafe && (if tuple.isEmpty then cfg.caught.contains e else tuple.contains e)

mutual
def embed : Wire → DWire
  | .tok s f => .tok s f
  | .arr xs => .arr (embedList xs)
  | .obj t ms => .obj t (embedMembers ms)
def embedList : List Wire → List DWire
  | [] => []
  | w :: r => embed w :: embedList r
def embedMembers : List (String × Wire) → List (String × DWire)
  | [] => []
  | (n, w) :: r => (n, embed w) :: embedMembers r
end

/-- the exception with which the failure of an object continues upwards -/
def retypeRes (cfg : Cfg) (c : String) : Except EKind Val → Except EKind Val
  | .ok v => .ok v
  | .error e => if cfg.retype.contains c && catches cfg [] e then .error .type else .error e

def assembleD (stripped : Bool) (decoded : List (String × Val)) : List Row → Except EKind (List Val)
  | [] => .ok []
  | r :: rows =>
    match (if reads stripped r then lookupV r.member decoded else none) with
    | some v => (assembleD stripped decoded rows).map (v :: ·)
    | none =>
      if r.decRequired && reads stripped r then .error .key
      else (assembleD stripped decoded rows).map (r.dflt :: ·)

mutual
/-- `ir` = the enclosing member's item-recover flag and catch tuple (only meaningful for list kinds) -/
def decD (T : Table) (cfg : Cfg) (s : Bool) (ir : Bool × List EKind) : Kind → DWire → Except EKind Val
  | _, .bad k => .error k
  | .leaf, .tok t f => .ok (.tok t f)
  | .list k, .arr ws => (decDList T cfg s ir k ws).map .list
  | .node c, .obj _ ms =>
    retypeRes cfg c
      (match decDMembers T cfg s c (rowsOf T c) ms with
       | .ok d => (assembleD s d (rowsOf T c)).map (.node c)
       | .error e => .error e)
  | .poly cs, .obj (some t) ms =>
    match classOfTag T t with
    | some c =>
      if cs.contains c then
        retypeRes cfg c
          (match decDMembers T cfg s c (rowsOf T c) ms with
           | .ok d => (assembleD s d (rowsOf T c)).map (.node c)
           | .error e => .error e)
      else .error .type
    | none => .error .type
  | _, _ => .error .type
def decDList (T : Table) (cfg : Cfg) (s : Bool) (ir : Bool × List EKind) (k : Kind) : List DWire → Except EKind (List Val)
  | [] => .ok []
  | w :: r =>
    match decD T cfg s (false, []) k w with
    | .ok v => (decDList T cfg s ir k r).map (v :: ·)
    | .error e =>
      if ir.1 && catches cfg ir.2 e then decDList T cfg s ir k r      -- damaged item dropped
      else .error e
def decDMembers (T : Table) (cfg : Cfg) (s : Bool) (c : String) (rows : List Row) :
    List (String × DWire) → Except EKind (List (String × Val))
  | [] => .ok []
  | (name, w) :: r =>
    match findRow rows name with
    | some row =>
      if reads s row then
        let rr := recRow cfg c name
        match decD T cfg s (rr.itemRecover, rr.itemCaught) row.kind w with
        | .ok v =>
          match emptyAction row v with
          | .keep => (decDMembers T cfg s c rows r).map ((name, v) :: ·)
          | .drop => decDMembers T cfg s c rows r
          | .fail => .error .key
        | .error e =>
          if rr.recover && catches cfg [] e then decDMembers T cfg s c rows r   -- damaged optional part dropped
          else .error e
      else decDMembers T cfg s c rows r
    | none => decDMembers T cfg s c rows r
end

/-! ### the document level -/

def idKindsD : List String := ["AssetAdministrationShell", "Submodel", "ConceptDescription"]

/-- top-level list walk: every identifiable is its own recover point (the reader's general tuple) -/
def decTop (T : Table) (cfg : Cfg) (items : List DWire) : Except EKind (List Val) :=
  decDList T cfg false (true, []) (.poly idKindsD) items

end Basyx.Codec
