import Basyx.Gen.Select
/-! Mode selection of the adapters: the flag a class has is the first assignment along its method resolution order. -/
namespace Basyx.Select
open Basyx.Gen.Select

/-- the row of a class -/
def row (m c : String) : Option (String × String × List String × Option Bool × Option Bool) :=
  classes.find? (fun r => r.1 == m && r.2.1 == c)

/-- the class's own assignment of `failsafe` (`which = true`) or `stripped` (`which = false`) -/
def own (which : Bool) (m c : String) : Option Bool :=
  match row m c with
  | some (_, _, _, f, s) => if which then f else s
  | none => none

/-- Python attribute lookup on a class: the first class of the MRO that assigns the name -/
def flag (which : Bool) (m c : String) : Option Bool :=
  match row m c with
  | some (_, _, mro, _, _) => mro.findSome? (own which m)
  | none => none

/-- every selected class has exactly the mode that was asked for -/
def selectOk : Bool :=
  select.all (fun r => flag false r.1 r.2.2.2 == some r.2.2.1 &&
    (match r.2.1 with | some f => flag true r.1 r.2.2.2 == some f | none => true))

/-- every combination of the parameters is answered -/
def selectTotal : Bool :=
  ["json-dec", "xml-dec"].all (fun m => [false, true].all (fun f => [false, true].all (fun s =>
    select.any (fun r => r.1 == m && r.2.1 == some f && r.2.2.1 == s)))) &&
  [false, true].all (fun s => select.any (fun r => r.1 == "json-enc" && r.2.2.1 == s))

end Basyx.Select
