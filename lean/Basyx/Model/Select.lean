import Basyx.Gen.Select
/-! Mode selection of the adapters: the flag a class has is the first assignment along its method resolution order. -/
namespace Basyx.Select
open Basyx.Gen.Select

/-- the row of a class -/
def row (m c : String) : Option (String × String × List String × Option Bool × Option Bool) :=
  classes.find? (fun r => r.1 == m && r.2.1 == c)

/-- the class's own assignment of `failsafe` (`which = true`) or `stripped` (`which = false`) -/
def own (which : Bool) (m c : String) : Option Bool :=
  match row m c with
  | some (_, _, _, f, s) => if which then f else s
  | none => none

/-- Python attribute lookup on a class: the first class of the MRO that assigns the name -/
def flag (which : Bool) (m c : String) : Option Bool :=
  match row m c with
  | some (_, _, mro, _, _) => mro.findSome? (own which m)
  | none => none

/-- every selected class has exactly the mode that was asked for -/
def selectOk : Bool :=
  select.all (fun r => flag false r.1 r.2.2.2 == some r.2.2.1 &&
    (match r.2.1 with | some f => flag true r.1 r.2.2.2 == some f | none => true))

/-- every combination of the parameters is answered -/
def selectTotal : Bool :=
  ["json-dec", "xml-dec"].all (fun m => [false, true].all (fun f => [false, true].all (fun s =>
    select.any (fun r => r.1 == m && r.2.1 == some f && r.2.2.1 == s)))) &&
  [false, true].all (fun s => select.any (fun r => r.1 == "json-enc" && r.2.2.1 == s))

/-- the class that reads an HTTP request body: the decoder class handed to the parser, or what `_select_decoder` returns for the
    (failsafe, stripped) arguments handed to the file-level reader -/
def bodyReaderClass (r : String × Bool × Option String × Option Bool × Option Bool) : Option String :=
  match r.2.2.1 with
  | some c => some c
  | none =>
    match r.2.2.2.1, r.2.2.2.2 with
    | some f, some s => (select.find? (fun x => x.1 == r.1 && x.2.1 == some f && x.2.2.1 == s)).map (·.2.2.2)
    | _, _ => none

/-- every request body is read by a STRICT reader (a malformed body is an error, never a partial object), stripped exactly when
    the request says `level=core`; both formats and both levels are covered -/
def bodyReadersOk (rows : List (String × Bool × Option String × Option Bool × Option Bool)) : Bool :=
  rows.all (fun r => match bodyReaderClass r with
    | some c => flag true r.1 c == some false && flag false r.1 c == some r.2.1
    | none => false) &&
  ["json-dec", "xml-dec"].all (fun m => [false, true].all (fun s => rows.any (fun r => r.1 == m && r.2.1 == s)))

end Basyx.Select
