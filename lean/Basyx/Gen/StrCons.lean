/- GENERATED on every run by py/props/c02_translate.py from sdk/basyx/aas/model/_string_constraints.py, base.py, aas.py, submodel.py, concept.py (Python ast) — do not edit by hand. -/
namespace Basyx.Gen.StrCons

/-- Character class of `AASD130_RE` as inclusive code-point ranges. -/
def aasd130Ranges : List (Nat × Nat) := [(9, 9), (10, 10), (13, 13), (32, 55295), (57344, 65533), (65536, 1114111)]

/-- `check_<name>`: (name, min_length, max_length, regex pattern or ""), delegations resolved. -/
def limits : List (String × Nat × Nat × String) := [
  ("content_type", 1, 100, ""),
  ("identifier", 1, 2000, ""),
  ("label_type", 1, 64, ""),
  ("message_topic_type", 1, 255, ""),
  ("name_type", 1, 128, ""),
  ("path_type", 1, 2000, ""),
  ("qualifier_type", 1, 128, ""),
  ("revision_type", 1, 4, "([0-9]|[1-9][0-9]*)"),
  ("short_name_type", 1, 64, ""),
  ("value_type_iec61360", 1, 2000, ""),
  ("version_type", 1, 4, "([0-9]|[1-9][0-9]*)")]

/-- `ConstrainedLangStringSet` subclasses: (class, min, max) of each text. -/
def langLimits : List (String × Nat × Nat) := [
  ("MultiLanguageNameType", 1, 64),
  ("MultiLanguageTextType", 1, 1023),
  ("DefinitionTypeIEC61360", 1, 1023),
  ("PreferredNameTypeIEC61360", 1, 255),
  ("ShortNameTypeIEC61360", 1, 18)]

/-- `@constrain_*(attr)` class decorators: (class, attribute, check). -/
def attrs : List (String × String × String) := [
  ("AdministrativeInformation", "template_id", "identifier"),
  ("AdministrativeInformation", "version", "version_type"),
  ("AssetInformation", "asset_type", "identifier"),
  ("BasicEventElement", "message_topic", "message_topic_type"),
  ("Blob", "content_type", "content_type"),
  ("DataSpecificationIEC61360", "value", "value_type_iec61360"),
  ("File", "content_type", "content_type"),
  ("File", "value", "path_type"),
  ("Identifiable", "id", "identifier"),
  ("Resource", "content_type", "content_type"),
  ("Resource", "path", "path_type"),
  ("ValueReferencePair", "value", "value_type_iec61360")]

/-- direct `_string_constraints.check_*` calls: (Class.function, check). -/
def calls : List (String × String) := [
  ("AdministrativeInformation._set_revision", "revision_type"),
  ("AssetInformation._validate_aasd_131", "identifier"),
  ("AssetInformation._validate_global_asset_id", "identifier"),
  ("Entity._validate_global_asset_id", "identifier"),
  ("Extension.name", "name_type"),
  ("Key.__init__", "identifier"),
  ("Qualifier.type", "qualifier_type"),
  ("Referable._set_category", "name_type"),
  ("Referable.validate_id_short", "name_type"),
  ("SpecificAssetId.__init__", "identifier"),
  ("SpecificAssetId.__init__", "label_type")]

/-- the regular expression used by `Referable.validate_id_short` (fullmatch). -/
def idShortPattern : String := "[a-zA-Z0-9_]*"

end Basyx.Gen.StrCons
