/- GENERATED on every run by py/props/c02_translate.py from sdk/basyx/aas/model/datatypes.py (Python ast) — do not edit by hand. -/
namespace Basyx.Gen.IntRanges

/-- accepted range (min, max) of every `class X(int)` with a range check in `__new__`. -/
def ranges : List (String × Option Int × Option Int) := [
  ("Long", some (-9223372036854775808), some 9223372036854775807),
  ("Int", some (-2147483648), some 2147483647),
  ("Short", some (-32768), some 32767),
  ("Byte", some (-128), some 127),
  ("NonPositiveInteger", none, some 0),
  ("NegativeInteger", none, some (-1)),
  ("NonNegativeInteger", some 0, none),
  ("PositiveInteger", some 1, none),
  ("UnsignedLong", some 0, some 18446744073709551615),
  ("UnsignedInt", some 0, some 4294967295),
  ("UnsignedShort", some 0, some 65535),
  ("UnsignedByte", some 0, some 255)]

/-- members of `AnyXSDType`: (name, Python base class, alias = the name is that class | class = a subclass of it). -/
def xsdBase : List (String × String × String) := [
  ("Duration", "duration", "alias"),
  ("DateTime", "datetime", "alias"),
  ("Date", "date", "class"),
  ("Time", "time", "alias"),
  ("GYearMonth", "object", "class"),
  ("GYear", "object", "class"),
  ("GMonthDay", "object", "class"),
  ("GMonth", "object", "class"),
  ("GDay", "object", "class"),
  ("Boolean", "bool", "alias"),
  ("Base64Binary", "bytearray", "class"),
  ("HexBinary", "bytearray", "class"),
  ("Float", "float", "class"),
  ("Double", "float", "alias"),
  ("Decimal", "decimal", "alias"),
  ("Integer", "int", "alias"),
  ("Long", "int", "class"),
  ("Int", "int", "class"),
  ("Short", "int", "class"),
  ("Byte", "int", "class"),
  ("NonPositiveInteger", "int", "class"),
  ("NegativeInteger", "int", "class"),
  ("NonNegativeInteger", "int", "class"),
  ("PositiveInteger", "int", "class"),
  ("UnsignedLong", "int", "class"),
  ("UnsignedInt", "int", "class"),
  ("UnsignedShort", "int", "class"),
  ("UnsignedByte", "int", "class"),
  ("AnyURI", "str", "class"),
  ("String", "str", "alias"),
  ("NormalizedString", "str", "class")]

/-- code points rejected by `NormalizedString.__new__`. -/
def normalizedForbidden : List Nat := [13, 10, 9]

/-- `for baseclass in (…)` of `trivial_cast`. -/
def castBases : List String := ["int", "float", "str"]

end Basyx.Gen.IntRanges
