/- GENERATED on every run by py/props/c06.py translate() from sdk/basyx/aas/model/datatypes.py (by `ast`, the module is
   not imported).  Do not edit. -/
namespace Basyx.Gen.XsdNames

/-- rows of the `XSD_TYPE_NAMES` literal: (key identifier, what that identifier is bound to, announced name) -/
def xsdNames : List (String × String × String) := [
  ("Duration", "alias dateutil.relativedelta.relativedelta", "xs:duration"),
  ("DateTime", "alias datetime.datetime", "xs:dateTime"),
  ("Date", "class Date", "xs:date"),
  ("Time", "alias datetime.time", "xs:time"),
  ("GYearMonth", "class GYearMonth", "xs:gYearMonth"),
  ("GYear", "class GYear", "xs:gYear"),
  ("GMonthDay", "class GMonthDay", "xs:gMonthDay"),
  ("GMonth", "class GMonth", "xs:gMonth"),
  ("GDay", "class GDay", "xs:gDay"),
  ("Boolean", "alias bool", "xs:boolean"),
  ("Base64Binary", "class Base64Binary", "xs:base64Binary"),
  ("HexBinary", "class HexBinary", "xs:hexBinary"),
  ("Float", "class Float", "xs:float"),
  ("Double", "alias float", "xs:double"),
  ("Decimal", "alias decimal.Decimal", "xs:decimal"),
  ("Integer", "alias int", "xs:integer"),
  ("Long", "class Long", "xs:long"),
  ("Int", "class Int", "xs:int"),
  ("Short", "class Short", "xs:short"),
  ("Byte", "class Byte", "xs:byte"),
  ("NonPositiveInteger", "class NonPositiveInteger", "xs:nonPositiveInteger"),
  ("NegativeInteger", "class NegativeInteger", "xs:negativeInteger"),
  ("NonNegativeInteger", "class NonNegativeInteger", "xs:nonNegativeInteger"),
  ("PositiveInteger", "class PositiveInteger", "xs:positiveInteger"),
  ("UnsignedLong", "class UnsignedLong", "xs:unsignedLong"),
  ("UnsignedShort", "class UnsignedShort", "xs:unsignedShort"),
  ("UnsignedInt", "class UnsignedInt", "xs:unsignedInt"),
  ("UnsignedByte", "class UnsignedByte", "xs:unsignedByte"),
  ("AnyURI", "class AnyURI", "xs:anyURI"),
  ("String", "alias str", "xs:string"),
  ("NormalizedString", "class NormalizedString", "xs:normalizedString")
]

/-- `XSD_TYPE_CLASSES` is literally `{v: k for k, v in XSD_TYPE_NAMES.items()}` -/
def classesIsInverse : Bool := true

/-- per `class X(int)`: the interval outside which `__new__` raises ValueError (from its comparison literals) -/
def intRanges : List (String × Option Int × Option Int) := [
  ("Long", some (-9223372036854775808), some (9223372036854775807)),
  ("Int", some (-2147483648), some (2147483647)),
  ("Short", some (-32768), some (32767)),
  ("Byte", some (-128), some (127)),
  ("NonPositiveInteger", none, some (0)),
  ("NegativeInteger", none, some (-1)),
  ("NonNegativeInteger", some (0), none),
  ("PositiveInteger", some (1), none),
  ("UnsignedLong", some (0), some (18446744073709551615)),
  ("UnsignedInt", some (0), some (4294967295)),
  ("UnsignedShort", some (0), some (65535)),
  ("UnsignedByte", some (0), some (255))
]

end Basyx.Gen.XsdNames
