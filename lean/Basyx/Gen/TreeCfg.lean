/- REGENERATED on every run by py/props/c07.py::translate from sdk/basyx/aas/model/base.py (ModelReference.__init__).
   Do not edit. -/
namespace Basyx.Gen.TreeCfg

/-- AASd-128 check: `true` = `k.value.isdecimal()`, `false` = `k.value.isnumeric()` -/
def aasd128Decimal : Bool := true

/-- AASd-126 check: `true` = every generic fragment key before the last one is rejected, `false` = only when the last
    key is not a generic fragment key itself -/
def aasd126Strict : Bool := true

end Basyx.Gen.TreeCfg
