/- JSON glue for Model/Tree.lean (C07 and C17 share it). -/
import Basyx.Driver.Util
import Basyx.Model.Tree
open Lean
namespace Basyx.Driver.Tree
open Basyx.Tree Basyx.Driver

/-- pool of root objects by uid -/
structure W where
  pool : List (Nat × Basyx.Tree.Tree) := []

def kinds : List (String × Kind) :=
  [("AssetAdministrationShell", .aas), ("ConceptDescription", .conceptDescription), ("Submodel", .submodel),
   ("SubmodelElementCollection", .collection), ("SubmodelElementList", .list), ("Entity", .entity),
   ("Operation", .operation), ("AnnotatedRelationshipElement", .annotatedRel), ("RelationshipElement", .relationship),
   ("Property", .property), ("MultiLanguageProperty", .mlp), ("Range", .range), ("Blob", .blob), ("File", .file),
   ("ReferenceElement", .refElem), ("Capability", .capability), ("BasicEventElement", .basicEvent)]

def kindName (k : Kind) : String := ((kinds.find? (fun e => e.2 = k)).map (·.1)).getD "?"
def kindOf (s : String) : Kind := ((kinds.find? (fun e => e.1 = s)).map (·.2)).getD .property

def clsName : Cls → String
  | .referable => "Referable" | .identifiable => "Identifiable" | .uniqueIdShortNamespace => "UniqueIdShortNamespace"
  | .submodelElement => "SubmodelElement" | .dataElement => "DataElement" | .eventElement => "EventElement"
  | .k k => kindName k

def clsOf (s : String) : Cls :=
  match s with
  | "Referable" => .referable | "Identifiable" => .identifiable | "UniqueIdShortNamespace" => .uniqueIdShortNamespace
  | "SubmodelElement" => .submodelElement | "DataElement" => .dataElement | "EventElement" => .eventElement
  | s => .k (kindOf s)

def keyTypes : List (String × KeyType) :=
  [("ASSET_ADMINISTRATION_SHELL", .assetAdministrationShell), ("CONCEPT_DESCRIPTION", .conceptDescription),
   ("SUBMODEL", .submodel), ("ANNOTATED_RELATIONSHIP_ELEMENT", .annotatedRelationshipElement),
   ("BASIC_EVENT_ELEMENT", .basicEventElement), ("BLOB", .blob), ("CAPABILITY", .capability),
   ("DATA_ELEMENT", .dataElement), ("ENTITY", .entity), ("EVENT_ELEMENT", .eventElement), ("FILE", .file),
   ("MULTI_LANGUAGE_PROPERTY", .multiLanguageProperty), ("OPERATION", .operation), ("PROPERTY", .property),
   ("RANGE", .range), ("REFERENCE_ELEMENT", .referenceElement), ("RELATIONSHIP_ELEMENT", .relationshipElement),
   ("SUBMODEL_ELEMENT", .submodelElement), ("SUBMODEL_ELEMENT_COLLECTION", .submodelElementCollection),
   ("SUBMODEL_ELEMENT_LIST", .submodelElementList), ("GLOBAL_REFERENCE", .globalReference),
   ("FRAGMENT_REFERENCE", .fragmentReference)]

def keyTypeName (t : KeyType) : String := ((keyTypes.find? (fun e => e.2 = t)).map (·.1)).getD "?"
def keyTypeOfName (s : String) : KeyType := ((keyTypes.find? (fun e => e.1 = s)).map (·.2)).getD .property

def errJson : Err → Json
  | .keyError => Json.arr #["raise", "KeyError"]
  | .valueError => Json.arr #["raise", "ValueError"]
  | .typeError => Json.arr #["raise", "TypeError"]
  | .unexpectedType => Json.arr #["raise", "UnexpectedTypeError"]
  | .aascv n => Json.arr #["raise", "AASCV", n]
  | .assertion => Json.arr #["raise", "AssertionError"]
  | .attributeError => Json.arr #["raise", "AttributeError"]
  | .unknownBackend => Json.arr #["raise", "UnknownBackendException"]
  | .noNode => Json.arr #["no-node"]

instance : Inhabited Basyx.Tree.Tree := ⟨.node .property [] none [] []⟩
instance : Inhabited RefV := ⟨.mk .external [] .referable none⟩

partial def jtree (j : Json) : Basyx.Tree.Tree :=
  match jarr j with
  | [k, i, s, src, cs] => .node (kindOf (jstr k)) (jchars i) (jopt jchars s) (jchars src) ((jarr cs).map jtree)
  | _ => .node .property [] none [] []

def jpath (j : Json) : Path := (jarr j).map jnat
def pathJson (p : Path) : Json := Json.arr (p.map (fun (n : Nat) => (n : Json))).toArray
def jkey (j : Json) : KeyType × Str := match jarr j with
  | [t, v] => (keyTypeOfName (jstr t), jchars v)
  | _ => (.property, [])
def keyJson (k : Key) : Json := Json.arr #[keyTypeName k.type, ofChars k.value]

def root (w : W) (u : Nat) : Option Basyx.Tree.Tree := (w.pool.find? (fun e => e.1 = u)).map (·.2)

/-- construct the keys one by one (first failing `Key(...)` wins), then the ModelReference -/
def mkKeys : List (KeyType × Str) → Except Err (List Key)
  | [] => .ok []
  | (t, v) :: r => match mkKey t v with
    | .error e => .error e
    | .ok k => (mkKeys r).map (k :: ·)

def segJson (s : Option Str) : Json := match s with | none => Json.null | some x => ofChars x

def callsJson (r : List (Str × Call) × Option Err) : Json :=
  Json.arr #[Json.arr (r.1.map (fun (sc, c) =>
      Json.arr #[ofChars sc, pathJson c.store, pathJson c.obj, Json.arr (c.rel.map segJson).toArray])).toArray,
    match r.2 with | none => Json.null | some e => errJson e]

partial def jrefv (j : Json) : RefV :=
  match jarr j with
  | [c, ks, t, r] => .mk (if jstr c = "ExternalReference" then .external else .model)
      ((jarr ks).map (fun k => let (t, v) := jkey k; ⟨t, v⟩)) (clsOf (jstr t)) (jopt jrefv r)
  | _ => .mk .external [] .referable none

def jsai (j : Json) : Sai :=
  match jarr j with
  | [n, v, e, s, sup] => ⟨jchars n, jchars v, jopt jrefv e, jopt jrefv s, (jarr sup).map jrefv⟩
  | _ => ⟨[], [], none, none, []⟩

def handle (w : W) (op : String) (args : List Json) : W × Json :=
  match op, args with
  | "tree", [u, t] =>
    ({ w with pool := (jnat u, jtree t) :: w.pool.filter (fun e => e.1 ≠ jnat u) }, Json.arr #["unit"])
  | "from", [u, p] =>
    match root w (jnat u) with
    | none => (w, errJson .noNode)
    | some r => match fromReferable r (jpath p) with
      | .error e => (w, errJson e)
      | .ok m => (w, Json.arr #["ref", Json.arr (m.keys.map keyJson).toArray, clsName m.type])
  | "resolve", [stores, keys, ty] =>
    let prov : List Store := (jarr stores).map (fun s => (jarr s).filterMap (fun u => (root w (jnat u)).map (fun t => (jnat u, t))))
    match mkKeys ((jarr keys).map jkey) with
    | .error e => (w, errJson e)
    | .ok ks => match mkModelReference ks (clsOf (jstr ty)) with
      | .error e => (w, errJson e)
      | .ok m => match resolve prov m with
        | .error e => (w, errJson e)
        | .ok (u, p) => (w, Json.arr #["node", u, pathJson p])
  | "getref", [u, start, segs] =>
    match (root w (jnat u)).bind (fun r => sub r (jpath start)) with
    | none => (w, errJson .noNode)
    | some n => match getReferable n ((jarr segs).map jchars) with
      | .error e => (w, errJson e)
      | .ok p => (w, Json.arr #["node", jnat u, pathJson (jpath start ++ p)])
  | "getref1", [u, start, seg] =>        -- the bare-string argument form
    match (root w (jnat u)).bind (fun r => sub r (jpath start)) with
    | none => (w, errJson .noNode)
    | some n => match getReferableArg n (.single (jchars seg)) with
      | .error e => (w, errJson e)
      | .ok p => (w, Json.arr #["node", jnat u, pathJson (jpath start ++ p)])
  | "follow", [u, start, segs] =>        -- one call per segment, each with the bare-string form
    match (root w (jnat u)).bind (fun r => sub r (jpath start)) with
    | none => (w, errJson .noNode)
    | some n => match followStepwise n ((jarr segs).map jchars) with
      | .error e => (w, errJson e)
      | .ok p => (w, Json.arr #["node", jnat u, pathJson (jpath start ++ p)])
  | "classes", [] =>
    (w, Json.arr (kinds.map (fun (n, k) => Json.arr #[n, keyTypeName (keyTypeOf k), clsName (refTypeOf k),
        Json.arr ((mro k).map (fun c => (clsName c : Json))).toArray, isNamespace k, isIdentifiable k])).toArray)
  | "keytypes", [] =>
    (w, Json.arr (keyTypes.map (fun (n, t) => Json.arr #[n, t.isAasIdentifiable, t.isGenericGloballyIdentifiable,
        t.isGenericFragmentKey, t.isAasSubmodelElement, t.isFragmentKeyElement, t.isGloballyIdentifiable])).toArray)
  | "pyint", [s] => (w, match pyInt (jchars s) with | none => Json.arr #["raise", "ValueError"] | some i => Json.arr #["int", i])
  | "keyeq", [a, b] =>
    let (ta, va) := jkey a; let (tb, vb) := jkey b
    (w, Json.arr #[keyEq ⟨ta, va⟩ ⟨tb, vb⟩, decide (keyHashArg ⟨ta, va⟩ = keyHashArg ⟨tb, vb⟩)])
  | "refeq", [a, b] => (w, Json.arr #[refEq (jrefv a) (jrefv b), decide (refHashArg (jrefv a) = refHashArg (jrefv b))])
  | "saieq", [a, b] => (w, Json.arr #[saiEq (jsai a) (jsai b), decide (saiHashArg (jsai a) = saiHashArg (jsai b))])
  | "setattr", [c, n, isNone] =>
    let o := match jstr c with
      | "Key" => keySetattr (jchars n)
      | "SpecificAssetId" => saiSetattr (jchars n) (jbool isNone)
      | _ => refSetattr (jchars n)
    (w, match o with | .assigned => Json.arr #["assigned"] | .attributeError => errJson .attributeError)
  | "sai_append", [s, r] =>
    (w, match saiAppendSupplemental (jsai s) (jrefv r) with
      | .error e => errJson e
      | .ok s' => Json.arr #["len", s'.supplemental.length])
  | "scheme", [s] => (w, segJson (scheme? (jchars s)))
  | "commit", [reg, u, p] =>
    match (root w (jnat u)).bind (fun r => commitIntents r (jpath p)) with
    | none => (w, errJson .noNode)
    | some cs => (w, callsJson (runCalls ((jarr reg).map jchars) cs))
  | "update", [reg, u, p, recursive] =>
    match (root w (jnat u)).bind (fun r => updateIntents r (jpath p) (jbool recursive)) with
    | none => (w, errJson .noNode)
    | some cs => (w, callsJson (runCalls ((jarr reg).map jchars) cs))
  | _, _ => (w, Json.arr #["bad-op"])

end Basyx.Driver.Tree
