import Basyx.Driver.Util
import Basyx.Model.Aasx
import Basyx.Gen.Aasx
open Lean
namespace Basyx.Driver.Aasx
open Basyx.Aasx Basyx.Driver

def boxOf : String → Box
  | "collection" => .collection | "list" => .list | "entity" => .entity | "operation" => .operation | _ => .annotatedRel

def kindOf : String → Kind
  | "aas" => .aas | "submodel" => .submodel | _ => .cd

def fileOf (j : Json) : FileEl := match jarr j with
  | [bs, v] => ⟨(jarr bs).map (fun b => boxOf (jstr b)), jopt jchars v⟩
  | _ => ⟨[], none⟩

def objOf (j : Json) : Obj := match jarr j with
  | [i, k, u, sms, cds, fs] => ⟨jchars i, kindOf (jstr k), jnat u, (jarr sms).map jchars, (jarr cds).map jchars, (jarr fs).map fileOf⟩
  | _ => ⟨[], .cd, 0, [], [], []⟩

def containerOf (j : Json) : Files.St :=
  (jarr j).foldl (fun G f => match jarr f with
    | [n, c, t] => (Files.addFile G (jchars n) (jchars c) (jchars t)).1
    | _ => G) Files.init

def partOf (j : Json) : Part := match jarr j with
  | [n, c, t] => ⟨jchars n, jchars c, jchars t⟩
  | _ => ⟨[], [], []⟩

def jsonOfFile (f : FileEl) : Json := match f.value with | some v => ofChars v | none => Json.null
def jsonOfObj (o : Obj) : Json := Json.arr #[ofChars o.id, Json.arr (o.files.map jsonOfFile).toArray, (o.uid : Json)]
def jsonOfPart (p : Part) : Json := Json.arr #[ofChars p.name, ofChars p.content, ofChars p.ctype]

def viewOf (G : Files.St) : Json :=
  Json.arr (G.names.map (fun (n, _) => Json.arr #[ofChars n,
    (match Files.writeFile G n with | .content c => ofChars c | _ => Json.null),
    (match Files.getContentType G n with | .ctype c => ofChars c | _ => Json.null)])).toArray

/-- ["write", ids, store, files] ; ["read", payload, parts, override, store, files] ; ["multipart", source files, receiver files, [[file element…]…]] -/
def handle (u : Unit) (op : String) (args : List Json) : Unit × Json :=
  match op, args with
  | "write", [ids, store, files] =>
    (u, match writeAas Gen.Aasx.descends ((jarr ids).map jchars) ((jarr store).map objOf) (containerOf files) with
        | .ok P => Json.arr #["ok", Json.arr (P.payload.map jsonOfObj).toArray, Json.arr (P.parts.map jsonOfPart).toArray]
        | .error .keyError => Json.arr #["raise", "KeyError"]
        | .error .typeError => Json.arr #["raise", "TypeError"])
  | "read", [payload, parts, ov, store, files] =>
    let r := readInto Gen.Aasx.descends ⟨(jarr payload).map objOf, (jarr parts).map partOf⟩ (jbool ov) ((jarr store).map objOf) (containerOf files)
    (u, Json.arr #["ok", Json.arr (r.store.map jsonOfObj).toArray, viewOf r.files, Json.arr (r.readIds.map ofChars).toArray])
  | "multipart", [src, recv, fss] =>
    -- one writer call per AAS part (shared bookkeeping of the parts written), then the parts read one after the other
    let F := containerOf src
    let parts := collectPartsSeq Gen.Aasx.descends F ((jarr fss).map (fun fs => (jarr fs).map fileOf)) []
    let r := collectFilesSeq Gen.Aasx.descends parts (containerOf recv) ((jarr fss).map (fun fs => (jarr fs).map fileOf))
    (u, Json.arr #[Json.arr (parts.map jsonOfPart).toArray, Json.arr (r.2.map (fun fs => Json.arr (fs.map jsonOfFile).toArray)).toArray, viewOf r.1])
  | "realpath", [p] => (u, ofChars (realpath (jchars p)))
  | "islocal", [p] => (u, Json.bool (isLocal (jchars p)))
  | _, _ => (u, Json.arr #["bad-op"])

end Basyx.Driver.Aasx
