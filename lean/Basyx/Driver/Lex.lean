/- Line-protocol glue for the C06 model (`Basyx.Lex`).  Stateless.
   ops:  ["parse", ty, s]  ["repr", ty, value]  ["valid", ty, s]  ["cast", pyval, ty]  ["floatspecial", s]
         ["names"]  ["ranges"]  and  ["batch", op, ty, [arg…]] = the list of the single results. -/
import Basyx.Driver.Util
import Basyx.Model.LexTyped
import Basyx.Gen.XsdNames
open Lean
namespace Basyx.Driver.Lex
open Basyx.Lex Basyx.Driver

def tyOfName (n : String) : Option Ty := Ty.all.find? (fun t => t.pyName = n)

def rangeOfName (n : String) : Range :=
  match Basyx.Gen.XsdNames.intRanges.find? (fun e => e.1 = n) with
  | some e => e.2
  | none => (none, none)

def rng (τ : Ty) : Range := rangeOfName τ.pyName

def raiseV : Json := Json.arr #["raise", "ValueError"]
def okJ (j : Json) : Json := Json.arr #["ok", j]

def jIntStr (j : Json) : Int := match j with
  | .str s => (s.toInt?).getD 0
  | x => jint x
def intJ (i : Int) : Json := .str (toString i)

def tzJ : Tz → Json
  | none => .null
  | some m => (m : Json)
def jTz (j : Json) : Tz := jopt jint j

def natsJ (l : List Nat) : Json := Json.arr (l.map (fun (n : Nat) => (n : Json))).toArray

def durJ (d : Dur) : Json := Json.arr (d.fields.map (fun (i : Int) => intJ i)).toArray
def jDur (j : Json) : Dur := match (jarr j).map jIntStr with
  | [a, b, c, d, e, f, g] => ⟨a, b, c, d, e, f, g⟩
  | _ => ⟨0, 0, 0, 0, 0, 0, 0⟩

def floatJ : FloatV → Json
  | .nan => "nan" | .inf => "inf" | .ninf => "-inf"
  | .finite r => Json.arr #["finite", ofChars r]
def jFloat (j : Json) : FloatV := match j with
  | .str "nan" => .nan | .str "inf" => .inf | .str "-inf" => .ninf
  | x => match jarr x with
    | [_, r] => .finite (jchars r)
    | _ => .finite []

def decJ : DecR → Json
  | .fin v => Json.arr #["fin", v.neg, intJ v.coeff, intJ v.exp]
  | .inf n => Json.arr #["inf", n]
  | .nan n s => Json.arr #["nan", n, s]
def jDec (j : Json) : DecR := match jarr j with
  | [.str "fin", n, c, e] => .fin ⟨jbool n, (jIntStr c).toNat, jIntStr e⟩
  | [.str "inf", n] => .inf (jbool n)
  | [.str "nan", n, s] => .nan (jbool n) (jbool s)
  | _ => .nan false false

def optJ (f : α → Json) : Option α → Json
  | some v => okJ (f v)
  | none => raiseV

def tvJ : TV → Json
  | .int _ v => intJ v
  | .bool b => (b : Json)
  | .str _ s => ofChars s
  | .date v => Json.arr #[v.year, v.month, v.day, tzJ v.tz]
  | .time v => Json.arr #[v.hour, v.minute, v.second, v.micro, tzJ v.tz]
  | .dateTime v => Json.arr #[v.year, v.month, v.day, v.hour, v.minute, v.second, v.micro, tzJ v.tz]
  | .gYear v => Json.arr #[v.year, tzJ v.tz]
  | .gMonth v => Json.arr #[v.month, tzJ v.tz]
  | .gDay v => Json.arr #[v.day, tzJ v.tz]
  | .gYearMonth v => Json.arr #[v.year, v.month, tzJ v.tz]
  | .gMonthDay v => Json.arr #[v.month, v.day, tzJ v.tz]
  | .hex bs => natsJ bs
  | .b64 bs => natsJ bs
  | .dur d => durJ d
  | .dec r => decJ r
  | .flt _ v => floatJ v

/-- the value of type `τ` described by a JSON argument; `none` = malformed argument -/
def jTV (τ : Ty) (v : Json) : Option TV :=
  match τ with
  | .duration => some (.dur (jDur v))
  | .dateTime => (match jarr v with
    | [y, mo, d, h, mi, s, us, z] => some (.dateTime ⟨jnat y, jnat mo, jnat d, jnat h, jnat mi, jnat s, jnat us, jTz z⟩)
    | _ => none)
  | .date => (match jarr v with
    | [y, m, d, z] => some (.date ⟨jnat y, jnat m, jnat d, jTz z⟩)
    | _ => none)
  | .time => (match jarr v with
    | [h, mi, s, us, z] => some (.time ⟨jnat h, jnat mi, jnat s, jnat us, jTz z⟩)
    | _ => none)
  | .gYearMonth => (match jarr v with
    | [y, m, z] => some (.gYearMonth ⟨jint y, jnat m, jTz z⟩)
    | _ => none)
  | .gYear => (match jarr v with
    | [y, z] => some (.gYear ⟨jint y, jTz z⟩)
    | _ => none)
  | .gMonthDay => (match jarr v with
    | [m, d, z] => some (.gMonthDay ⟨jnat m, jnat d, jTz z⟩)
    | _ => none)
  | .gMonth => (match jarr v with
    | [m, z] => some (.gMonth ⟨jnat m, jTz z⟩)
    | _ => none)
  | .gDay => (match jarr v with
    | [d, z] => some (.gDay ⟨jnat d, jTz z⟩)
    | _ => none)
  | .boolean => some (.bool (jbool v))
  | .base64Binary => some (.b64 ((jarr v).map jnat))
  | .hexBinary => some (.hex ((jarr v).map jnat))
  | .float | .double => some (.flt τ (jFloat v))
  | .decimal => some (.dec (jDec v))
  | .anyURI | .string | .normalizedString => some (.str τ (jchars v))
  | _ => some (.int τ (jIntStr v))

/-- `from_xsd`: through the model's dispatch `parseTV` (finite float literals are CPython's: "not-special") -/
def parseJ (τ : Ty) (s : Str) : Json :=
  match parseTV rng τ s with
  | some tv => okJ (tvJ tv)
  | none => if τ = .float ∨ τ = .double then Json.arr #["not-special"] else raiseV

/-- `xsd_repr`: through the model's dispatch `reprTV` -/
def reprJ (τ : Ty) (v : Json) : Json :=
  match jTV τ v with
  | some tv => optJ ofChars (reprTV tv)
  | none => "bad"

def validJ (τ : Ty) (s : Str) : Json := validTV τ s

def jPyVal (j : Json) : PyVal :=
  match jarr j with
  | [.str "int", i] => .int (jIntStr i)
  | [.str "bool", b] => .bool (jbool b)
  | [.str "float"] => .float
  | [.str "str", s] => .str (jchars s)
  | [.str "bytes"] => .bytes
  | [.str "date", y, m, d] => .date (jnat y) (jnat m) (jnat d)
  | [.str "datetime", y, m, d] => .datetime (jnat y) (jnat m) (jnat d)
  | _ => .none

def castJ : CastR → Json
  | .same => Json.arr #["same"]
  | .newInt i => Json.arr #["int", intJ i]
  | .newBool b => Json.arr #["bool", b]
  | .newFloat => Json.arr #["float"]
  | .newStr s => Json.arr #["str", ofChars s]
  | .newBytes => Json.arr #["bytes"]
  | .newDate y m d => Json.arr #["date", y, m, d]
  | .valueError => raiseV
  | .typeError => Json.arr #["raise", "TypeError"]

def single (op : String) (ty : String) (arg : Json) : Json :=
  match tyOfName ty with
  | none => "bad-type"
  | some τ =>
    match op with
    | "parse" => parseJ τ (jchars arg)
    | "repr" => reprJ τ arg
    | "valid" => validJ τ (jchars arg)
    | "cast" => castJ (trivialCast rng (jPyVal arg) τ)
    | _ => "bad-op"

def handle (s : Unit) (op : String) (args : List Json) : Unit × Json :=
  match op, args with
  | "batch", [.str o, .str ty, xs] => (s, Json.arr ((jarr xs).map (single o ty)).toArray)
  | "names", [] =>
    (s, Json.arr (Basyx.Gen.XsdNames.xsdNames.map (fun e => Json.arr #[e.1, e.2.1, e.2.2])).toArray)
  | "ranges", [] =>
    (s, Json.arr (Ty.all.map (fun τ => Json.arr #[τ.pyName,
        (match (rng τ).1 with | some i => intJ i | none => .null),
        (match (rng τ).2 with | some i => intJ i | none => .null)])).toArray)
  | _, [.str ty, arg] => (s, single op ty arg)
  | _, _ => (s, "bad-op")

end Basyx.Driver.Lex
