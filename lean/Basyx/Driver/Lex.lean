/- Line-protocol glue for the C06 model (`Basyx.Lex`).  Stateless.
   ops:  ["parse", ty, s]  ["repr", ty, value]  ["valid", ty, s]  ["cast", pyval, ty]  ["floatspecial", s]
         ["names"]  ["ranges"]  and  ["batch", op, ty, [arg…]] = the list of the single results. -/
import Basyx.Driver.Util
import Basyx.Model.Lex
import Basyx.Gen.XsdNames
open Lean
namespace Basyx.Driver.Lex
open Basyx.Lex Basyx.Driver

def tyOfName (n : String) : Option Ty := Ty.all.find? (fun t => t.pyName = n)

def rangeOfName (n : String) : Range :=
  match Basyx.Gen.XsdNames.intRanges.find? (fun e => e.1 = n) with
  | some e => e.2
  | none => (none, none)

def rng (τ : Ty) : Range := rangeOfName τ.pyName

def raiseV : Json := Json.arr #["raise", "ValueError"]
def okJ (j : Json) : Json := Json.arr #["ok", j]

def jIntStr (j : Json) : Int := match j with
  | .str s => (s.toInt?).getD 0
  | x => jint x
def intJ (i : Int) : Json := .str (toString i)

def tzJ : Tz → Json
  | none => .null
  | some m => (m : Json)
def jTz (j : Json) : Tz := jopt jint j

def natsJ (l : List Nat) : Json := Json.arr (l.map (fun (n : Nat) => (n : Json))).toArray

def durJ (d : Dur) : Json := Json.arr (d.fields.map (fun (i : Int) => intJ i)).toArray
def jDur (j : Json) : Dur := match (jarr j).map jIntStr with
  | [a, b, c, d, e, f, g] => ⟨a, b, c, d, e, f, g⟩
  | _ => ⟨0, 0, 0, 0, 0, 0, 0⟩

def floatJ : FloatV → Json
  | .nan => "nan" | .inf => "inf" | .ninf => "-inf"
  | .finite r => Json.arr #["finite", ofChars r]
def jFloat (j : Json) : FloatV := match j with
  | .str "nan" => .nan | .str "inf" => .inf | .str "-inf" => .ninf
  | x => match jarr x with
    | [_, r] => .finite (jchars r)
    | _ => .finite []

def decJ : DecR → Json
  | .fin v => Json.arr #["fin", v.neg, intJ v.coeff, intJ v.exp]
  | .inf n => Json.arr #["inf", n]
  | .nan n s => Json.arr #["nan", n, s]
def jDec (j : Json) : DecR := match jarr j with
  | [.str "fin", n, c, e] => .fin ⟨jbool n, (jIntStr c).toNat, jIntStr e⟩
  | [.str "inf", n] => .inf (jbool n)
  | [.str "nan", n, s] => .nan (jbool n) (jbool s)
  | _ => .nan false false

def optJ (f : α → Json) : Option α → Json
  | some v => okJ (f v)
  | none => raiseV

def parseJ (τ : Ty) (s : Str) : Json :=
  match τ with
  | .duration => optJ durJ (parseDur s)
  | .dateTime => optJ (fun v => Json.arr #[v.year, v.month, v.day, v.hour, v.minute, v.second, v.micro, tzJ v.tz]) (parseDateTime s)
  | .date => optJ (fun v => Json.arr #[v.year, v.month, v.day, tzJ v.tz]) (parseDate s)
  | .time => optJ (fun v => Json.arr #[v.hour, v.minute, v.second, v.micro, tzJ v.tz]) (parseTime s)
  | .gYearMonth => optJ (fun v => Json.arr #[v.year, v.month, tzJ v.tz]) (parseGYearMonth s)
  | .gYear => optJ (fun v => Json.arr #[v.year, tzJ v.tz]) (parseGYear s)
  | .gMonthDay => optJ (fun v => Json.arr #[v.month, v.day, tzJ v.tz]) (parseGMonthDay s)
  | .gMonth => optJ (fun v => Json.arr #[v.month, tzJ v.tz]) (parseGMonth s)
  | .gDay => optJ (fun v => Json.arr #[v.day, tzJ v.tz]) (parseGDay s)
  | .boolean => optJ (fun (b : Bool) => (b : Json)) (parseBool s)
  | .base64Binary => optJ natsJ (b64decode s)
  | .hexBinary => optJ natsJ (fromHex s)
  | .float | .double =>
    (match parseFloatSpecial s with
     | some v => okJ (floatJ v)
     | none => Json.arr #["not-special"])
  | .decimal => optJ decJ (parseDec s)
  | .anyURI | .string => okJ (ofChars s)
  | .normalizedString => optJ ofChars (parseNormalized s)
  | _ => optJ intJ (parseInt (rng τ) s)

def reprJ (τ : Ty) (v : Json) : Json :=
  match τ with
  | .duration => optJ ofChars (reprDur (jDur v))
  | .dateTime => (match jarr v with
    | [y, mo, d, h, mi, s, us, z] => okJ (ofChars (reprDateTime ⟨jnat y, jnat mo, jnat d, jnat h, jnat mi, jnat s, jnat us, jTz z⟩))
    | _ => "bad")
  | .date => (match jarr v with
    | [y, m, d, z] => okJ (ofChars (reprDate ⟨jnat y, jnat m, jnat d, jTz z⟩))
    | _ => "bad")
  | .time => (match jarr v with
    | [h, mi, s, us, z] => okJ (ofChars (reprTime ⟨jnat h, jnat mi, jnat s, jnat us, jTz z⟩))
    | _ => "bad")
  | .gYearMonth => (match jarr v with
    | [y, m, z] => optJ ofChars (reprGYearMonth ⟨jint y, jnat m, jTz z⟩)
    | _ => "bad")
  | .gYear => (match jarr v with
    | [y, z] => optJ ofChars (reprGYear ⟨jint y, jTz z⟩)
    | _ => "bad")
  | .gMonthDay => (match jarr v with
    | [m, d, z] => okJ (ofChars (reprGMonthDay ⟨jnat m, jnat d, jTz z⟩))
    | _ => "bad")
  | .gMonth => (match jarr v with
    | [m, z] => okJ (ofChars (reprGMonth ⟨jnat m, jTz z⟩))
    | _ => "bad")
  | .gDay => (match jarr v with
    | [d, z] => okJ (ofChars (reprGDay ⟨jnat d, jTz z⟩))
    | _ => "bad")
  | .boolean => okJ (ofChars (reprBool (jbool v)))
  | .base64Binary => okJ (ofChars (b64encode ((jarr v).map jnat)))
  | .hexBinary => okJ (ofChars (hexEncode ((jarr v).map jnat)))
  | .float | .double => okJ (ofChars (reprFloat (jFloat v)))
  | .decimal => okJ (ofChars (reprDecR (jDec v)))
  | .anyURI | .string | .normalizedString => okJ (ofChars (jchars v))
  | _ => okJ (ofChars (intRepr (jIntStr v)))

def validJ (τ : Ty) (s : Str) : Json :=
  match τ with
  | .duration => validDur s
  | .dateTime => validDateTime s
  | .date => validDate s
  | .time => validTime s
  | .gYearMonth => validGYearMonth s
  | .gYear => validGYear s
  | .gMonthDay => validGMonthDay s
  | .gMonth => validGMonth s
  | .gDay => validGDay s
  | .boolean => validBool s
  | .base64Binary => validB64 s
  | .hexBinary => validHex s
  | .float | .double => validFloat s
  | .decimal => validDecimal s
  | .anyURI | .string => true
  | .normalizedString => validNormalized s
  | _ => validInt s

def jPyVal (j : Json) : PyVal :=
  match jarr j with
  | [.str "int", i] => .int (jIntStr i)
  | [.str "bool", b] => .bool (jbool b)
  | [.str "float"] => .float
  | [.str "str", s] => .str (jchars s)
  | [.str "bytes"] => .bytes
  | [.str "date", y, m, d] => .date (jnat y) (jnat m) (jnat d)
  | [.str "datetime", y, m, d] => .datetime (jnat y) (jnat m) (jnat d)
  | _ => .none

def castJ : CastR → Json
  | .same => Json.arr #["same"]
  | .newInt i => Json.arr #["int", intJ i]
  | .newBool b => Json.arr #["bool", b]
  | .newFloat => Json.arr #["float"]
  | .newStr s => Json.arr #["str", ofChars s]
  | .newBytes => Json.arr #["bytes"]
  | .newDate y m d => Json.arr #["date", y, m, d]
  | .valueError => raiseV
  | .typeError => Json.arr #["raise", "TypeError"]

def single (op : String) (ty : String) (arg : Json) : Json :=
  match tyOfName ty with
  | none => "bad-type"
  | some τ =>
    match op with
    | "parse" => parseJ τ (jchars arg)
    | "repr" => reprJ τ arg
    | "valid" => validJ τ (jchars arg)
    | "cast" => castJ (trivialCast rng (jPyVal arg) τ)
    | _ => "bad-op"

def handle (s : Unit) (op : String) (args : List Json) : Unit × Json :=
  match op, args with
  | "batch", [.str o, .str ty, xs] => (s, Json.arr ((jarr xs).map (single o ty)).toArray)
  | "names", [] =>
    (s, Json.arr (Basyx.Gen.XsdNames.xsdNames.map (fun e => Json.arr #[e.1, e.2.1, e.2.2])).toArray)
  | "ranges", [] =>
    (s, Json.arr (Ty.all.map (fun τ => Json.arr #[τ.pyName,
        (match (rng τ).1 with | some i => intJ i | none => .null),
        (match (rng τ).2 with | some i => intJ i | none => .null)])).toArray)
  | _, [.str ty, arg] => (s, single op ty arg)
  | _, _ => (s, "bad-op")

end Basyx.Driver.Lex
