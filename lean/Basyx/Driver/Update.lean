import Basyx.Driver.Util
import Basyx.Model.Update
open Lean
namespace Basyx.Driver.Update
open Basyx.Update Basyx.Driver

/-! node = [uid, cls, kind, parent|null, key, [[name, ref, hook|null, val]…], [[name, keyAttr, isList, [[key, node]…]]…]]
    key = null | ["s", str] | ["g", uid] -/

def jkey (j : Json) : Key := match jarr j with
  | [.str "s", s] => .str (jstr s)
  | [.str "g", n] => .gen (jnat n)
  | _ => .none

def keyJson : Key → Json
  | .none => Json.null
  | .str s => Json.arr #["s", s]
  | .gen u => Json.arr #["g", u]

def jkind (j : Json) : Kind := match jstr j with
  | "r" => .referable | "q" => .qualifier | "e" => .extension | _ => .other

def kindJson : Kind → Json
  | .referable => "r" | .qualifier => "q" | .extension => "e" | .other => "o"

def jpval (j : Json) : String × PVal := match jarr j with
  | [n, r, h, v] => (jstr n, ⟨jnat r, jopt jnat h, jstr v⟩)
  | _ => ("", ⟨0, none, ""⟩)

def optNat : Option Nat → Json
  | none => Json.null
  | some n => n

def pvalJson (p : String × PVal) : Json := Json.arr #[p.1, p.2.ref, optNat p.2.hook, p.2.val]

instance : Inhabited Node := ⟨.mk ⟨0, "", .other, none, .none, []⟩ []⟩

partial def jnode (j : Json) : Node := match jarr j with
  | [u, c, k, p, key, pl, s] =>
    .mk ⟨jnat u, jstr c, jkind k, jopt jnat p, jkey key, (jarr pl).map jpval⟩
      ((jarr s).map (fun sj => match jarr sj with
        | [n, a, l, items] => (⟨jstr n, jstr a, jbool l⟩, (jarr items).map (fun ij => match jarr ij with
            | [k, nd] => (jkey k, jnode nd)
            | _ => (Key.none, jnode Json.null)))
        | _ => (⟨"", "", false⟩, [])))
  | _ => .mk ⟨0, "", .other, none, .none, []⟩ []

partial def nodeJson : Node → Json
  | .mk h sets => Json.arr #[h.uid, h.cls, kindJson h.kind, optNat h.parent, keyJson h.key,
      Json.arr (h.plain.map pvalJson).toArray,
      Json.arr (sets.map (fun (sh, it) => Json.arr #[sh.name, sh.keyAttr, sh.isList,
        Json.arr (it.map (fun (k, n) => Json.arr #[keyJson k, nodeJson n])).toArray])).toArray]

def errJson : Option Err → Json
  | none => Json.null
  | some .keyError => Json.arr #["raise", "KeyError"]
  | some .attributeError => Json.arr #["raise", "AttributeError"]
  | some .typeError => Json.arr #["raise", "TypeError"]
  | some .valueError => Json.arr #["raise", "ValueError"]
  | some (.aascv n) => Json.arr #["raise", "AASCV", n]

def handle (w : Unit) (op : String) (args : List Json) : Unit × Json :=
  match op, args with
  | "update", [l, o, us] =>
    let live := jnode l
    let r := updateFrom live (jnode o) (jbool us)
    (w, Json.arr #[errJson r.err, nodeJson r.live, Json.arr (r.det.map nodeJson).toArray, keyJson live.hdr.key])
  | _, _ => (w, Json.arr #["bad-op"])

end Basyx.Driver.Update
