/- JSON glue for the HTTP repository model (C10, C11). -/
import Basyx.Driver.Util
import Basyx.Model.Repo
open Lean
namespace Basyx.Driver.Repo
open Basyx.Repo Basyx.Driver

def jfield (j : Json) (k : String) : Json := (j.getObjVal? k).toOption.getD .null
def jostr (j : Json) : Option String := match j with | .str s => some s | _ => none

partial def elemOfJson (j : Json) : Elem :=
  let ids := jostr (jfield j "ids")
  let kind := match jstr (jfield j "k") with | "sm" => EKind.sm | "coll" => .coll | _ => .prop
  .mk (ids.getD "") kind ids (jnat (jfield j "tok"))
    ((jarr (jfield j "q")).map (fun q => match jarr q with | [t, v] => (jstr t, jnat v) | _ => ("", 0)))
    ((jarr (jfield j "ch")).map elemOfJson)

def objOfJson (j : Json) : Obj :=
  match jstr (jfield j "k") with
  | "shell" => .shell (jstr (jfield j "id")) (jostr (jfield j "ids")) (jnat (jfield j "tok")) ((jarr (jfield j "refs")).map jstr)
  | "sm" => .sm (jstr (jfield j "id")) (elemOfJson (jfield j "root"))
  | _ => .cd (jstr (jfield j "id")) (jostr (jfield j "ids")) (jnat (jfield j "tok"))

def payloadOfJson (j : Json) : Payload :=
  match jstr (jfield j "p") with
  | "obj" => .obj (objOfJson (jfield j "o"))
  | "elem" => .elem (elemOfJson (jfield j "e"))
  | "qual" => .qual (jstr (jfield j "t")) (jnat (jfield j "v"))
  | "ref" => .ref (jstr (jfield j "id"))
  | _ => .other

def bodyOfJson (j : Json) : Body :=
  match j with
  | .str "malformed" => .malformed
  | .str "array" => .array
  | .str "toodeep" => .tooDeep
  | .str _ => .absent
  | .null => .absent
  | o => .ok (payloadOfJson o)

def qintOfJson (j : Json) : QInt :=
  match j with
  | .null => .absent
  | .str _ => .bad
  | x => .val (jint x)

def segOfJson (j : Json) : Seg :=
  match jarr j with
  | [raw, .str "binascii"] => ⟨jstr raw, .binascii⟩
  | [raw, .str "unicode"] => ⟨jstr raw, .unicode⟩
  | [raw, .str "nonascii"] => ⟨jstr raw, .nonAscii⟩
  | [raw, d] => ⟨jstr raw, match jarr d with | [_, s] => .ok (jstr s) | _ => .binascii⟩
  | _ => ⟨"", .binascii⟩

def reqOfJson (j : Json) : Req :=
  { method := jstr (jfield j "m"),
    path := (jarr (jfield j "path")).map segOfJson,
    accept := match jstr (jfield j "acc") with | "xml" => .xml | "textxml" => .textxml | "none" => .notAcceptable | _ => .json,
    ctype := match jstr (jfield j "ct") with | "json" => .json | "xml" => .xml | "textxml" => .textxml | "other" => .other | _ => .none,
    body := bodyOfJson (jfield j "body"),
    limit := qintOfJson (jfield j "limit"),
    cursor := qintOfJson (jfield j "cursor"),
    core := jbool (jfield j "core") }

def jopts (o : Option String) : Json := match o with | some s => .str s | none => .null

partial def elemJson (e : Elem) : Json :=
  Json.mkObj [("k", match e.kind with | .sm => "sm" | .prop => "prop" | .coll => "coll"), ("ids", jopts e.idShort), ("tok", e.tok),
    ("q", Json.arr (e.quals.map (fun (t, v) => Json.arr #[.str t, (v : Json)])).toArray),
    ("ch", Json.arr (e.ch.map elemJson).toArray)]

def objJson : Obj → Json
  | .shell i s t refs => Json.mkObj [("k", "shell"), ("id", i), ("ids", jopts s), ("tok", t), ("refs", Json.arr (refs.map Json.str).toArray)]
  | .sm i root => Json.mkObj [("k", "sm"), ("id", i), ("root", elemJson root)]
  | .cd i s t => Json.mkObj [("k", "cd"), ("id", i), ("ids", jopts s), ("tok", t)]

def itemJson : Item → Json
  | .obj o => objJson o
  | .elem e => elemJson e
  | .qual t v => Json.mkObj [("k", "qual"), ("t", t), ("v", v)]
  | .ref i => Json.mkObj [("k", "ref"), ("id", i)]

def strs (l : List String) : Json := Json.arr (l.map Json.str).toArray

def locJson : Option Loc → Json
  | none => .null
  | some (.shell i) => Json.arr #["shell", i]
  | some (.sm i) => Json.arr #["sm", i]
  | some (.cd i) => Json.arr #["cd", i]
  | some (.elem i p) => Json.arr #["elem", i, strs p]
  | some (.qual i p t) => Json.arr #["qual", i, match p with | some p => strs p | none => .null, t]

def bodyJson : RBody → Json
  | .empty => Json.arr #["empty"]
  | .result => Json.arr #["result"]
  | .plain => Json.arr #["plain"]
  | .item i => Json.arr #["item", itemJson i]
  | .page is c => Json.arr #["page", Json.arr (is.map itemJson).toArray, c]
  | .items is => Json.arr #["items", Json.arr (is.map itemJson).toArray]

def excJson : PyExc → Json
  | .keyError => "KeyError" | .valueError => "ValueError" | .typeError => "TypeError" | .indexError => "IndexError"
  | .attributeError => "AttributeError" | .aascv n => Json.arr #["AASCV", n] | .binasciiError => "binascii.Error"
  | .unicodeDecodeError => "UnicodeDecodeError" | .recursionError => "RecursionError" | .xmlSyntaxError => "XMLSyntaxError"
  | .unknownClass => "unknown"

def outJson : Out → Json
  | .resp r => Json.arr #["resp", r.status, locJson r.loc, bodyJson r.body]
  | .crash e => Json.arr #["crash", excJson e]
  | .unmodelled => Json.arr #["unmodelled"]

def handle (s : St) (op : String) (args : List Json) : St × Json :=
  match op, args with
  | "mode", [fb] => ({ s with fileBacked := jbool fb }, Json.arr #["unit"])
  | "req", [j] =>
    let (s', o) := Basyx.Repo.handle s (reqOfJson j)
    (s', outJson o)
  | "view", [] => (s, Json.arr (s.objs.map (fun (_, o) => objJson o)).toArray)
  | _, _ => (s, Json.arr #["bad-op"])

end Basyx.Driver.Repo
