import Basyx.Driver.Util
import Basyx.Model.FileStore
open Lean
namespace Basyx.Driver.FileStore
open Basyx.FileStore Basyx.Driver

def jnats (l : List Nat) : Json := Json.arr (l.map (fun (n : Nat) => (n : Json))).toArray

def outJson : Out → Json
  | .unit => Json.arr #["unit"]
  | .obj r => Json.arr #["obj", r]
  | .objs rs => Json.arr #["objs", jnats rs]
  | .bool b => Json.arr #["bool", b]
  | .nat n => Json.arr #["nat", n]
  | .keyError => Json.arr #["raise", "KeyError"]
  | .fileNotFound => Json.arr #["raise", "FileNotFoundError"]
  | .badRef => Json.arr #["bad-ref"]

def parseOp (op : String) (args : List Json) : Option Op :=
  match op, args with
  | "new", [i, v] => some (.new (jchars i) (jnat v))
  | "setver", [r, v] => some (.setver (jnat r) (jnat v))
  | "drop", [r] => some (.drop (jnat r))
  | "gc", [] => some .gc
  | "add", [k, r] => some (.add (jnat k) (jnat r))
  | "get", [k, i] => some (.get (jnat k) (jchars i))
  | "discard", [k, r] => some (.discard (jnat k) (jnat r))
  | "commit", [r] => some (.commit (jnat r))
  | "update", [r] => some (.update (jnat r))
  | "contains_id", [k, i] => some (.containsId (jnat k) (jchars i))
  | "contains_obj", [k, r] => some (.containsObj (jnat k) (jnat r))
  | "len", [k] => some (.len (jnat k))
  | "iter", [k] => some (.iter (jnat k))
  | _, _ => none

def enum {α : Type} : Nat → List α → List (Nat × α)
  | _, [] => []
  | n, x :: r => (n, x) :: enum (n + 1) r

/-- the complete observable state: documents, the objects the application holds, the caches of instances 0..n-1 -/
def view (w : W) (n : Nat) : Json :=
  Json.arr #[
    Json.arr (w.disk.map (fun e => Json.arr #[ofChars e.1, e.2])).toArray,
    Json.arr ((enum 0 w.heap).filterMap (fun e =>
      if e.2.live then some (Json.arr #[e.1, ofChars e.2.id, e.2.ver, e.2.bound]) else none)).toArray,
    Json.arr ((List.range n).map (fun k =>
      Json.arr ((cacheOf w k).map (fun e => Json.arr #[ofChars e.1, e.2])).toArray)).toArray]

/-! C15 -/

def jfname (j : Json) : FName := match jarr j with
  | [.str "tmp", i] => .tmp (jchars i)
  | [_, i] => .doc (jchars i)
  | _ => .doc []

def fnameJson : FName → Json
  | .doc i => Json.arr #["doc", ofChars i]
  | .tmp i => Json.arr #["tmp", ofChars i]

def jcnt (j : Json) : Cnt := match jarr j with
  | [d, n, t] => ⟨jnat d, jnat n, jnat t⟩
  | _ => ⟨0, 0, 0⟩

def cntJson (c : Cnt) : Json :=
  if c.n = 0 then Json.arr #["empty"]
  else if c.complete then Json.arr #["full", c.doc]
  else Json.arr #["prefix", c.doc, c.n]

def jfs (j : Json) : FS := (jarr j).map (fun e => match jarr e with
  | [n, c] => (jfname n, jcnt c)
  | _ => (.doc [], ⟨0, 0, 0⟩))

def jpayload (j : Json) : Payload := match jarr j with
  | [d, t, ok, ch] => ⟨jnat d, jnat t, jbool ok, (jarr ch).map jnat⟩
  | _ => ⟨0, 0, true, []⟩

def jfault (j : Json) : Fault := match jarr j with
  | [.str "raise", k, p] => .raise (jnat k) (jnat p)
  | [.str "crash", k, p] => .crash (jnat k) (jnat p)
  | _ => .none

def stepJson : Step → Json
  | .existsCheck => Json.arr #["exists"]
  | .serialise => Json.arr #["serialise"]
  | .openW n => Json.arr #["open", fnameJson n]
  | .write k => Json.arr #["write", k]
  | .close => Json.arr #["close"]
  | .replace a b => Json.arr #["replace", fnameJson a, fnameJson b]
  | .cacheInsert => Json.arr #["cache"]
  | .setSource => Json.arr #["source"]

def excJson : Option Exc → Json
  | none => Json.null
  | some .keyError => "KeyError"
  | some .valueError => "ValueError"
  | some .osError => "OSError"
  | some .crashed => "crashed"

def xJson (x : X) : Json :=
  Json.arr #[Json.arr (x.fs.map (fun e => Json.arr #[fnameJson e.1, cntJson e.2])).toArray,
             x.cached, x.bound, excJson x.raised,
             Json.arr ((listing x.fs).map ofChars).toArray, iterOk x.fs]

/-! C14 two threads -/

def jprog (j : Json) : Conc.Prog := if jstr j = "add" then .add else .get
def jvariant (j : Json) : Variant := if jstr j = "pinned" then .pinned else .fixed

def crefJson : Conc.CRef → Json
  | .r0 => "r0" | .l0 => "l0" | .l1 => "l1" | .x0 => "x0" | .x1 => "x1"

def resJson : Conc.Res → Json
  | .none => Json.null
  | .ref r => Json.arr #["obj", crefJson r]
  | .unit => Json.arr #["unit"]
  | .keyError => Json.arr #["raise", "KeyError"]

def pcJson : Conc.PC → Json
  | .start => "start" | .acq => "acq" | .contains => "contains" | .getitem => "getitem"
  | .setitem => "setitem" | .rel => "rel" | .source => "source" | .done => "done"

def optJson {α : Type} (f : α → Json) : Option α → Json
  | none => Json.null
  | some a => f a

def concState (s : Conc.S) : Json :=
  Json.arr #[pcJson s.t0.pc, pcJson s.t1.pc, optJson (fun (b : Bool) => if b then (1 : Json) else (0 : Json)) s.lock,
             optJson crefJson s.cache, s.file]

def concTrace (v : Variant) : Conc.S → List Bool → List Json
  | _, [] => []
  | s, t :: r => let s' := Conc.stepT v s t; concState s' :: concTrace v s' r

def handle (w : W) (op : String) (args : List Json) : W × Json :=
  match op, args with
  | "view", [n] => (w, view w (jnat n))
  | "program", [k, i, p] =>
    let kind := if jstr k = "add" then Kind.add else Kind.commit
    (w, Json.arr ((program kind (jchars i) (jpayload p)).map stepJson).toArray)
  | "write", [v, k, i, p, f, fs] =>
    let kind := if jstr k = "add" then Kind.add else Kind.commit
    let x := match jvariant v with
      | .fixed => write kind (jchars i) (jpayload p) (jfault f) (jfs fs)
      | .pinned => writePinned kind (jchars i) (jpayload p) (jfault f) (jfs fs)
    (w, xJson x)
  | "conc", [v, file, cache, b0, f0, p0, p1, sched] =>
    let s0 := Conc.mk (jbool file) (if jbool cache then some .r0 else none) (jbool b0) (jbool f0) (jprog p0) (jprog p1)
    let sch := (jarr sched).map (fun j => jnat j != 0)
    let tr := concTrace (jvariant v) s0 sch
    let s1 := Conc.runS (jvariant v) s0 sch
    let s2 := Conc.finish (jvariant v) s1
    (w, Json.arr #[Json.arr tr.toArray, resJson s2.t0.res, resJson s2.t1.res, optJson crefJson s2.cache,
                   s2.fresh0, s2.boundX0, s2.boundX1, Conc.bothDone s2, Conc.coherent s0 s2])
  | "addmany", [k, rs] =>          -- store.update([...]): the bulk insertion inherited from AbstractObjectStore
    let (w', out) := addMany w (jnat k) ((jarr rs).map jnat)
    (w', outJson out)
  | _, _ =>
    match parseOp op args with
    | some o => let (w', out) := step w o; (w', outJson out)
    | none => (w, Json.arr #["bad-op"])

end Basyx.Driver.FileStore
