import Basyx.Driver.Files
