/- JSON glue for the namespace model (property C01): op lines in, results / whole public view out. -/
import Basyx.Driver.Util
import Basyx.Model.Ns
open Lean
namespace Basyx.Driver.Ns
open Basyx.Ns Basyx.Driver

def kindOf (j : Json) : Kind := match jstr j with | "qual" => .qual | "ext" => .ext | _ => .ref
def attrName : Kind → String | .ref => "id_short" | .qual => "type" | .ext => "name"

def nsKindOf (j : Json) : Option NsKind :=
  match jstr j with
  | "submodel" => some .submodel | "smc" => some .smc | "sml" => some .sml | "entity" => some .entity
  | "arel" => some .arel | "op" => some .op | "holder" => some .holder | "aas" => some .aas | "cd" => some .cd
  | _ => none

def keyJson : Option Key → Json
  | none => .null
  | some (.user s) => .str s
  | some (.gen _) => Json.arr #["gen"]

def optNat : Option Nat → Json | none => .null | some n => n
def natsJson (l : List Nat) : Json := Json.arr (l.map (fun (n : Nat) => (Json.num n : Json))).toArray
def jnats (j : Json) : List Nat := (jarr j).map jnat
def joptNat (j : Json) : Option Nat := jopt jnat j
def joptInt (j : Json) : Option Int := jopt jint j
def joptStr (j : Json) : Option String := jopt jstr j

def sliceOf (j : Json) : Slice :=
  match jarr j with
  | [a, b, c] => ⟨joptInt a, joptInt b, joptInt c⟩
  | _ => ⟨none, none, none⟩

def cfgOf (j : Json) : ListCfg :=
  match jarr j with
  | [c, s, v] => ⟨jnat c, joptNat s, joptNat v⟩
  | _ => ⟨0, none, some 0⟩

def excJson : Exc → Json
  | .keyError => Json.arr #["raise", "KeyError"]
  | .valueError => Json.arr #["raise", "ValueError"]
  | .indexError => Json.arr #["raise", "IndexError"]
  | .aascv n => Json.arr #["raise", "AASCV", n]

def outJson : Out → Json
  | .ok => Json.arr #["ok"]
  | .elem e => Json.arr #["ok", e]
  | .raise x => excJson x
  | .bad => Json.arr #["bad-op"]

/-- a key argument: a string, or `["of", e]` = the key element `e` currently carries (generated idShorts cannot be spelled) -/
def keyArg (s : St) (j : Json) : Key :=
  match j with
  | .str x => .user x
  | _ => match jarr j with
    | [_, e] => (match s.elems[jnat e]? with | some el => el.key.getD (.user "") | none => .user "")
    | _ => .user ""

def parseOp (s : St) (op : String) (args : List Json) : Option Op :=
  match op, args with
  | "mk", [k, key, sem, cls, vt] => some (.mk (kindOf k) (joptStr key) (joptNat sem) (jnat cls) (jnat vt))
  | "ns", [k, key, items, cfg] =>
    (nsKindOf k).map (fun kd => .construct kd (joptStr key) ((jarr items).map jnats) (cfgOf cfg))
  | "add", [n, j, e] => some (.add (jnat n) (jnat j) (jnat e))
  | "remove", [n, j, e] => some (.remove (jnat n) (jnat j) (jnat e))
  | "removeKey", [n, j, k] => some (.removeKey (jnat n) (jnat j) (keyArg s k))
  | "discard", [n, j, e] => some (.discard (jnat n) (jnat j) (jnat e))
  | "pop", [n, j] => some (.pop (jnat n) (jnat j))
  | "popAt", [n, j, i] => some (.popAt (jnat n) (jnat j) (jint i))
  | "clear", [n, j] => some (.clear (jnat n) (jnat j))
  | "insert", [n, j, i, e] => some (.insert (jnat n) (jnat j) (jint i) (jnat e))
  | "append", [n, j, e] => some (.append (jnat n) (jnat j) (jnat e))
  | "setItem", [n, j, i, e] => some (.setItem (jnat n) (jnat j) (jint i) (jnat e))
  | "delItem", [n, j, i] => some (.delItem (jnat n) (jnat j) (jint i))
  | "setSlice", [n, j, sl, es] => some (.setSlice (jnat n) (jnat j) (sliceOf sl) (jnats es))
  | "delSlice", [n, j, sl] => some (.delSlice (jnat n) (jnat j) (sliceOf sl))
  | "extend", [n, j, es] => some (.extend (jnat n) (jnat j) (jnats es))
  | "setValue", [n, es] => some (.setValue (jnat n) (jnats es))
  | "rename", [e, k] => some (.rename (jnat e) (joptStr k))
  | "setSem", [e, sem] => some (.setSem (jnat e) (joptNat sem))
  | "nsAdd", [n, e] => some (.nsAdd (jnat n) (jnat e))
  | "nsRemove", [n, a, k] => some (.nsRemove (jnat n) (kindOf a) (keyArg s k))
  | _, _ => none

/-- the keys every lookup is probed with: the current key of every element (handle order), then the probe strings -/
def probeKeys (s : St) (probes : List String) : List Key :=
  s.elems.filterMap (fun el => el.key) ++ probes.map Key.user

def setView (s : St) (S : NSet) (keys : List Key) : Json :=
  let handles := List.range s.elems.length
  let cont := handles.filter (fun e => match s.elems[e]? with | some el => containsE S e el | none => false)
  let look := keys.map (fun k => optNat (lookup S k))
  let pos : Json := match S.order with
    | none => .null
    | some _ =>
      let l := (List.range (lenOf S)).map (fun i => match posOf S (Int.ofNat i) with
        | some e => (e : Json) | none => Json.str "IndexError")
      let l := match posOf S (Int.ofNat (lenOf S)) with | some _ => l ++ [Json.str "no-IndexError"] | none => l
      Json.arr l.toArray
  Json.arr #[attrName S.attr, natsJson (iterOf S), lenOf S, natsJson cont, Json.arr look.toArray, pos]

def nsView (s : St) (n : Nat) (flags : List Nat) (keys : List Key) : Json :=
  let sv := (setsOf s n).filterMap (fun g => (s.sets[g]?).map (fun S => setView s S keys))
  let rows := ([Kind.ref, Kind.qual, Kind.ext].zip flags).map (fun (a, f) =>
    match f with
    | 0 => Json.null
    | 1 => Json.arr (keys.map (fun k => optNat (nsLookup s n a k))).toArray
    | _ => Json.arr (keys.map (fun _ => Json.null)).toArray)
  Json.arr #[n, Json.arr sv.toArray, Json.arr rows.toArray]

def view (s : St) (live : List Json) (probes : List String) : Json :=
  let keys := probeKeys s probes
  let ev := s.elems.map (fun el => Json.arr #[keyJson el.key, optNat el.parent])
  let nv := live.map (fun l => match jarr l with
    | [n, fl] => nsView s (jnat n) (jnats fl) keys
    | _ => Json.null)
  Json.arr #[Json.arr ev.toArray, Json.arr nv.toArray]

def handle (s : St) (op : String) (args : List Json) : St × Json :=
  match op, args with
  | "view", [live, probes] => (s, view s (jarr live) ((jarr probes).map jstr))
  | _, _ =>
    match parseOp s op args with
    | some o => let (s', out) := step s o; (s', outJson out)
    | none => (s, Json.arr #["bad-op"])

end Basyx.Driver.Ns
