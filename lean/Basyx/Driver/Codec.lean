import Basyx.Driver.Util
import Basyx.Model.Codec
open Lean
namespace Basyx.Driver.Codec
open Basyx.Codec Basyx.Driver

partial def valOfJson (j : Json) : Val :=
  match j with
  | .null => .none
  | .arr a =>
    match a.toList with
    | [.str "t", .str s, .bool f] => .tok s f
    | [.str "l", .arr xs] => .list (xs.toList.map valOfJson)
    | [.str "n", .str c, .arr fs] => .node c (fs.toList.map valOfJson)
    | _ => .none
  | _ => .none

partial def jsonOfVal : Val → Json
  | .none => .null
  | .tok s f => Json.arr #["t", s, f]
  | .list xs => Json.arr #["l", Json.arr (xs.map jsonOfVal).toArray]
  | .node c fs => Json.arr #["n", c, Json.arr (fs.map jsonOfVal).toArray]

partial def wireOfJson (j : Json) : Wire :=
  match jarr j with
  | [.str "t", .str s, .bool f] => .tok s f
  | [.str "a", .arr xs] => .arr (xs.toList.map wireOfJson)
  | [.str "o", tag, .arr ms] =>
    .obj (match tag with | .str t => some t | _ => none)
      (ms.toList.map (fun m => match jarr m with | [.str n, w] => (n, wireOfJson w) | _ => ("", .tok "" true)))
  | _ => .tok "?" true

partial def jsonOfWire : Wire → Json
  | .tok s f => Json.arr #["t", s, f]
  | .arr xs => Json.arr #["a", Json.arr (xs.map jsonOfWire).toArray]
  | .obj tag ms => Json.arr #["o", (match tag with | some t => Json.str t | none => Json.null),
      Json.arr (ms.map (fun (n, w) => Json.arr #[Json.str n, jsonOfWire w])).toArray]

instance : Inhabited Kind := ⟨.leaf⟩

partial def kindOfJson (j : Json) : Kind :=
  match j with
  | .str "leaf" => .leaf
  | _ =>
    match jarr j with
    | [.str "node", .str c] => .node c
    | [.str "poly", .arr cs] => .poly (cs.toList.map jstr)
    | [.str "list", k] => .list (kindOfJson k)
    | _ => .leaf

def errJson : Err → Json
  | .keyError m => Json.arr #["err", "KeyError", m]
  | .typeError w => Json.arr #["err", "TypeError", w]

/-- ops: ["enc", stripped, val] ; ["dec", stripped, kind, wire] ; ["strip", val] — against table `T` -/
def handle (T : Table) (u : Unit) (op : String) (args : List Json) : Unit × Json :=
  match op, args with
  | "enc", [s, v] => (u, jsonOfWire (enc T (jbool s) (valOfJson v)))
  | "dec", [s, k, w] =>
    (u, match dec T (jbool s) (kindOfJson k) (wireOfJson w) with
        | .ok v => Json.arr #["ok", jsonOfVal v]
        | .error e => errJson e)
  | "stripw", [k, w] => (u, jsonOfWire (stripW T (kindOfJson k) (wireOfJson w)))
  | "strip", [v] => (u, jsonOfVal (strip T true (valOfJson v)))
  | "wf", [] => (u, Json.arr #[wfTableB T,
      Json.arr (T.flatMap (fun ct => (ct.rows.filter (fun r => !wfRowB r)).map (fun r => Json.arr #[ct.cls, r.member]))).toArray])
  | _, _ => (u, Json.arr #["bad-op"])

end Basyx.Driver.Codec
