/- JSON glue shared by the line-protocol drivers (not part of any model). -/
import Lean.Data.Json
open Lean
namespace Basyx.Driver

def jstr (j : Json) : String := match j with | .str s => s | _ => ""
def jchars (j : Json) : List Char := (jstr j).toList
def jnat (j : Json) : Nat := match j.getNat? with | .ok n => n | _ => 0
def jint (j : Json) : Int := match j.getInt? with | .ok n => n | _ => 0
def jbool (j : Json) : Bool := match j with | .bool b => b | _ => false
def jarr (j : Json) : List Json := match j with | .arr a => a.toList | _ => []
def ofChars (l : List Char) : Json := .str (String.ofList l)
def jopt (f : Json → α) (j : Json) : Option α := match j with | .null => none | x => some (f x)

end Basyx.Driver
