import Basyx.Driver.Codec
import Basyx.Model.Failsafe
import Basyx.Gen.JsonTable
import Basyx.Gen.XmlTable
open Lean
namespace Basyx.Driver.Failsafe
open Basyx.Codec Basyx.Driver Basyx.Driver.Codec

def kindOfName : String → Option EKind
  | "KeyError" => some .key
  | "TypeError" => some .type
  | "ValueError" => some .value
  | "model.AASConstraintViolation" => some .aascv
  | "AASConstraintViolation" => some .aascv
  | _ => none

def nameOfKind : EKind → String
  | .key => "KeyError" | .type => "TypeError" | .value => "ValueError" | .aascv => "AASConstraintViolation" | .other => "Other"

def kinds (l : List String) : List EKind := l.filterMap kindOfName
def points (p : List (String × List (String × Bool × Bool × List String))) : List RecClass :=
  p.map (fun (c, rows) => ⟨c, rows.map (fun (m, r, ir, ic) => ⟨m, r, ir, kinds ic⟩)⟩)

partial def dwireOfJson (j : Json) : DWire :=
  match jarr j with
  | [.str "t", .str s, .bool f] => .tok s f
  | [.str "t", .str s] => .tok s false
  | [.str "b", .str k] => .bad ((kindOfName k).getD .other)      -- an undocumented kind is caught by no handler
  | [.str "a", .arr xs] => .arr (xs.toList.map dwireOfJson)
  | [.str "o", tag, .arr ms] =>
    .obj (match tag with | .str t => some t | _ => none)
      (ms.toList.map (fun m => match jarr m with | [.str n, w] => (n, dwireOfJson w) | _ => ("", .bad .type)))
  | _ => .bad .type

def tableOf (n : String) : Table × Cfg :=
  if n == "xml" then (Gen.Xml.xmlTable, ⟨true, kinds Gen.Xml.objectHookCatch, [], points Gen.Xml.recPoints⟩)
  else (Gen.Json.jsonTable, ⟨true, kinds Gen.Json.objectHookCatch, Gen.Json.hookClasses, points Gen.Json.recPoints⟩)

def resJson : Except EKind Val → Json
  | .ok v => Json.arr #["ok", jsonOfVal v]
  | .error e => Json.arr #["err", nameOfKind e]

/-- ["decd", table, failsafe, stripped, kind, dwire] ; ["top", table, failsafe, [dwire…]] -/
def handle (u : Unit) (op : String) (args : List Json) : Unit × Json :=
  match op, args with
  | "decd", [t, fs, s, k, w] =>
    let (T, cfg) := tableOf (jstr t)
    (u, resJson (decD T { cfg with failsafe := jbool fs } (jbool s) (false, []) (kindOfJson k) (dwireOfJson w)))
  | "top", [t, fs, items] =>
    let (T, cfg) := tableOf (jstr t)
    (u, match decTop T { cfg with failsafe := jbool fs } ((jarr items).map dwireOfJson) with
        | .ok vs => Json.arr #["ok", Json.arr (vs.map jsonOfVal).toArray]
        | .error e => Json.arr #["err", nameOfKind e])
  | _, _ => (u, Json.arr #["bad-op"])

end Basyx.Driver.Failsafe
