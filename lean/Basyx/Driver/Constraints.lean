/- C02 — JSON glue for the constraint model (line protocol; not part of the model). -/
import Basyx.Driver.Util
import Basyx.Model.Constraints
open Lean
namespace Basyx.Driver.Constraints
open Basyx.Constraints Basyx.Driver Basyx.Gen

/-- strings travel as arrays whose items are code points or `[codePoint, repeat]` runs -/
def jstrRL (j : Json) : Str :=
  (jarr j).flatMap (fun e => match e with
    | .arr a => List.replicate (jnat (a.getD 1 (.num 1))) (jnat (a.getD 0 (.num 0)))
    | x => [jnat x])

def rleAux : Str → List (Nat × Nat) → List (Nat × Nat)
  | [], acc => acc.reverse
  | c :: r, (d, k) :: acc => if c == d then rleAux r ((d, k + 1) :: acc) else rleAux r ((c, 1) :: (d, k) :: acc)
  | c :: r, [] => rleAux r [(c, 1)]

def strJ (s : Str) : Json := Json.arr ((rleAux s []).map (fun p => Json.arr #[p.1, p.2])).toArray
def optJ {α : Type} (f : α → Json) : Option α → Json | none => .null | some a => f a
def ostr (j : Json) : Option Str := jopt jstrRL j
def natJ (n : Nat) : Json := .num (JsonNumber.fromNat n)
def natsJ (l : List Nat) : Json := Json.arr (l.map natJ).toArray
def jnats (j : Json) : List Nat := (jarr j).map jnat
def joint (j : Json) : Option Int := jopt jint j

def errJ : Err → Json
  | .valueError => Json.arr #["raise", "ValueError"]
  | .typeError => Json.arr #["raise", "TypeError"]
  | .keyError => Json.arr #["raise", "KeyError"]
  | .indexError => Json.arr #["raise", "IndexError"]
  | .attributeError => Json.arr #["raise", "AttributeError"]
  | .aascv n => Json.arr #["raise", "AASCV", n]

def resJ : Res Unit → Json
  | .ok _ => Json.arr #["ok"]
  | .error e => errJ e

def jkey (j : Json) : Key :=
  match jarr j with
  | [t, b] => ⟨(KT.ofName? (jstr t)).getD .GLOBAL_REFERENCE, jbool b⟩
  | _ => ⟨.GLOBAL_REFERENCE, false⟩

def jlop (j : Json) : Option LOp :=
  match jarr j with
  | [.str "insert", i, x] => some (.insert (jint i) (jnat x))
  | [.str "append", x] => some (.append (jnat x))
  | [.str "extend", xs] => some (.extend (jnats xs))
  | [.str "iadd", xs] => some (.extend (jnats xs))
  | [.str "setitem", i, x] => some (.setItem (jint i) (jnat x))
  | [.str "setslice", a, b, xs] => some (.setSlice (joint a) (joint b) (jnats xs))
  | [.str "delitem", i] => some (.delItem (jint i))
  | [.str "delslice", a, b] => some (.delSlice (joint a) (joint b))
  | [.str "pop"] => some (.pop none)
  | [.str "pop", i] => some (.pop (some (jint i)))
  | [.str "clear"] => some .clear
  | [.str "remove", x] => some (.remove (jnat x))
  | [.str "assign", xs] => some (.assign (jnats xs))
  | _ => none

def jetype (j : Json) : EntityType := if jstr j == "SELF_MANAGED_ENTITY" then .selfManaged else .coManaged
def etypeJ : EntityType → Json | .selfManaged => "SELF_MANAGED_ENTITY" | .coManaged => "CO_MANAGED_ENTITY"
def jdir (j : Json) : Direction := if jstr j == "INPUT" then .input else .output
def dirJ : Direction → Json | .input => "INPUT" | .output => "OUTPUT"

def jstamp (j : Json) : Stamp :=
  match jarr j with
  | [.str "naive"] => some none
  | [.str "aware", o, n] => some (some ⟨jint o, jbool n⟩)
  | _ => none

def stampJ : Stamp → Json
  | none => .null
  | some none => Json.arr #["naive"]
  | some (some tz) => Json.arr #["aware", tz.offset, tz.namedUTC]

def jpyval (j : Json) : PyVal :=
  match jarr j with
  | [.str "int", n] => .int (jint n)
  | [.str "bool", b] => .bool (jbool b)
  | (.str "float") :: _ => .float                       -- a trailing item names the concrete value (0.0, "", b""): same kind
  | (.str "str") :: c :: _ => .str (jbool c)
  | (.str "bytes") :: _ => .bytes
  | [.str "date"] => .date
  | [.str "datetime"] => .datetime
  | _ => .other

def pyvalJ : PyVal → Json
  | .int n => Json.arr #["int", n]
  | .bool b => Json.arr #["bool", b]
  | .float => Json.arr #["float"]
  | .str c => Json.arr #["str", c]
  | .bytes => Json.arr #["bytes"]
  | .date => Json.arr #["date"]
  | .datetime => Json.arr #["datetime"]
  | .other => Json.arr #["other"]

/-- `max_interval` argument: `null` / `false` = None; anything else (`true` = 5 s, `"zero"` = a zero-length, falsy
    duration, `"zero-arith"` = 1 h − 60 min) is a value that `is not None`. -/
def jpresent (j : Json) : Bool := match j with | .null => false | .bool b => b | _ => true

def jsmlElem (j : Json) : SmlElem :=
  match jarr j with
  | [c, si, v, h] => ⟨jstr c, jopt jnat si, jopt jstr v, jbool h⟩
  | _ => ⟨"", none, none, false⟩

def jkvs (j : Json) : List (Str × Str) :=
  (jarr j).map (fun e => match jarr e with | [k, v] => (jstrRL k, jstrRL v) | _ => ([], []))

structure St where
  admin : Option Admin := none
  entity : Option Entity := none
  asset : Option Asset := none
  sem : Option Sem := none
  event : Option Event := none
  lss : Option LssW := none
  smlm : Option SmlM := none
  typed : Option Typed := none

def init : St := {}

def adminJ (a : Admin) : Json := Json.arr #[optJ strJ a.version, optJ strJ a.revision, optJ strJ a.templateId]
def entityJ (e : Entity) : Json := Json.arr #[etypeJ e.etype, optJ strJ e.gid, natsJ e.sids]
def assetJ (a : Asset) : Json := Json.arr #[optJ strJ a.gid, natsJ a.sids, optJ strJ a.assetType]
def semJ (s : Sem) : Json := Json.arr #[optJ natJ s.sem, natsJ s.supp]
def eventJ (e : Event) : Json := Json.arr #[dirJ e.direction, e.maxInterval, stampJ e.lastUpdate, optJ strJ e.topic]
def lssJ (l : Lss) : Json := Json.arr (l.d.map (fun e => Json.arr #[strJ e.1, strJ e.2])).toArray
def lsswJ (w : LssW) : Json := Json.arr #[lssJ w.a, optJ lssJ w.b, lssJ ⟨"", w.src⟩]

/-- [tags in list order, per creation number: [class, semantic id, value type, id_short state 0 none / 1 user / 2 generated, in the list?]] -/
def smlmJ (s : SmlM) : Json :=
  let one := fun (t : Nat) => match lookupTag t s.order, lookupTag t s.detached with
    | some e, _ => Json.arr #[e.cls, optJ natJ e.semId, optJ Json.str e.valueType, (2 : Nat), true]
    | none, some e => Json.arr #[e.cls, optJ natJ e.semId, optJ Json.str e.valueType, (if e.hasIdShort then 1 else 0 : Nat), false]
    | none, none => .null
  Json.arr #[natsJ (s.order.map (·.1)), Json.arr ((List.range s.next).map one).toArray]

def typedJ (t : Typed) : Json := Json.arr #[optJ Json.str t.valueType, optJ pyvalJ t.value]

def out (r : Res Unit) (view : Json) : Json := Json.arr #[resJ r, view]

def newObj {α : Type} (r : Res α) (view : α → Json) : Option α × Json :=
  match r with
  | .ok a => (some a, Json.arr #[Json.arr #["ok"], view a])
  | .error e => (none, Json.arr #[errJ e, .null])

def stepObj {α : Type} (o : Option α) (f : α → α × Res Unit) (view : α → Json) : Option α × Json :=
  match o with
  | none => (none, Json.arr #["no-object"])
  | some a => let (a', r) := f a; (some a', out r (view a'))

/-- all key-type sequences of a given length in odometer order over `KT.all` -/
def seqs : Nat → List (List KT)
  | 0 => [[]]
  | n + 1 => KT.all.flatMap (fun k => (seqs n).map (fun r => k :: r))

def codeOf : Res Unit → Int
  | .ok _ => 0
  | .error (.aascv n) => n
  | .error _ => -1

/-- `xs += ys` on an attribute: `extend`, then the owner's setter is called with the list itself. -/
def runLops {α : Type} (stepf : α → LOp → α × Res Unit) (getList : α → List Nat) (a : α) (j : Json) : Option (α × Res Unit) :=
  match jarr j with
  | [.str "iadd", xs] =>
    match stepf a (.extend (jnats xs)) with
    | (a', .ok _) => some (stepf a' (.assign (getList a')))
    | r => some r
  | _ => (jlop j).map (stepf a)

def listObj {α : Type} (o : Option α) (stepf : α → LOp → α × Res Unit) (getList : α → List Nat) (view : α → Json) (j : Json) :
    Option α × Json :=
  match o with
  | none => (none, Json.arr #["no-object"])
  | some a =>
    match runLops stepf getList a j with
    | some (a', r) => (some a', out r (view a'))
    | none => (some a, Json.arr #["bad-op"])

/-- typed slot (Property.value, Range.min/max, Qualifier.value, Extension.value) -/
def handleTyped (s : St) (op : String) (args : List Json) : St × Json :=
  match op, args with
  | "typed.new", [t, v] => let (o, j) := newObj (Typed.ctor (jopt jstr t) (jopt jpyval v)) typedJ; ({ s with typed := o }, j)
  | "typed.value", [v] => let (o, j) := stepObj s.typed (·.step (.setValue (jopt jpyval v))) typedJ; ({ s with typed := o }, j)
  | "typed.value_type", [t] => let (o, j) := stepObj s.typed (·.step (.setValueType (jopt jstr t))) typedJ; ({ s with typed := o }, j)
  | _, _ => (s, Json.arr #["bad-op"])

def handle' (s : St) (op : String) (args : List Json) : St × Json :=
  match op, args with
  | "str", [n, v] => (s, resJ (checkNamed (jstr n) (jstrRL v)))
  | "lang", [c, v] => (s, resJ (checkLang (jstr c) (jstrRL v)))
  | "idshort", [v] => (s, resJ (validateIdShort (jstrRL v)))
  | "tag", [v] => (s, resJ (tagCheck (jstrRL v)))
  | "mref", [ks] => (s, resJ (modelRefCheck ((jarr ks).map jkey)))
  | "eref", [ks] => (s, resJ (extRefCheck ((jarr ks).map jkey)))
  | "mref_enum", [n, b] =>
    (s, Json.arr ((seqs (jnat n)).map (fun ts => (codeOf (modelRefCheck (ts.map (fun t => ⟨t, jbool b⟩))) : Json))).toArray)
  | "eref_enum", [n] =>
    (s, Json.arr ((seqs (jnat n)).map (fun ts => (codeOf (extRefCheck (ts.map (fun t => ⟨t, false⟩))) : Json))).toArray)
  | "cast", [v, t] =>
    (s, match trivialCast (jpyval v) (jstr t) with | .ok w => Json.arr #[Json.arr #["ok"], pyvalJ w] | .error e => Json.arr #[errJ e, .null])
  | "sml.ctor", [tv, sil, vt] =>
    (s, resJ (smlCtorChk ⟨jstr tv, jopt jnat sil, jopt jstr vt⟩))
  | "sml.add", [tv, sil, vt, new, ex] =>
    let el := fun (j : Json) => match jarr j with
      | [c, si, v, h] => (⟨jstr c, jopt jnat si, jopt jstr v, jbool h⟩ : SmlElem)
      | _ => ⟨"", none, none, false⟩
    (s, resJ (smlAddChk ⟨jstr tv, jopt jnat sil, jopt jstr vt⟩ (el new) ((jarr ex).map el)))
  -- SubmodelElementList machine (children modified while contained)
  | "smlm.new", [tv, sil, vt, es] =>
    let (o, j) := newObj (SmlM.ctor ⟨jstr tv, jopt jnat sil, jopt jstr vt⟩ ((jarr es).map jsmlElem)) smlmJ; ({ s with smlm := o }, j)
  | "smlm.add", [e] => let (o, j) := stepObj s.smlm (·.step (.add (jsmlElem e))) smlmJ; ({ s with smlm := o }, j)
  | "smlm.readd", [t] => let (o, j) := stepObj s.smlm (·.step (.readd (jnat t))) smlmJ; ({ s with smlm := o }, j)
  | "smlm.setsem", [t, r] => let (o, j) := stepObj s.smlm (·.step (.setSem (jnat t) (jopt jnat r))) smlmJ; ({ s with smlm := o }, j)
  | "smlm.setvt", [t, v] => let (o, j) := stepObj s.smlm (·.step (.setVt (jnat t) (jopt jstr v))) smlmJ; ({ s with smlm := o }, j)
  | "smlm.setid", [t, u] => let (o, j) := stepObj s.smlm (·.step (.setId (jnat t) (jbool u))) smlmJ; ({ s with smlm := o }, j)
  | "smlm.remove", [t] => let (o, j) := stepObj s.smlm (·.step (.remove (jnat t))) smlmJ; ({ s with smlm := o }, j)
  -- AdministrativeInformation
  | "admin.new", [v, r, t] => let (o, j) := newObj (Admin.ctor (ostr v) (ostr r) (ostr t)) adminJ; ({ s with admin := o }, j)
  | "admin.version", [v] => let (o, j) := stepObj s.admin (·.step (.setVersion (ostr v))) adminJ; ({ s with admin := o }, j)
  | "admin.revision", [v] => let (o, j) := stepObj s.admin (·.step (.setRevision (ostr v))) adminJ; ({ s with admin := o }, j)
  | "admin.template_id", [v] => let (o, j) := stepObj s.admin (·.step (.setTemplateId (ostr v))) adminJ; ({ s with admin := o }, j)
  -- Entity
  | "entity.new", [t, g, l] => let (o, j) := newObj (Entity.ctor (jetype t) (ostr g) (jnats l)) entityJ; ({ s with entity := o }, j)
  | "entity.type", [t] => let (o, j) := stepObj s.entity (·.step (.setType (jetype t))) entityJ; ({ s with entity := o }, j)
  | "entity.gid", [g] => let (o, j) := stepObj s.entity (·.step (.setGid (ostr g))) entityJ; ({ s with entity := o }, j)
  | "entity.list", [l] =>
    let (o, j) := listObj s.entity (fun e lop => e.step (.list lop)) (·.sids) entityJ l; ({ s with entity := o }, j)
  | "entity.src", [_] => let (o, j) := stepObj s.entity (fun e => (e, .ok ())) entityJ; ({ s with entity := o }, j)
  -- AssetInformation
  | "asset.new", [g, l, t] => let (o, j) := newObj (Asset.ctor (ostr g) (jnats l) (ostr t)) assetJ; ({ s with asset := o }, j)
  | "asset.gid", [g] => let (o, j) := stepObj s.asset (·.step (.setGid (ostr g))) assetJ; ({ s with asset := o }, j)
  | "asset.asset_type", [t] => let (o, j) := stepObj s.asset (·.step (.setAssetType (ostr t))) assetJ; ({ s with asset := o }, j)
  | "asset.list", [l] =>
    let (o, j) := listObj s.asset (fun e lop => e.step (.list lop)) (·.sids) assetJ l; ({ s with asset := o }, j)
  | "asset.src", [_] => let (o, j) := stepObj s.asset (fun e => (e, .ok ())) assetJ; ({ s with asset := o }, j)
  -- HasSemantics
  | "sem.new", [r, l] => let (o, j) := newObj (Sem.ctor (jopt jnat r) (jnats l)) semJ; ({ s with sem := o }, j)
  | "sem.sem", [r] => let (o, j) := stepObj s.sem (·.step (.setSem (jopt jnat r))) semJ; ({ s with sem := o }, j)
  | "sem.list", [l] =>
    let (o, j) := listObj s.sem (fun e lop => e.step (.list lop)) (·.supp) semJ l; ({ s with sem := o }, j)
  | "sem.src", [_] => let (o, j) := stepObj s.sem (fun e => (e, .ok ())) semJ; ({ s with sem := o }, j)
  -- BasicEventElement
  | "event.new", [d, t, lu, mi] =>
    let (o, j) := newObj (Event.ctor (jdir d) (ostr t) (jstamp lu) (jpresent mi)) eventJ; ({ s with event := o }, j)
  | "event.direction", [d] => let (o, j) := stepObj s.event (·.step (.setDirection (jdir d))) eventJ; ({ s with event := o }, j)
  | "event.max_interval", [p] => let (o, j) := stepObj s.event (·.step (.setMaxInterval (jpresent p))) eventJ; ({ s with event := o }, j)
  | "event.last_update", [t] => let (o, j) := stepObj s.event (·.step (.setLastUpdate (jstamp t))) eventJ; ({ s with event := o }, j)
  | "event.topic", [t] => let (o, j) := stepObj s.event (·.step (.setTopic (ostr t))) eventJ; ({ s with event := o }, j)
  -- LangStringSet family
  | "lss.new", [c, d] => let (o, j) := newObj (LssW.ctor (jstr c) (jkvs d)) lsswJ; ({ s with lss := o }, j)
  | "lss.new2", [c, f] => let (o, j) := stepObj s.lss (·.step (.newB (jstr c) (jbool f))) lsswJ; ({ s with lss := o }, j)
  | "lss.src.set", [k, v] => let (o, j) := stepObj s.lss (·.step (.srcSet (jstrRL k) (jstrRL v))) lsswJ; ({ s with lss := o }, j)
  | "lss.src.del", [k] => let (o, j) := stepObj s.lss (·.step (.srcDel (jstrRL k))) lsswJ; ({ s with lss := o }, j)
  | "lss.src.clear", [] => let (o, j) := stepObj s.lss (·.step .srcClear) lsswJ; ({ s with lss := o }, j)
  | op, args =>
    match (if op.startsWith "lss.o2." then some (LssWOp.onB, (op.drop 7).toString) else if op.startsWith "lss." then some (LssWOp.onA, (op.drop 4).toString) else none) with
    | some (side, what) =>
      let lop : Option LssOp := match what, args with
        | "set", [k, v] => some (.setItem (jstrRL k) (jstrRL v))
        | "del", [k] => some (.delItem (jstrRL k))
        | "clear", [] => some .clear
        | "update", [d] => some (.update (jkvs d))
        | "setdefault", [k, v] => some (.setDefault (jstrRL k) (jstrRL v))
        | "pop", [k] => some (.pop (jstrRL k))
        | "popitem", [] => some .popItem
        | _, _ => none
      match lop with
      | some l => let (o, j) := stepObj s.lss (·.step (side l)) lsswJ; ({ s with lss := o }, j)
      | none => (s, Json.arr #["bad-op"])
    | none => handleTyped s op args

/-- a trailing JSON object on a line is harness metadata (entry point, container kind, host class): ignored here -/
def handle (s : St) (op : String) (args : List Json) : St × Json :=
  handle' s op (args.filter (fun j => match j with | .obj _ => false | _ => true))

end Basyx.Driver.Constraints
