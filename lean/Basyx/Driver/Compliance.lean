import Basyx.Driver.Codec
import Basyx.Model.Compliance
import Basyx.Gen.Compliance
open Lean
namespace Basyx.Driver.Compliance
open Basyx.Compliance Basyx.Driver Basyx.Driver.Codec

def phaseOf (j : Json) : Phase := match jarr j with
  | [s, c, r, k, f] => ⟨jstr s, jstr c, (jarr r).map jstr, (jarr k).map jstr, jbool f⟩
  | _ => ⟨"", "", [], [], false⟩

def outcomeOf (j : Json) : Outcome := match jarr j with
  | [.str "ok", l] => .ok (jbool l)
  | [.str "raises", e] => .raises (jstr e)
  | _ => .ok false

def statusName : Status → String
  | .success => "success" | .warnings => "warnings" | .failed => "failed" | .notExecuted => "notExecuted"

/-- ["script", phases, outcomes] ; ["checkeq", val, val] ; ["overall", [status…]] -/
def handle (u : Unit) (op : String) (args : List Json) : Unit × Json :=
  match op, args with
  | "script", [ps, os] =>
    (u, match runScript ((jarr ps).map phaseOf) ((jarr os).map outcomeOf) with
        | .ok r => Json.arr #["ok", Json.arr (r.map (fun (s, st) => Json.arr #[s, statusName st])).toArray]
        | .error e => Json.arr #["raise", e])
  | "overall", [sts] =>
    (u, Json.str (statusName (overall ((jarr sts).filterMap (fun j => match jstr j with
      | "success" => some Status.success | "warnings" => some .warnings | "failed" => some .failed
      | "notExecuted" => some .notExecuted | _ => none)))))
  | "checkeq", [a, b] => (u, Json.bool (checkEq Gen.Compliance.cover (valOfJson a) (valOfJson b)))
  | _, _ => (u, Json.arr #["bad-op"])

end Basyx.Driver.Compliance
