import Basyx.Driver.Codec
import Basyx.Model.Compliance
import Basyx.Model.Keyed
import Basyx.Gen.Compliance
open Lean
namespace Basyx.Driver.Compliance
open Basyx.Compliance Basyx.Driver Basyx.Driver.Codec

def phaseOf (j : Json) : Phase := match jarr j with
  | [s, c, r, k, f] => ⟨jstr s, jstr c, (jarr r).map jstr, (jarr k).map jstr, jbool f⟩
  | _ => ⟨"", "", [], [], false⟩

def outcomeOf (j : Json) : Outcome := match jarr j with
  | [.str "ok", l] => .ok (jbool l)
  | [.str "raises", e] => .raises (jstr e)
  | _ => .ok false

def statusName : Status → String
  | .success => "success" | .warnings => "warnings" | .failed => "failed" | .notExecuted => "notExecuted"

/-- ["script", phases, outcomes] ; ["checkeq", val, val] ; ["keyed", lenCheck, [[key, val]…], [[key, val]…]] ; ["overall", [status…]] -/
def handle (u : Unit) (op : String) (args : List Json) : Unit × Json :=
  match op, args with
  | "script", [ps, os] =>
    (u, match runScript ((jarr ps).map phaseOf) ((jarr os).map outcomeOf) with
        | .ok r => Json.arr #["ok", Json.arr (r.map (fun (s, st) => Json.arr #[s, statusName st])).toArray]
        | .error e => Json.arr #["raise", e])
  | "overall", [sts] =>
    (u, Json.str (statusName (overall ((jarr sts).filterMap (fun j => match jstr j with
      | "success" => some Status.success | "warnings" => some .warnings | "failed" => some .failed
      | "notExecuted" => some .notExecuted | _ => none)))))
  | "keyed", [lc, a, b] =>
    let pairs := fun (j : Json) => (jarr j).map (fun p => match jarr p with
      | [k, v] => (jstr k, valOfJson v)
      | _ => ("", Basyx.Codec.Val.none))
    (u, Json.bool (Basyx.Keyed.checkKeyed (jbool lc) (checkEq Gen.Compliance.cover) (pairs a) (pairs b)))
  | "checkeq", [a, b] => (u, Json.bool (checkEq Gen.Compliance.cover (valOfJson a) (valOfJson b)))
  | _, _ => (u, Json.arr #["bad-op"])

end Basyx.Driver.Compliance
