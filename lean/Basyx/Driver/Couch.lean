import Basyx.Driver.Util
import Basyx.Model.Couch
open Lean
namespace Basyx.Driver.Couch
open Basyx.Couch Basyx.Driver

def jident (j : Json) : Couch.Ident := (jarr j).map (fun x => Fin.ofNat 256 (jnat x))
def identJson (i : Couch.Ident) : Json := Json.arr (i.map (fun (b : Byte) => (b.val : Json))).toArray
def quotedJson (q : Quoted) : Json := .str (String.ofList (q.map Char.ofNat))
def jquoted (j : Json) : Quoted := (jstr j).toList.map Char.toNat
def optNat : Option Nat → Json | none => .null | some n => (n : Json)

def excJson : Exc → Json
  | .keyError => "KeyError"
  | .conflict => "CouchDBConflictError"
  | .serverError c => Json.arr #["CouchDBServerError", c]
  | .responseError => "CouchDBResponseError"
  | .connectionError => "CouchDBConnectionError"

def outJson : Out → Json
  | .unit => Json.arr #["unit"]
  | .handle h => Json.arr #["handle", h]
  | .bool b => Json.arr #["bool", b]
  | .nat n => Json.arr #["nat", n]
  | .handles hs e => Json.arr #["handles", Json.arr (hs.map (fun (h : Nat) => (h : Json))).toArray,
      match e with | none => .null | some e => excJson e]
  | .raise e => Json.arr #["raise", excJson e]
  | .badHandle => Json.arr #["bad-handle"]

def methodJson : Method → Json | .GET => "GET" | .HEAD => "HEAD" | .PUT => "PUT" | .DELETE => "DELETE"
def jmethod (j : Json) : Method := match jstr j with | "HEAD" => .HEAD | "PUT" => .PUT | "DELETE" => .DELETE | _ => .GET
def targetJson : Target → Json
  | .db => "db" | .allDocs => "_all_docs" | .doc q => Json.arr #["doc", quotedJson q]
def jtarget (j : Json) : Target := match j with
  | .str "db" => .db | .str "_all_docs" => .allDocs
  | _ => match jarr j with | [_, q] => .doc (jquoted q) | _ => .db

def bodyJson : Body → Json
  | .doc i r d => Json.arr #["doc", identJson i, r, d]
  | .written i r => Json.arr #["written", identJson i, r]
  | .dbInfo n => Json.arr #["dbinfo", n]
  | .rows ids => Json.arr #["rows", Json.arr (ids.map identJson).toArray]
  | .error => Json.arr #["error"]
  | .empty => Json.arr #["empty"]
  | .notJson => Json.arr #["notjson"]

def transportJson : Transport → Json | .timeout => "timeout" | .ssl => "ssl" | .protocol => "protocol" | .otherHttp => "other"
def jtransport (j : Json) : Transport := match jstr j with | "timeout" => .timeout | "ssl" => .ssl | "protocol" => .protocol | _ => .otherHttp

def respJson (r : Resp) : Json := Json.arr #["resp", r.status, r.json, bodyJson r.body, optNat r.etag]
def wireJson : Wire → Json
  | .resp r => respJson r
  | .fail k => Json.arr #["fail", transportJson k]

def reqJson (rq : Req) : List Json := [methodJson rq.method, targetJson rq.target, optNat rq.rev, optNat rq.data]
def jreq (m t r d : Json) : Req := ⟨jmethod m, jtarget t, jopt jnat r, jopt jnat d⟩

def logJson (l : List (Req × Wire)) : Json :=
  Json.arr (l.map (fun (rq, wr) => Json.arr (reqJson rq ++ [wireJson wr]).toArray)).toArray

def jfault (j : Json) : Option Fault := match jarr j with
  | [.str "status", c, jt, jb, p] => some ⟨.status (jnat c) (jbool jt) (jbool jb), jbool p⟩
  | [.str "transport", k, p] => some ⟨.transport (jtransport k), jbool p⟩
  | _ => none
def jplan (j : Json) : List (Option Fault) := (jarr j).map jfault

def outcomeJson : Outcome → Json
  | .ok b => Json.arr #["ok", bodyJson b]
  | .headers e => Json.arr #["headers", optNat e]
  | .serverError c => Json.arr #["raise", excJson (.serverError c)]
  | .responseError => Json.arr #["raise", excJson .responseError]
  | .connectionError => Json.arr #["raise", excJson .connectionError]
  | .keyError => Json.arr #["raise", excJson .keyError]

def viewJson (w : W) : Json := Json.arr #[
  Json.arr (w.cl.revs.map (fun (q, r) => Json.arr #[quotedJson q, r])).toArray,
  Json.arr (w.cl.cache.map (fun (i, h) => Json.arr #[identJson i, h])).toArray,
  Json.arr (w.cl.objs.map (fun (h, x) => Json.arr #[h, identJson x.id, x.data,
      match x.source with | none => .null | some q => quotedJson q])).toArray,
  Json.arr (w.sv.docs.map (fun (i, d) => Json.arr #[identJson i, d.gen, optNat d.body])).toArray]

def parseOp (op : String) (args : List Json) : Option Op :=
  match op, args with
  | "mk", [i, d] => some (.client (.mk (jident i) (jnat d)) [])
  | "modify", [h, d] => some (.client (.modify (jnat h) (jnat d)) [])
  | "drop", [h] => some (.client (.drop (jnat h)) [])
  | "add", [h, p] => some (.client (.add (jnat h)) (jplan p))
  | "get", [i, p] => some (.client (.get (jident i)) (jplan p))
  | "commit", [h, p] => some (.client (.commit (jnat h)) (jplan p))
  | "update", [h, p] => some (.client (.update (jnat h)) (jplan p))
  | "discard", [h, s, p] => some (.client (.discard (jnat h) (jbool s)) (jplan p))
  | "contains", [i, p] => some (.client (.contains (jident i)) (jplan p))
  | "len", [p] => some (.client .len (jplan p))
  | "iter", [p] => some (.client .iter (jplan p))
  | "ext_put", [i, d] => some (.extPut (jident i) (jnat d))
  | "ext_delete", [i] => some (.extDelete (jident i))
  | _, _ => none

structure St where
  w : W := {}
  fixed : Bool := true     -- which `discard` the checked tree has (extracted from the source by the harness): patched / pinned

def handle (s : St) (op : String) (args : List Json) : St × Json :=
  match op, args with
  | "quote", [i] => (s, quotedJson (quote (jident i)))
  | "unquote", [q] => (s, identJson (unquote (jquoted q)))
  | "classify", [m, wr] =>
    let wire : Wire := match jarr wr with
      | [.str "fail", k] => .fail (jtransport k)
      | [.str "status", c, jt, jb] => faultWire (.status (jnat c) (jbool jt) (jbool jb))
      | _ => .fail .otherHttp
    (s, outcomeJson (classify (jmethod m) wire))
  | "serve", [m, t, r, d] =>
    -- a raw request of another client (the loopback tier's external writer / the fake server's own self-check)
    let (sv, resp) := serve s.w.sv (jreq m t r d)
    ({ s with w := { s.w with sv := sv } }, respJson resp)
  | "variant", [v] => ({ s with fixed := jstr v != "pinned" }, Json.arr #["unit"])
  | "discard", [h, sf, p] =>
    -- `step` uses the patched `discard`; on a tree without fixes/C16-discard-bookkeeping.patch the pinned transcription runs
    let (w, o) := discardG s.fixed { s.w with plan := jplan p, log := [] } (jnat h) (jbool sf)
    ({ s with w := w }, Json.arr #[outJson o, logJson w.log, viewJson w])
  | _, _ =>
    match parseOp op args with
    | some o => let (w, out) := step s.w o; ({ s with w := w }, Json.arr #[outJson out, logJson w.log, viewJson w])
    | none => (s, Json.arr #["bad-op"])

end Basyx.Driver.Couch
