import Basyx.Driver.Util
import Basyx.Model.Files
open Lean
namespace Basyx.Driver.Files
open Basyx.Files Basyx.Driver

def outJson : Out → Json
  | .name n => Json.arr #["name", ofChars n]
  | .content c => Json.arr #["content", ofChars c]
  | .ctype c => Json.arr #["ctype", ofChars c]
  | .hash h => Json.arr #["hash", ofChars h]
  | .bool b => Json.arr #["bool", b]
  | .names ns => Json.arr #["names", Json.arr (ns.map ofChars).toArray]
  | .unit => Json.arr #["unit"]
  | .keyError => Json.arr #["raise", "KeyError"]
  | .fuel => Json.arr #["fuel"]

def parseOp (op : String) (args : List Json) : Option Op :=
  match op, args with
  | "add", [n, d, c] => some (.add (jchars n) (jchars d) (jchars c))
  | "delete", [n] => some (.delete (jchars n))
  | "ctype", [n] => some (.ctype (jchars n))
  | "sha", [n] => some (.sha (jchars n))
  | "write", [n] => some (.write (jchars n))
  | "contains", [n] => some (.contains (jchars n))
  | "iter", [] => some .iter
  | _, _ => none

def handle (s : St) (op : String) (args : List Json) : St × Json :=
  match op, args with
  | "view", [ns] =>
    let ns := (jarr ns).map jchars
    (s, Json.arr #[outJson (iter s),
      Json.arr (ns.map (fun n => Json.arr #[outJson (contains s n), outJson (getContentType s n),
                                            outJson (writeFile s n), outJson (getSha s n)])).toArray])
  | "append_counter", [n, i] => (s, ofChars (appendCounter (jchars n) (jnat i)))
  | _, _ =>
    match parseOp op args with
    | some o => let (s', out) := step s o; (s', outJson out)
    | none => (s, Json.arr #["bad-op"])

end Basyx.Driver.Files
