/- Generic line-protocol loop: one JSON array per input line, one JSON value per output line.
   `["reset"]` starts a new history.  Each property has its own entry file under lean/Mains/. -/
import Basyx.Driver.Util
open Lean
namespace Basyx.Driver

partial def loop {σ : Type} (init : σ) (handle : σ → String → List Json → σ × Json)
    (h out : IO.FS.Stream) (w : σ) : IO Unit := do
  let line ← h.getLine
  if line.isEmpty then return ()
  match Json.parse line with
  | .error e => out.putStrLn (Json.arr #["parse-error", e]).compress; loop init handle h out w
  | .ok j =>
    match jarr j with
    | [.str "reset"] => out.putStrLn (Json.arr #["reset"]).compress; loop init handle h out init
    | .str op :: args =>
      let (w', o) := handle w op args
      out.putStrLn o.compress
      loop init handle h out w'
    | _ => out.putStrLn (Json.arr #["bad-line"]).compress; loop init handle h out w

def runMain {σ : Type} (init : σ) (handle : σ → String → List Json → σ × Json) : IO Unit := do
  loop init handle (← IO.getStdin) (← IO.getStdout) init

end Basyx.Driver
