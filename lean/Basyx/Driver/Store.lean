import Basyx.Driver.Util
import Basyx.Model.Store
open Lean
namespace Basyx.Driver.Store
open Basyx.Store Basyx.Driver

structure W where
  stores : List St := [[], [], []]
  gen : Gen := ⟨[], []⟩

def outJson : Out → Json
  | .unit => Json.arr #["unit"]
  | .obj u => Json.arr #["obj", u]
  | .none => Json.arr #["none"]
  | .bool b => Json.arr #["bool", b]
  | .nat n => Json.arr #["nat", n]
  | .objs us => Json.arr #["objs", Json.arr (us.map (fun (u : Nat) => (u : Json))).toArray]
  | .keyError => Json.arr #["raise", "KeyError"]
  | .fuel => Json.arr #["fuel"]

def jobj (j : Json) : Obj := match jarr j with
  | [u, i] => ⟨jnat u, jchars i⟩
  | _ => ⟨0, []⟩

def parseOp (op : String) (args : List Json) : Option Op :=
  match op, args with
  | "add", [x] => some (.add (jobj x))
  | "discard", [x] => some (.discard (jobj x))
  | "remove", [x] => some (.remove (jobj x))
  | "pop", [] => some .pop
  | "clear", [] => some .clear
  | "update", [xs] => some (.update ((jarr xs).map jobj))
  | "get", [i] => some (.get (jchars i))
  | "get_default", [i] => some (.getDefault (jchars i))
  | "contains_obj", [x] => some (.containsObj (jobj x))
  | "contains_id", [i] => some (.containsId (jchars i))
  | "len", [] => some .len
  | "iter", [] => some .iter
  | _, _ => none

def setAt (l : List St) (k : Nat) (s : St) : List St := l.set k s

def handle (w : W) (op : String) (args : List Json) : W × Json :=
  match op, args with
  | "mux", [ks, i] =>
    let ps := (jarr ks).map (fun k => (w.stores[jnat k]?).getD [])
    (w, outJson (muxGet ps (jchars i)))
  | "view", [k, ids, objs] =>
    let st := (w.stores[jnat k]?).getD []
    let ids := (jarr ids).map jchars
    let objs := (jarr objs).map jobj
    (w, Json.arr #[outJson (.objs (iter st)), outJson (.nat st.length),
      Json.arr (ids.map (fun i => outJson (getIdentifiable st i))).toArray,
      Json.arr (ids.map (fun i => outJson (getDefault st i))).toArray,
      Json.arr (ids.map (fun i => Json.bool (containsId st i))).toArray,
      Json.arr (objs.map (fun x => Json.bool (containsObj st x))).toArray])
  | "quote", [s] => (w, ofChars (quote (jchars s)))
  | "gen_new", [ns] => ({ w with gen := ⟨jchars ns, []⟩ }, Json.arr #["unit"])
  | "generate", [known, p] =>
    let (g, r) := generate w.gen ((jarr known).map jchars) (jopt jchars p)
    ({ w with gen := g }, match r with | some i => Json.arr #["id", ofChars i] | none => Json.arr #["fuel"])
  | _, k :: rest =>
    match parseOp op rest with
    | some o =>
      let s := (w.stores[jnat k]?).getD []
      let (s', out) := step s o
      ({ w with stores := setAt w.stores (jnat k) s' }, outJson out)
    | none => (w, Json.arr #["bad-op"])
  | _, _ => (w, Json.arr #["bad-op"])

end Basyx.Driver.Store
