/-
  C02 — SPECIFICATION side, written by hand from the constraint texts of the AAS metamodel (Part 1) as the SDK
  documents them, and from XML Schema Part 2.  Nothing here looks at how the code checks anything: predicates are
  stated over values (code-point lists, key chains, attribute records), tables are literal.
  (Imports: vocabulary types and the *names* of the key types only.)
-/
import Basyx.Model.ConstraintsTypes
namespace Basyx.Spec
open Basyx.Constraints Basyx.Gen

/-! ## Constrained string types -/

/-- AASd-130: x9 | xA | xD | [x20-xD7FF] | [xE000-xFFFD] | [x10000-x10FFFF] -/
def aasd130Char (c : Nat) : Prop :=
  c = 0x9 ∨ c = 0xA ∨ c = 0xD ∨ (0x20 ≤ c ∧ c ≤ 0xD7FF) ∨ (0xE000 ≤ c ∧ c ≤ 0xFFFD) ∨ (0x10000 ≤ c ∧ c ≤ 0x10FFFF)

instance : DecidablePred aasd130Char := fun c => by unfold aasd130Char; exact inferInstance

/-- a string of a length-constrained type -/
def StrOk (min max : Nat) (s : Str) : Prop := min ≤ s.length ∧ s.length ≤ max ∧ ∀ c ∈ s, aasd130Char c

instance (a b : Nat) : DecidablePred (StrOk a b) := fun s => by unfold StrOk; exact inferInstance

def digit (c : Nat) : Prop := 48 ≤ c ∧ c ≤ 57
instance : DecidablePred digit := fun c => by unfold digit; exact inferInstance

/-- VersionType / RevisionType: `^(0|[1-9][0-9]*)$` — decimal digits, no leading zero unless the string is "0"… "9". -/
def VersionPattern (s : Str) : Prop := s ≠ [] ∧ (∀ c ∈ s, digit c) ∧ (s.length = 1 ∨ s.head? ≠ some 48)

instance : DecidablePred VersionPattern := fun s => by unfold VersionPattern; exact inferInstance

/-- (type, min, max, has the version pattern) — Part 1 "Constrained string types" as documented by the SDK. -/
def limits : List (String × Nat × Nat × String) := [
  ("content_type", 1, 100, ""),
  ("identifier", 1, 2000, ""),
  ("label_type", 1, 64, ""),
  ("message_topic_type", 1, 255, ""),
  ("name_type", 1, 128, ""),
  ("path_type", 1, 2000, ""),
  ("qualifier_type", 1, 128, ""),
  ("revision_type", 1, 4, "([0-9]|[1-9][0-9]*)"),
  ("short_name_type", 1, 64, ""),
  ("value_type_iec61360", 1, 2000, ""),
  ("version_type", 1, 4, "([0-9]|[1-9][0-9]*)")]

/-- texts of the constrained language string sets -/
def langLimits : List (String × Nat × Nat) := [
  ("MultiLanguageNameType", 1, 64),
  ("MultiLanguageTextType", 1, 1023),
  ("DefinitionTypeIEC61360", 1, 1023),
  ("PreferredNameTypeIEC61360", 1, 255),
  ("ShortNameTypeIEC61360", 1, 18)]

/-- which attribute carries which constrained type -/
def attrs : List (String × String × String) := [
  ("AdministrativeInformation", "template_id", "identifier"),
  ("AdministrativeInformation", "version", "version_type"),
  ("AssetInformation", "asset_type", "identifier"),
  ("BasicEventElement", "message_topic", "message_topic_type"),
  ("Blob", "content_type", "content_type"),
  ("DataSpecificationIEC61360", "value", "value_type_iec61360"),
  ("File", "content_type", "content_type"),
  ("File", "value", "path_type"),
  ("Identifiable", "id", "identifier"),
  ("Resource", "content_type", "content_type"),
  ("Resource", "path", "path_type"),
  ("ValueReferencePair", "value", "value_type_iec61360")]

/-- attributes validated by hand-written setters / constructors -/
def calls : List (String × String) := [
  ("AdministrativeInformation._set_revision", "revision_type"),
  ("AssetInformation._validate_aasd_131", "identifier"),
  ("AssetInformation._validate_global_asset_id", "identifier"),
  ("Entity._validate_global_asset_id", "identifier"),
  ("Extension.name", "name_type"),
  ("Key.__init__", "identifier"),
  ("Qualifier.type", "qualifier_type"),
  ("Referable._set_category", "name_type"),
  ("Referable.validate_id_short", "name_type"),
  ("SpecificAssetId.__init__", "identifier"),
  ("SpecificAssetId.__init__", "label_type")]

def letter (c : Nat) : Prop := (65 ≤ c ∧ c ≤ 90) ∨ (97 ≤ c ∧ c ≤ 122)
instance : DecidablePred letter := fun c => by unfold letter; exact inferInstance

/-- AASd-002 + NameType: letters, digits, underscore; starting with a letter; 1..128 characters. -/
def IdShortOk (s : Str) : Prop :=
  StrOk 1 128 s ∧ (∀ c ∈ s, letter c ∨ digit c ∨ c = 95) ∧ ∃ c, s.head? = some c ∧ letter c

/-! ## Key types and references (AASd-121 … AASd-128) -/

def aasIdentifiables : List KT := [.ASSET_ADMINISTRATION_SHELL, .CONCEPT_DESCRIPTION, .SUBMODEL]
def genericGloballyIdentifiables : List KT := [.GLOBAL_REFERENCE]
def genericFragmentKeys : List KT := [.FRAGMENT_REFERENCE]
def aasSubmodelElements : List KT := [
  .ANNOTATED_RELATIONSHIP_ELEMENT, .BASIC_EVENT_ELEMENT, .BLOB, .CAPABILITY, .DATA_ELEMENT, .ENTITY, .EVENT_ELEMENT, .FILE,
  .MULTI_LANGUAGE_PROPERTY, .OPERATION, .PROPERTY, .RANGE, .REFERENCE_ELEMENT, .RELATIONSHIP_ELEMENT, .SUBMODEL_ELEMENT,
  .SUBMODEL_ELEMENT_COLLECTION, .SUBMODEL_ELEMENT_LIST]
def aasReferableNonIdentifiables : List KT := aasSubmodelElements
def fragmentKeys : List KT := aasReferableNonIdentifiables ++ genericFragmentKeys
def globallyIdentifiables : List KT := genericGloballyIdentifiables ++ aasIdentifiables

/-- AASd-121: the first key is one of GloballyIdentifiables. -/
def aasd121 (ks : List Key) : Prop := ∃ k r, ks = k :: r ∧ k.type ∈ globallyIdentifiables
/-- AASd-122 (external): the first key is one of GenericGloballyIdentifiables. -/
def aasd122 (ks : List Key) : Prop := ∃ k r, ks = k :: r ∧ k.type ∈ genericGloballyIdentifiables
/-- AASd-123 (model): the first key is one of AasIdentifiables. -/
def aasd123 (ks : List Key) : Prop := ∃ k r, ks = k :: r ∧ k.type ∈ aasIdentifiables
/-- AASd-124 (external): the last key is a GenericGloballyIdentifiable or a GenericFragmentKey. -/
def aasd124 (ks : List Key) : Prop := ∃ p k, ks = p ++ [k] ∧ (k.type ∈ genericGloballyIdentifiables ∨ k.type ∈ genericFragmentKeys)
/-- AASd-125 (model): every key after the first is one of FragmentKeys. -/
def aasd125 (ks : List Key) : Prop := ∀ k0 r, ks = k0 :: r → ∀ k ∈ r, k.type ∈ fragmentKeys
/-- AASd-126 (model): only the last key may be a GenericFragmentKey. -/
def aasd126 (ks : List Key) : Prop := ∀ p k q, ks = p ++ k :: q → k.type ∈ genericFragmentKeys → q = []
/-- AASd-127 (model): a FragmentReference key is preceded by a File or Blob key. -/
def aasd127 (ks : List Key) : Prop :=
  ∀ p a k q, ks = p ++ a :: k :: q → k.type = .FRAGMENT_REFERENCE → (a.type = .FILE ∨ a.type = .BLOB)
/-- AASd-128 (model): the value of a key preceded by a SubmodelElementList key is an integer (the position). -/
def aasd128 (ks : List Key) : Prop :=
  ∀ p a k q, ks = p ++ a :: k :: q → a.type = .SUBMODEL_ELEMENT_LIST → k.isInt = true

def ModelRefOk (ks : List Key) : Prop := aasd123 ks ∧ aasd125 ks ∧ aasd126 ks ∧ aasd127 ks ∧ aasd128 ks
def ExtRefOk (ks : List Key) : Prop := aasd122 ks ∧ aasd124 ks

/-- the constraint a raised number refers to (used for "the number raised names a violated constraint") -/
def aasd (n : Nat) (ks : List Key) : Prop :=
  if n = 121 then aasd121 ks else if n = 122 then aasd122 ks else if n = 123 then aasd123 ks else if n = 124 then aasd124 ks
  else if n = 125 then aasd125 ks else if n = 126 then aasd126 ks else if n = 127 then aasd127 ks else if n = 128 then aasd128 ks
  else True

/-! ## XSD integer ranges (XML Schema Part 2 §3.4) -/
def xsdRanges : List (String × Option Int × Option Int) := [
  ("Long", some (-9223372036854775808), some 9223372036854775807),
  ("Int", some (-2147483648), some 2147483647),
  ("Short", some (-32768), some 32767),
  ("Byte", some (-128), some 127),
  ("NonPositiveInteger", none, some 0),
  ("NegativeInteger", none, some (-1)),
  ("NonNegativeInteger", some 0, none),
  ("PositiveInteger", some 1, none),
  ("UnsignedLong", some 0, some 18446744073709551615),
  ("UnsignedInt", some 0, some 4294967295),
  ("UnsignedShort", some 0, some 65535),
  ("UnsignedByte", some 0, some 255)]

/-- `n` lies in the value space of the XSD integer type `t` (`xs:integer` itself is unbounded). -/
def InXsdRange (t : String) (n : Int) : Prop :=
  ∀ lo hi, (t, lo, hi) ∈ xsdRanges → (∀ l, lo = some l → l ≤ n) ∧ (∀ h, hi = some h → n ≤ h)

def integerTypes : List String :=
  ["Integer", "Long", "Int", "Short", "Byte", "NonPositiveInteger", "NegativeInteger", "NonNegativeInteger", "PositiveInteger",
   "UnsignedLong", "UnsignedInt", "UnsignedShort", "UnsignedByte"]

/-- AASd-020 and its siblings: a stored value is consistent with the slot's XSD value type.
    (`bool` under `xs:integer` is a neutral zone of DESIGN §7.3 and counted as consistent.) -/
def Conforms (v : PyVal) (t : String) : Prop :=
  match v with
  | .int n => t ∈ integerTypes ∧ InXsdRange t n
  | .bool _ => t = "Boolean" ∨ t = "Integer"
  | .float => t = "Float" ∨ t = "Double"
  | .str ctl => t = "String" ∨ t = "AnyURI" ∨ (t = "NormalizedString" ∧ ctl = false)
  | .bytes => t = "Base64Binary" ∨ t = "HexBinary"
  | .date => t = "Date"
  | .datetime => t = "DateTime"
  | .other => False

/-! ## Cross-attribute rules -/

/-- AASd-005: no version ⇒ no revision. -/
def aasd005 (version revision : Option Str) : Prop := version = none → revision = none

/-- AASd-014: self-managed ⇒ globalAssetId or a specificAssetId; co-managed ⇒ neither. -/
def aasd014 (t : EntityType) (gid : Option Str) (sids : List Nat) : Prop :=
  match t with
  | .selfManaged => gid ≠ none ∨ sids ≠ []
  | .coManaged => gid = none ∧ sids = []

/-- AASd-131: globalAssetId or at least one specificAssetId. -/
def aasd131 (gid : Option Str) (sids : List Nat) : Prop := gid ≠ none ∨ sids ≠ []

/-- AASd-118: a supplemental semantic id requires a semantic id. -/
def aasd118 (sem : Option Nat) (supp : List Nat) : Prop := supp ≠ [] → sem ≠ none

/-- BasicEventElement: max_interval is not applicable for input direction. -/
def eventDirection (d : Direction) (maxInterval : Bool) : Prop := d = .input → maxInterval = false

/-- BasicEventElement: last_update is a timestamp in UTC. -/
def lastUpdateUtc (t : Stamp) : Prop := t = none ∨ ∃ tz, t = some (some tz) ∧ tz.offset = 0

def optStr (min max : Nat) (v : Option Str) : Prop := ∀ s, v = some s → StrOk min max s

/-! ## Language string sets -/

def lowerAscii (c : Nat) : Prop := 97 ≤ c ∧ c ≤ 122
instance : DecidablePred lowerAscii := fun c => by unfold lowerAscii; exact inferInstance

/-- language-tag form the SDK documents: the primary subtag (text before the first '-') is exactly two lower-case letters -/
def TagOk (tag : Str) : Prop := ∃ a b rest, tag = a :: b :: rest ∧ lowerAscii a ∧ lowerAscii b ∧ (rest = [] ∨ rest.head? = some 45)

def LangOk (lim : Option (Nat × Nat)) (d : List (Str × Str)) : Prop :=
  d ≠ [] ∧ ∀ e ∈ d, TagOk e.1 ∧ ∀ mn mx, lim = some (mn, mx) → StrOk mn mx e.2

end Basyx.Spec
