/-
  Specification side of C06, written from XML Schema Part 2 (§3.2, §3.3) and the AAS specification's list of value types —
  NOT from the SDK: the local name of every type and the value spaces of the integer-derived types.
-/
import Basyx.Model.Lex
namespace Basyx.Spec
open Basyx.Lex

/-- local name of the type in the XML Schema namespace -/
def xsName : Ty → String
  | .duration => "duration" | .dateTime => "dateTime" | .date => "date" | .time => "time"
  | .gYearMonth => "gYearMonth" | .gYear => "gYear" | .gMonthDay => "gMonthDay" | .gMonth => "gMonth"
  | .gDay => "gDay" | .boolean => "boolean" | .base64Binary => "base64Binary" | .hexBinary => "hexBinary"
  | .float => "float" | .double => "double" | .decimal => "decimal" | .integer => "integer" | .long => "long"
  | .int => "int" | .short => "short" | .byte => "byte" | .nonPositiveInteger => "nonPositiveInteger"
  | .negativeInteger => "negativeInteger" | .nonNegativeInteger => "nonNegativeInteger"
  | .positiveInteger => "positiveInteger" | .unsignedLong => "unsignedLong" | .unsignedInt => "unsignedInt"
  | .unsignedShort => "unsignedShort" | .unsignedByte => "unsignedByte" | .anyURI => "anyURI"
  | .string => "string" | .normalizedString => "normalizedString"

/-- value space of xs:integer and the 12 types derived from it (§3.3.13 – §3.3.25); `none` for the other types -/
def intRange : Ty → Option Range
  | .integer => some (none, none)
  | .long => some (some (-9223372036854775808), some 9223372036854775807)
  | .int => some (some (-2147483648), some 2147483647)
  | .short => some (some (-32768), some 32767)
  | .byte => some (some (-128), some 127)
  | .nonPositiveInteger => some (none, some 0)
  | .negativeInteger => some (none, some (-1))
  | .nonNegativeInteger => some (some 0, none)
  | .positiveInteger => some (some 1, none)
  | .unsignedLong => some (some 0, some 18446744073709551615)
  | .unsignedInt => some (some 0, some 4294967295)
  | .unsignedShort => some (some 0, some 65535)
  | .unsignedByte => some (some 0, some 255)
  | _ => none

end Basyx.Spec
