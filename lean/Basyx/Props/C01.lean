/-
  C01 — Namespace containment stays consistent under every mutation history.
  Property theorems only.  Model: `Basyx/Model/Ns.lean`; helper lemmas: `Basyx/Lemmas/Ns*.lean`.

  The invariant `Inv s` (defined in `Basyx/Lemmas/Ns.lean` / `NsSet.lean`) says, for every NamespaceSet `S` of every
  namespace and every element:
    * `member`     every backend entry `(k, e)`: `e` exists, its current identifying attribute is `k`, its parent link names
                   the set's namespace, its kind is the set's attribute kind;
    * `keysNodup`, `unique`   keys are distinct inside a backend and across all sets of one namespace with that attribute;
    * `parent`     an element whose parent link names namespace `n` is entered in some set of `n`;
    * `genFresh`   generated idShorts are below the counter (= they are fresh);  `nsBound` bookkeeping of namespace ids;
    * `InvO`       every `_order` list is duplicate free and has exactly the backend's values as members.
  Shape of the argument: `Inv` holds initially and is preserved by EVERY operation whether it returns or raises
  (`c01_inv_step`), hence in every reachable state (`c01_inv_reachable`, induction over an arbitrary op list); under `Inv`
  all public views of a set agree (`c01_views_agree`, `c01_ns_lookup`, `c01_parent_iff_member`, `c01_keys_unique`); a
  single-element operation that raises leaves elements and sets untouched (`c01_atomic_single`).
-/
import Basyx.Lemmas.NsRename
import Basyx.Lemmas.NsDelItem
namespace Basyx.Ns

theorem c01_inv_init : Inv init := by
  refine ⟨⟨?_, ?_, ?_, ?_, ?_, ?_⟩, ?_⟩
  all_goals first
    | (intro g S o hS; simp [init] at hS)
    | (intros; simp_all [init])

private theorem onSet_inv {s : St} (hI : Inv s) (n j : Nat) (f : Nat → St × Out) (hf : ∀ g, Inv (f g).1) :
    Inv (onSet s n j f).1 := by
  unfold onSet
  split
  · exact hf _
  · exact hI

/-- **Every operation preserves the invariant — whether it returns or raises.** -/
theorem c01_inv_step {s : St} (hI : Inv s) (op : Op) : Inv (step s op).1 := by
  cases op with
  | mk kind key sem cls vt =>
    exact Inv_mkElem hI _ rfl (by intro i; cases key <;> simp)
  | construct kind key items cfg => exact construct_inv hI kind key items cfg
  | add n j e => exact onSet_inv hI n j _ (fun g => (setAdd_inv hI g e).1)
  | remove n j e => exact onSet_inv hI n j _ (fun g => (setRemove_inv hI g e).1)
  | removeKey n j k => exact onSet_inv hI n j _ (fun g => (setRemoveKey_inv hI g k).1)
  | discard n j e => exact onSet_inv hI n j _ (fun g => (setDiscard_inv hI g e).1)
  | pop n j => exact onSet_inv hI n j _ (fun g => (setPop_inv hI g).1)
  | popAt n j i => exact onSet_inv hI n j _ (fun g => (setPopAt_inv hI g i).1)
  | clear n j => exact onSet_inv hI n j _ (fun g => (setClear_inv hI g).1)
  | insert n j i e => exact onSet_inv hI n j _ (fun g => (setInsert_inv hI g i e).1)
  | append n j e => exact onSet_inv hI n j _ (fun g => (setAppend_inv hI g e).1)
  | setItem n j i e => exact onSet_inv hI n j _ (fun g => (setSetItem_inv hI g i e).1)
  | delItem n j i => exact onSet_inv hI n j _ (fun g => (setDelItem_inv hI g i).1)
  | setSlice n j sl es => exact onSet_inv hI n j _ (fun g => setSetSlice_inv hI g sl es (assignSpec_all sl))
  | delSlice n j sl => exact onSet_inv hI n j _ (fun g => (setDelSlice_inv hI g sl).1)
  | extend n j es => exact onSet_inv hI n j _ (fun g => setExtend_inv hI g es)
  | setValue n es => exact setValue_inv hI n es
  | rename e k => exact rename_inv hI e k
  | setSem e sem => exact setSem_inv hI e sem
  | nsAdd n e => exact (nsAdd_inv hI n e).1
  | nsRemove n a k => exact (nsRemove_inv hI n a k).1

/-- **The invariant holds in every reachable state**: after any finite history of operations, of any length. -/
theorem c01_inv_reachable (ops : List Op) : Inv (run init ops) := by
  suffices h : ∀ s, Inv s → Inv (run s ops) from h _ c01_inv_init
  induction ops with
  | nil => intro s h; exact h
  | cons op r ih => intro s h; exact ih _ (c01_inv_step h op)

/-- the same from any state that satisfies the invariant -/
theorem c01_inv_run {s : St} (hI : Inv s) (ops : List Op) : Inv (run s ops) := by
  induction ops generalizing s with
  | nil => exact hI
  | cons op r ih => exact ih (c01_inv_step hI op)

/-! ### the views of one collection agree -/

private theorem iter_mem_vals {s : St} (hI : Inv s) {g : Nat} {S : NSet} (hS : s.sets[g]? = some S) (e : Nat) :
    e ∈ iterOf S ↔ e ∈ vals S := by
  unfold iterOf
  cases ho : S.order with
  | none => exact Iff.rfl
  | some o => exact (hI.o _ _ _ hS ho).2 e

private theorem iter_nodup {s : St} (hI : Inv s) {g : Nat} {S : NSet} (hS : s.sets[g]? = some S) : (iterOf S).Nodup := by
  unfold iterOf
  cases ho : S.order with
  | none => exact hI.u.vals_nodup hS
  | some o => exact (hI.o _ _ _ hS ho).1

/-- **Iteration, `len()`, `in`, lookup by key and the positional view of every collection agree**, and what they show are
    exactly the children: elements whose parent link names the namespace and whose current key is the backend key. -/
theorem c01_views_agree {s : St} (hI : Inv s) {g : Nat} {S : NSet} (hS : s.sets[g]? = some S) :
    (iterOf S).Nodup ∧ (iterOf S).length = lenOf S ∧
    (∀ e el, s.elems[e]? = some el → (containsE S e el = true ↔ e ∈ iterOf S)) ∧
    (∀ k e, lookup S k = some e ↔ (e ∈ iterOf S ∧ ∃ el, s.elems[e]? = some el ∧ el.key = some k)) ∧
    (∀ e, e ∈ iterOf S → ∃ el k, s.elems[e]? = some el ∧ el.parent = some S.ns ∧ el.kind = S.attr ∧
        el.key = some k ∧ lookup S k = some e) ∧
    (∀ i : Nat, S.order.isSome → posOf S (Int.ofNat i) = (iterOf S)[i]?) := by
  have hnd := iter_nodup hI hS
  have hmem := iter_mem_vals hI hS
  have hkn := hI.u.keysNodup _ _ hS
  have hchild : ∀ e, e ∈ iterOf S → ∃ el k, s.elems[e]? = some el ∧ el.parent = some S.ns ∧ el.kind = S.attr ∧
      el.key = some k ∧ lookup S k = some e := by
    intro e he
    obtain ⟨k, hm⟩ := mem_vals_iff.1 ((hmem e).1 he)
    obtain ⟨el, h1, h2, h3, h4⟩ := hI.u.member _ _ _ _ hS hm
    exact ⟨el, k, h1, h3, h4, h2, AList.get_of_mem_nodup hkn hm⟩
  refine ⟨hnd, ?_, ?_, ?_, hchild, ?_⟩
  · -- two duplicate free lists with the same members have the same length
    have hvn := hI.u.vals_nodup hS
    have h1 : (iterOf S).length ≤ (vals S).length := hnd.length_le_of_subset (fun x hx => (hmem x).1 hx)
    have h2 : (vals S).length ≤ (iterOf S).length := hvn.length_le_of_subset (fun x hx => (hmem x).2 hx)
    have : (vals S).length = lenOf S := by simp [vals, lenOf]
    omega
  · intro e el hE
    constructor
    · intro hc
      have : containsAt s g e = true := by simp [containsAt, hS, hE, hc]
      exact (hmem e).2 (containsAt_mem hS this)
    · intro he
      obtain ⟨el', k, h1, _, h3, h4, h5⟩ := hchild e he
      rw [hE] at h1; cases h1
      simp [containsE, h3, h4, h5]
  · intro k e
    constructor
    · intro hl
      have hm := lookup_mem hl
      obtain ⟨el, h1, h2, _, _⟩ := hI.u.member _ _ _ _ hS hm
      exact ⟨(hmem e).2 (mem_vals_iff.2 ⟨k, hm⟩), el, h1, h2⟩
    · rintro ⟨he, el, hE, hk⟩
      obtain ⟨el', k', h1, _, _, h4, h5⟩ := hchild e he
      rw [hE] at h1; cases h1
      rw [hk] at h4; cases h4; exact h5
  · intro i ho
    unfold posOf iterOf
    cases hoo : S.order with
    | none => rw [hoo] at ho; cases ho
    | some o =>
      simp only [normIdx]
      by_cases hlt : i < o.length
      · simp [hlt]
      · simp [hlt]

/-- **Namespace level lookup (`get_referable`, `get_qualifier_by_type`, `get_extension_by_name`) returns exactly the
    contained child**: `e` is found under key `k` iff `e`'s parent link names the namespace and `k` is `e`'s current key. -/
theorem c01_ns_lookup {s : St} (hI : Inv s) (n : Nat) (a : Kind) (k : Key) (e : Nat) :
    nsLookup s n a k = some e ↔ ∃ el, s.elems[e]? = some el ∧ el.parent = some n ∧ el.kind = a ∧ el.key = some k := by
  unfold nsLookup
  constructor
  · intro h
    obtain ⟨l1, g, l2, hl, hf, _⟩ := List.findSome?_eq_some_iff.1 h
    have hg : g ∈ setsOf s n := by rw [hl]; simp
    obtain ⟨S, hS, hn⟩ := mem_setsOf.1 hg
    rw [hS] at hf
    simp only at hf
    split at hf
    · next ha =>
      obtain ⟨el, h1, h2, h3, h4⟩ := hI.u.member _ _ _ _ hS (lookup_mem hf)
      exact ⟨el, h1, by rw [h3, hn], by rw [h4, ha], h2⟩
    · cases hf
  · rintro ⟨el, hE, hp, hkd, hk⟩
    obtain ⟨g0, S, k', hS, hn, hm⟩ := hI.u.parent _ _ _ hE hp
    obtain ⟨el', h1, h2, _, h4⟩ := hI.u.member _ _ _ _ hS hm
    rw [hE] at h1; cases h1
    rw [hk] at h2; cases h2
    have hg0 : g0 ∈ setsOf s n := mem_setsOf.2 ⟨S, hS, hn⟩
    -- every set of the namespace that knows the key is the one that holds `e`
    have hall : ∀ g ∈ setsOf s n, ∀ e', (match s.sets[g]? with
        | some T => if T.attr = a then lookup T k else none | none => none) = some e' → e' = e := by
      intro g hg e' hf
      obtain ⟨T, hT, hTn⟩ := mem_setsOf.1 hg
      rw [hT] at hf
      simp only at hf
      split at hf
      · next ha =>
        have hm' := lookup_mem hf
        have hgg : g = g0 := hI.u.unique _ _ _ _ k hT hS (by rw [hTn, hn]) (by rw [ha, ← hkd, h4])
          (by simp [AList.keys]; exact ⟨_, hm'⟩) (by simp [AList.keys]; exact ⟨_, hm⟩)
        subst hgg
        rw [hS] at hT; cases hT
        have h1 := AList.get_of_mem_nodup (hI.u.keysNodup _ _ hS) hm
        have h2 := AList.get_of_mem_nodup (hI.u.keysNodup _ _ hS) hm'
        rw [h1] at h2; cases h2; rfl
      · cases hf
    cases hfs : List.findSome? (fun g => match s.sets[g]? with
        | some T => if T.attr = a then lookup T k else none | none => none) (setsOf s n) with
    | some e' =>
      obtain ⟨l1, g, l2, hl, hf, _⟩ := List.findSome?_eq_some_iff.1 hfs
      rw [hall g (by rw [hl]; simp) e' hf]
    | none =>
      have := List.findSome?_eq_none_iff.1 hfs g0 hg0
      rw [hS] at this
      simp only at this
      rw [if_pos (by rw [← hkd, h4]), show lookup S k = some e from AList.get_of_mem_nodup (hI.u.keysNodup _ _ hS) hm] at this
      cases this

/-- **A child's parent link names the namespace exactly when the namespace contains it.** -/
theorem c01_parent_iff_member {s : St} (hI : Inv s) {e : Nat} {el : Elem} (hE : s.elems[e]? = some el) (n : Nat) :
    el.parent = some n ↔ ∃ (g : Nat) (S : NSet), s.sets[g]? = some S ∧ S.ns = n ∧ e ∈ iterOf S := by
  constructor
  · intro hp
    obtain ⟨g, S, k, hS, hn, hm⟩ := hI.u.parent _ _ _ hE hp
    exact ⟨g, S, hS, hn, (iter_mem_vals hI hS e).2 (mem_vals_iff.2 ⟨k, hm⟩)⟩
  · rintro ⟨g, S, hS, hn, he⟩
    obtain ⟨k, hm⟩ := mem_vals_iff.1 ((iter_mem_vals hI hS e).1 he)
    obtain ⟨el', h1, _, h3, _⟩ := hI.u.member _ _ _ _ hS hm
    rw [hE] at h1; cases h1
    rw [h3, hn]

/-- **Identifying attributes are unique across the whole namespace**: two different children of one namespace with the same
    kind of identifying attribute carry different keys (whatever collections of the namespace they are in). -/
theorem c01_keys_unique {s : St} (hI : Inv s) {e e' n : Nat} {el el' : Elem} (hE : s.elems[e]? = some el)
    (hE' : s.elems[e']? = some el') (hp : el.parent = some n) (hp' : el'.parent = some n) (hk : el.kind = el'.kind)
    (hne : e ≠ e') : el.key ≠ el'.key := by
  intro heq
  obtain ⟨g, S, k, hS, hn, hm⟩ := hI.u.parent _ _ _ hE hp
  obtain ⟨g', S', k', hS', hn', hm'⟩ := hI.u.parent _ _ _ hE' hp'
  obtain ⟨x, h1, h2, _, h4⟩ := hI.u.member _ _ _ _ hS hm
  obtain ⟨x', h1', h2', _, h4'⟩ := hI.u.member _ _ _ _ hS' hm'
  rw [hE] at h1; cases h1
  rw [hE'] at h1'; cases h1'
  rw [h2, h2'] at heq; cases heq
  have hgg : g = g' := hI.u.unique _ _ _ _ k hS hS' (by rw [hn, hn']) (by rw [← h4, ← h4', hk])
    (by simp [AList.keys]; exact ⟨_, hm⟩) (by simp [AList.keys]; exact ⟨_, hm'⟩)
  subst hgg
  rw [hS] at hS'; cases hS'
  have a := AList.get_of_mem_nodup (hI.u.keysNodup _ _ hS) hm
  have b := AList.get_of_mem_nodup (hI.u.keysNodup _ _ hS) hm'
  rw [a] at b; cases b; exact hne rfl

/-- the `_order` list of an ordered collection is a permutation of the backend's values -/
theorem c01_order_perm {s : St} (hI : Inv s) {g : Nat} {S : NSet} {o : List Nat} (hS : s.sets[g]? = some S)
    (ho : S.order = some o) : o.Perm (vals S) :=
  (List.perm_ext_iff_of_nodup (hI.o _ _ _ hS ho).1 (hI.u.vals_nodup hS)).2 (hI.o _ _ _ hS ho).2

/-! ### atomicity of single-element operations -/

/-- single-element insertion, replacement, removal (rename: `c01_atomic_rename` below) -/
def isSingle : Op → Bool
  | .add .. | .insert .. | .append .. | .nsAdd .. | .setItem .. | .remove .. | .removeKey .. | .discard .. | .pop ..
  | .popAt .. | .delItem .. | .nsRemove .. => true
  | _ => false

private theorem onSet_atomic {s : St} (n j : Nat) (f : Nat → St × Out)
    (hf : ∀ g, (f g).2 ≠ .ok → (∀ x, (f g).2 ≠ .elem x) → (f g).1.sets = s.sets ∧ (f g).1.elems = s.elems) :
    (onSet s n j f).2 ≠ .ok → (∀ x, (onSet s n j f).2 ≠ .elem x) →
      (onSet s n j f).1.sets = s.sets ∧ (onSet s n j f).1.elems = s.elems := by
  unfold onSet
  split
  · exact hf _
  · intro _ _; exact ⟨rfl, rfl⟩

/-- **A single-element insertion, replacement or removal that does not succeed (raises) leaves every element and every
    collection exactly as before the call.** -/
theorem c01_atomic_single {s : St} (hI : Inv s) (op : Op) (hop : isSingle op = true)
    (hr : (step s op).2 ≠ .ok) (hr' : ∀ x, (step s op).2 ≠ .elem x) :
    (step s op).1.sets = s.sets ∧ (step s op).1.elems = s.elems := by
  have of_eq : ∀ {s' : St}, s' = s → s'.sets = s.sets ∧ s'.elems = s.elems := fun h => by rw [h]; exact ⟨rfl, rfl⟩
  cases op with
  | add n j e => exact onSet_atomic n j _ (fun g h _ => (setAdd_inv hI g e).2 h) hr hr'
  | insert n j i e => exact onSet_atomic n j _ (fun g h _ => (setInsert_inv hI g i e).2 h) hr hr'
  | append n j e => exact onSet_atomic n j _ (fun g h _ => (setAppend_inv hI g e).2 h) hr hr'
  | setItem n j i e => exact onSet_atomic n j _ (fun g h _ => (setSetItem_inv hI g i e).2 h) hr hr'
  | remove n j e => exact onSet_atomic n j _ (fun g h _ => of_eq ((setRemove_inv hI g e).2.1 h)) hr hr'
  | removeKey n j k => exact onSet_atomic n j _ (fun g h _ => of_eq ((setRemoveKey_inv hI g k).2.1 h)) hr hr'
  | discard n j e => exact onSet_atomic n j _ (fun g h _ => of_eq ((setDiscard_inv hI g e).2 h)) hr hr'
  | delItem n j i => exact onSet_atomic n j _ (fun g h _ => of_eq ((setDelItem_inv hI g i).2 h)) hr hr'
  | pop n j =>
    refine onSet_atomic n j _ (fun g h h' => ?_) hr hr'
    obtain ⟨_, h2, h3⟩ := setPop_inv hI g
    cases ho : (setPop s g).2 with
    | ok => exact absurd ho h
    | elem x => exact absurd ho (h' x)
    | raise x => exact of_eq (h2 (by rw [ho]; trivial))
    | bad => exact of_eq (h3 ho)
  | popAt n j i =>
    refine onSet_atomic n j _ (fun g h h' => ?_) hr hr'
    obtain ⟨_, h2, h3⟩ := setPopAt_inv hI g i
    cases ho : (setPopAt s g i).2 with
    | ok => exact absurd ho h
    | elem x => exact absurd ho (h' x)
    | raise x => exact of_eq (h2 (by rw [ho]; trivial))
    | bad => exact of_eq (h3 ho)
  | nsAdd n e => exact (nsAdd_inv hI n e).2 hr
  | nsRemove n a k => exact of_eq ((nsRemove_inv hI n a k).2 hr)
  | _ => simp [isSingle] at hop

/-- **A rename (id_short, Qualifier.type, Extension.name) that does not succeed leaves the state exactly as it was.**
    Side condition `hH`: the collection holding a Qualifier / Extension carries no SubmodelElementList hooks — true of every
    state the constructors can build (`nsLayout` installs hooks on the referable `_value` set only), but not carried as part
    of `Inv`; for Referables nothing is assumed (the setter itself refuses list children with AASd-120). -/
theorem c01_atomic_rename {s : St} (hI : Inv s) (e : Nat) (nk : Option String)
    (hH : ∀ (g : Nat) (S : NSet) (k : Key), s.sets[g]? = some S → (k, e) ∈ S.backend → S.attr ≠ .ref → S.hooks = none)
    (hr : (step s (.rename e nk)).2 ≠ .ok) : (step s (.rename e nk)).1 = s :=
  rename_atomic hI e nk hH hr

/-! ### non-vacuity: the hypotheses are satisfiable and the operations do something -/

/-- an Operation whose three variable sets share one scope, with colliding, case-differing and `None` idShorts -/
def demoOps : List Op :=
  [.mk .ref (some "abc") none 0 0, .mk .ref (some "abc") none 0 0, .mk .ref (some "ABC") none 0 0, .mk .ref none none 0 0,
   .construct .op (some "o") [[], [], [0], [], []] ⟨0, none, none⟩,
   .add 0 3 1,            -- same idShort in another set of the same namespace: AASd-022, nothing changes
   .add 0 4 2,            -- differs only in case: accepted
   .add 0 3 3,            -- no idShort: AASd-117
   .rename 2 (some "abc"),  -- collides across the sets: AASd-022
   .rename 0 (some "x1"),
   .add 0 3 1]            -- now free

example : (step (run init (demoOps.take 5)) (.add 0 3 1)).2 = .raise (.aascv 22) := by decide
example : (step (run init (demoOps.take 7)) (.add 0 3 3)).2 = .raise (.aascv 117) := by decide
example : (run init demoOps).sets.map (fun S => vals S) = [[], [], [0], [1], [2]] := by decide
example : (run init demoOps).elems.map (fun el => el.parent) = [some 0, some 0, some 0, none, none] := by decide
example : Inv (run init demoOps) := c01_inv_reachable demoOps
example : (step (run init (demoOps.take 8)) (.rename 2 (some "abc"))) = (run init (demoOps.take 8), .raise (.aascv 22)) := by decide

/-- a SubmodelElementList: generated idShorts, slice assignment that grows the list, rollback of a failing one -/
def demoList : List Op :=
  [.mk .ref none none 0 0, .mk .ref none none 0 0, .mk .ref none none 0 0, .mk .ref none none 0 0, .mk .ref none none 1 0,
   .construct .sml (some "l") [[], [], [3]] ⟨0, none, some 0⟩,
   .setSlice 0 2 ⟨some 0, some 1, none⟩ [0, 1, 2],      -- `lst[0:1] = [a, b, c]`
   .setSlice 0 2 ⟨some 0, some 1, none⟩ [3, 4]]         -- second item has the wrong class: AASd-108, rolled back

example : ((run init demoList).sets.map (fun S => (iterOf S, lenOf S))) = [([], 0), ([], 0), ([0, 1, 2], 3)] := by decide
example : (step (run init (demoList.take 7)) (.setSlice 0 2 ⟨some 0, some 1, none⟩ [3, 4])).2 = .raise (.aascv 108) := by decide
example : (run init demoList).elems.map (fun el => el.parent) = [some 0, some 0, some 0, none, none, none] := by decide

/-- the failed semantic-id assignment inside a list (DESIGN A.2): the child is ejected — the invariant survives, but the
    state is NOT the one before the call; `setSem` is therefore not among the atomic operations (and not in C01's clause). -/
example :
    let s := run init [.mk .ref none (some 1) 0 0, .mk .ref none (some 1) 0 0,
                       .construct .sml (some "l") [[], [], [0, 1]] ⟨0, none, some 0⟩]
    (step s (.setSem 0 (some 2))).2 = .raise (.aascv 114) ∧ (step s (.setSem 0 (some 2))).1.sets ≠ s.sets := by decide

/-- **Deletion by position behaves like a list** (after fix 3c1b869; before it `del set[-1]` removed nothing and an index out
    of range was a silent no-op): for an ordered set holding `o`, `del set[i]` raises IndexError exactly when `i` is outside
    `-len .. len-1` - and then changes nothing -, and otherwise removes the one child at the normalised position: that child
    leaves the backend, and the positional view becomes `o` without position `j`. -/
theorem c01_delitem_like_a_list (s : St) (g : Nat) (i : Int) (S : NSet) (o : List Nat)
    (hS : s.sets[g]? = some S) (ho : S.order = some o) :
    (normIdx i o.length = none → setDelItem s g i = (s, .raise .indexError)) ∧
    (∀ j (hj : normIdx i o.length = some j),
      (∀ s1, removeAll s g [o[j]'(normIdx_lt hj)] = (s1, .ok) →
        setDelItem s g i = (setOrder s1 g (fun _ => o.eraseIdx j), .ok)) ∧
      (∀ r, removeAll s g [o[j]'(normIdx_lt hj)] = r → r.2 ≠ .ok → setDelItem s g i = r)) := by
  constructor
  · intro hn
    simp [setDelItem, hS, ho, hn]
  · intro j hj
    have hlt := normIdx_lt hj
    constructor
    · intro s1 h1
      simp only [setDelItem, hS, ho, hj, setDelSlice, sliceGet_one o j hlt, sliceDel_one o j hlt, h1]
    · intro r hr hne
      simp only [setDelItem, hS, ho, hj, setDelSlice, sliceGet_one o j hlt, sliceDel_one o j hlt, hr]
      obtain ⟨r1, r2⟩ := r
      cases r2 <;> simp_all

example : normIdx (-1) 3 = some 2 ∧ normIdx 3 3 = none ∧ normIdx (-4) 3 = none := by decide

end Basyx.Ns
