/-
  C17 — update() and commit() reach exactly the right backends with resolvable paths.
  Model: `Basyx/Model/Tree.lean` (commitIntents / updateIntents = the calls the walks want to make, in order;
  `runCalls` = looking the backends up in that order until `get_backend` raises).  Lemmas: `Basyx/Lemmas/Tree.lean`.

  Everything is stated for every tree, every placement of source strings (a node is *sourced* iff its source is not
  the empty string), every target node `p` and both values of `recursive`.
  A `Call` is (source of the store object, path of the store object, path of the object, relative_path).
-/
import Basyx.Lemmas.Tree
import Basyx.Gen.Backends
namespace Basyx.Tree

/-! ### what the statement demands -/

/-- a call for a sourced proper ancestor `a` (at `q`) of the target: store = ancestor, object = target,
    relative path = the segments from the ancestor down to the target -/
def AncestorCall (root : Tree) (p : Path) (c : Call) : Prop :=
  ∃ q r a, p = q ++ r ∧ r ≠ [] ∧ sub root q = some a ∧ a.source ≠ [] ∧ c = ⟨a.source, q, p, optSegs a r⟩

/-- the call for the target's own source -/
def OwnCall (root : Tree) (p : Path) (c : Call) : Prop :=
  ∃ n, sub root p = some n ∧ n.source ≠ [] ∧ c = ⟨n.source, p, p, []⟩

/-- a call for a sourced proper descendant `d`: store = object = descendant, empty relative path -/
def DescCall (root : Tree) (p : Path) (c : Call) : Prop :=
  ∃ q d, q ≠ [] ∧ sub root (p ++ q) = some d ∧ d.source ≠ [] ∧ c = ⟨d.source, p ++ q, p ++ q, []⟩

/-- `c.rel` leads from the store object to the object: following it with get_referable (C07) from the store object
    arrives at the object -/
def PathResolves (root : Tree) (c : Call) : Prop :=
  ∃ st segs q, sub root c.store = some st ∧ c.rel = segs.map some ∧ c.obj = c.store ++ q ∧ getReferable st segs = .ok q

/-! ### private helpers -/

private theorem directCall_split {root n : Tree} {p : Path} (hn : sub root p = some n) (c : Call) :
    IsDirectCall n p c ↔ (OwnCall root p c ∨ DescCall root p c) := by
  constructor
  · rintro ⟨q, d, hd, hs, hc⟩
    cases q with
    | nil => simp [sub] at hd; subst hd; exact Or.inl ⟨n, hn, hs, by simpa using hc⟩
    | cons j q =>
      exact Or.inr ⟨j :: q, d, by simp, by rw [sub_append, hn]; exact hd, hs, hc⟩
  · rintro (⟨n', hn', hs, hc⟩ | ⟨q, d, _, hd, hs, hc⟩)
    · rw [hn] at hn'; cases hn'
      exact ⟨[], n, rfl, hs, by simpa using hc⟩
    · rw [sub_append, hn] at hd
      exact ⟨q, d, hd, hs, hc⟩

private theorem commitIntents_eq {root n : Tree} {p : Path} (hn : sub root p = some n) :
    commitIntents root p = some (upCalls p root [] p ++ directWalk n p) := by
  rcases commitUp_chainUp p p none root [] [] n hn with ⟨l, up, hch, hl, _, hcu⟩
  simp [commitIntents, hch, hcu, commitUp, hl]

private theorem updateIntents_eq {root n : Tree} {p : Path} (hn : sub root p = some n) (recursive : Bool) :
    updateIntents root p recursive = some
      ((if n.source ≠ [] then [⟨n.source, p, p, []⟩] else (nearestCall p none root [] p).toList)
        ++ (if recursive then childrenWalk n p else [])) := by
  rcases findSourceUp_chainUp p p none root [] [] n hn with ⟨l, up, hch, hl, _, hf⟩
  simp only [updateIntents, hch, hl]
  by_cases hs : n.source = []
  · simp only [hs, ne_eq, not_true_eq_false, if_false]
    have : (findSourceUp (l :: up) []).map (toCall p) = nearestCall p none root [] p := by
      rw [hf]; simp [findSourceUp]
    cases hfs : findSourceUp (l :: up) [] with
    | none => rw [hfs] at this; simp [← this]
    | some x => rw [hfs] at this; simp [← this, toCall]
  · simp [hs]

private theorem childrenWalk_mem {n : Tree} {p : Path} (hw : WFSub n) (c : Call) :
    c ∈ childrenWalk n p ↔ ∃ q d, q ≠ [] ∧ sub n q = some d ∧ d.source ≠ [] ∧ c = ⟨d.source, p ++ q, p ++ q, []⟩ := by
  have hkids : ∀ x ∈ n.children, WFSub x := fun x hx => by
    rcases List.getElem?_of_mem hx with ⟨j, hj⟩; exact hw.child hj
  have hL := mem_directWalkL n.children p 0 c hkids
  unfold childrenWalk
  constructor
  · intro h
    by_cases hk : isNamespace n.kind = true
    · simp only [hk, if_true] at h
      rcases hL.1 h with ⟨j, x, q, d, hx, hd, hs, hc⟩
      exact ⟨j :: q, d, by simp, by rw [sub_cons hx]; exact hd, hs, by simpa using hc⟩
    · simp [hk] at h
  · rintro ⟨q, d, hq, hd, hs, hc⟩
    cases q with
    | nil => exact absurd rfl hq
    | cons j q =>
      cases hx : n.children[j]? with
      | none => rw [sub_cons_none hx] at hd; cases hd
      | some x =>
        rw [sub_cons hx] at hd
        have hne : n.children ≠ [] := by intro h; rw [h] at hx; simp at hx
        simp only [hw.node.1 hne, if_true]
        exact hL.2 ⟨j, x, q, d, hx, hd, hs, by simpa using hc⟩

private theorem childrenWalk_nodup {n : Tree} {p : Path} (hw : WFSub n) : (childrenWalk n p).Nodup := by
  have hkids : ∀ x ∈ n.children, WFSub x := fun x hx => by
    rcases List.getElem?_of_mem hx with ⟨j, hj⟩; exact hw.child hj
  unfold childrenWalk
  split
  · exact nodup_directWalkL n.children p 0 hkids
  · simp

/-! ### C17: commit() -/

/-- commit() of the node at `p` makes exactly: one call per sourced proper ancestor (store = ancestor, object = node),
    one for the node's own source, one per sourced descendant — each exactly once (`Nodup`), and nothing else (`↔`). -/
theorem c17_commit_exact {root n : Tree} {p : Path} (hw : WF root) (hn : sub root p = some n) :
    ∃ calls, commitIntents root p = some calls ∧ calls.Nodup ∧
      ∀ c, c ∈ calls ↔ (AncestorCall root p c ∨ OwnCall root p c ∨ DescCall root p c) := by
  have hwn : WFSub n := hw.2.2.sub hn
  refine ⟨_, commitIntents_eq hn, ?_, ?_⟩
  · rw [List.nodup_append]
    refine ⟨nodup_upCalls p p root [] n hn, nodup_directWalk n p hwn, ?_⟩
    intro a ha b hb hab
    rcases (mem_upCalls p p root [] n a hn).1 ha with ⟨q, r, _, hp, hr, _, _, hca⟩
    rcases isDirectCall_store ((mem_directWalk n p b hwn).1 hb) with ⟨q', hq', _, _⟩
    have : a.store = b.store := by rw [hab]
    rw [hca, hq'] at this
    have hlen := congrArg List.length this
    have hplen := congrArg List.length hp
    have : 0 < r.length := List.length_pos_iff.2 hr
    simp at hlen hplen
    omega
  · intro c
    rw [List.mem_append, mem_upCalls p p root [] n c hn, mem_directWalk n p c hwn, directCall_split hn c]
    constructor
    · rintro (⟨q, r, a, h1, h2, h3, h4, h5⟩ | h)
      · exact Or.inl ⟨q, r, a, h1, h2, h3, h4, by simpa using h5⟩
      · exact Or.inr h
    · rintro (⟨q, r, a, h1, h2, h3, h4, h5⟩ | h)
      · exact Or.inl ⟨q, r, a, h1, h2, h3, h4, by simpa using h5⟩
      · exact Or.inr h

/-- every relative path commit() hands to a backend leads from the store object to the committed object -/
theorem c17_commit_path_resolves {root n : Tree} {p : Path} {calls : List Call} (hw : WF root)
    (hn : sub root p = some n) (h : commitIntents root p = some calls) : ∀ c ∈ calls, PathResolves root c := by
  rcases c17_commit_exact hw hn with ⟨calls', h', _, hmem⟩
  rw [h] at h'; cases h'
  intro c hc
  rcases (hmem c).1 hc with ⟨q, r, a, hp, _, ha, _, hcc⟩ | ⟨n', hn', _, hcc⟩ | ⟨q, d, _, hd, _, hcc⟩
  · have hna : sub a r = some n := by
      have := hn; rw [hp, sub_append, ha] at this; exact this
    rcases segsAlong_matches r a n (hw.2.2.sub ha) hna with ⟨segs, hsegs, hm⟩
    exact ⟨a, segs, r, by simp [hcc, ha], by simp [hcc, optSegs_of_segsAlong r a segs hsegs], by simp [hcc, hp],
      getReferable_complete segs a r (hw.2.2.sub ha) hm⟩
  · exact ⟨n', [], [], by simp [hcc, hn'], by simp [hcc], by simp [hcc], by simp [getReferable]⟩
  · exact ⟨d, [], [], by simp [hcc, hd], by simp [hcc], by simp [hcc], by simp [getReferable]⟩

/-! ### C17: update() -/

/-- update(recursive) of the node at `p`: if the node is sourced, its own source (and no ancestor's); otherwise the
    nearest sourced ancestor — none nearer is sourced — or nobody if no ancestor is sourced; plus exactly the sourced
    proper descendants (each once) iff `recursive`. -/
theorem c17_update_exact {root n : Tree} {p : Path} (hw : WF root) (hn : sub root p = some n) (recursive : Bool) :
    ∃ own desc, updateIntents root p recursive = some (own ++ desc)
      ∧ (n.source ≠ [] → own = [⟨n.source, p, p, []⟩])
      ∧ (n.source = [] → (own = [] ∧ ∀ q r a, p = q ++ r → sub root q = some a → a.source = [])
          ∨ ∃ q r a s0, own = [⟨a.source, q, p, s0 :: optSegs a r⟩] ∧ p = q ++ r ∧ r ≠ [] ∧ sub root q = some a
              ∧ a.source ≠ [] ∧ (q = [] → s0 = root.idShort)
              ∧ ∀ q2 r2 b, p = q2 ++ r2 → q.length < q2.length → sub root q2 = some b → b.source = [])
      ∧ desc.Nodup
      ∧ (∀ c, c ∈ desc ↔ (recursive = true ∧ DescCall root p c)) := by
  have hwn : WFSub n := hw.2.2.sub hn
  refine ⟨_, _, updateIntents_eq hn recursive, ?_, ?_, ?_, ?_⟩
  · intro hs; simp [hs]
  · intro hs
    simp only [hs, ne_eq, not_true_eq_false, if_false]
    cases hnc : nearestCall p none root [] p with
    | none =>
      left
      refine ⟨rfl, ?_⟩
      intro q r a hp ha
      exact nearestCall_some.nearestCall_none p p none root [] n hn hnc q r a hp ha
    | some c =>
      right
      rcases nearestCall_some p p none root [] n c hn hnc with ⟨q, r, a, s0, hp, ha, hsa, hc, hs0, hnear⟩
      have hr : r ≠ [] := by
        intro hr; subst hr
        simp only [List.append_nil] at hp; subst hp
        rw [hn] at ha; cases ha; exact hsa hs
      exact ⟨q, r, a, s0, by simp [hc], hp, hr, ha, hsa, fun hq => by simpa [segOf] using hs0 hq, hnear⟩
  · cases recursive
    · simp
    · simpa using childrenWalk_nodup hwn
  · intro c
    cases recursive
    · simp
    · simp only [if_true, true_and]
      rw [childrenWalk_mem hwn c]
      constructor
      · rintro ⟨q, d, hq, hd, hs, hc⟩
        exact ⟨q, d, hq, by rw [sub_append, hn]; exact hd, hs, hc⟩
      · rintro ⟨q, d, hq, hd, hs, hc⟩
        rw [sub_append, hn] at hd
        exact ⟨q, d, hq, hd, hs, hc⟩

/-
  FULL CLAIM (`c17_path_resolves`): for every call of update() and commit(), `PathResolves root c`.
  It holds for commit() (`c17_commit_path_resolves`).  For update() it is FALSE on the pinned tree (known finding
  `c17:update:path:starts-with-store-object`, pinned by ReferableTest.test_update): the path handed over for an
  ancestor's source starts with the store object's own segment.  Proved instead: own-source and descendant calls
  resolve; for the ancestor call the path is `s0 :: tail` where `tail` resolves from the store object to the object
  (`c17_update_path_partial`); and the negation of the full claim on a concrete tree (`c17_update_path_witness`).
-/

/-- partial: every update() call's path resolves after dropping the leading segment that names the store object itself
    (nothing is dropped for own-source and descendant calls) -/
theorem c17_update_path_partial {root n : Tree} {p : Path} {calls : List Call} (hw : WF root)
    (hn : sub root p = some n) (recursive : Bool) (h : updateIntents root p recursive = some calls) :
    ∀ c ∈ calls, PathResolves root c ∨
      (c.store ≠ c.obj ∧ ∃ s0 tail, c.rel = s0 :: tail ∧ PathResolves root { c with rel := tail }) := by
  rcases c17_update_exact hw hn recursive with ⟨own, desc, h', hown, hanc, _, hdesc⟩
  rw [h] at h'; cases h'
  intro c hc
  rcases List.mem_append.1 hc with hc | hc
  · by_cases hs : n.source = []
    · rcases hanc hs with ⟨ho, _⟩ | ⟨q, r, a, s0, ho, hp, hr, ha, _, _, _⟩
      · rw [ho] at hc; cases hc
      · rw [ho] at hc; simp only [List.mem_singleton] at hc
        right
        have hna : sub a r = some n := by
          have := hn; rw [hp, sub_append, ha] at this; exact this
        rcases segsAlong_matches r a n (hw.2.2.sub ha) hna with ⟨segs, hsegs, hm⟩
        refine ⟨?_, s0, optSegs a r, by simp [hc], a, segs, r, by simp [hc, ha],
          by simp [optSegs_of_segsAlong r a segs hsegs], by simp [hc, hp], getReferable_complete segs a r (hw.2.2.sub ha) hm⟩
        intro heq
        have := congrArg List.length heq
        have hplen := congrArg List.length hp
        have : 0 < r.length := List.length_pos_iff.2 hr
        simp [hc] at *
        omega
    · rw [hown hs] at hc; simp only [List.mem_singleton] at hc
      exact Or.inl ⟨n, [], [], by simp [hc, hn], by simp [hc], by simp [hc], by simp [getReferable]⟩
  · rcases ((hdesc c).1 hc).2 with ⟨q, d, _, hd, _, hcc⟩
    exact Or.inl ⟨d, [], [], by simp [hcc, hd], by simp [hcc], by simp [hcc], by simp [getReferable]⟩

/-- a sourced submodel `r` holding one collection `e0` -/
def exUpd : Tree := .node .submodel "urn:s".toList (some ['r']) "vfa:one".toList [.node .collection [] (some "e0".toList) [] []]

/-- negation of the full claim on a concrete tree: update() of the collection hands the backend the path ["r", "e0"]
    for store object = the submodel, and following that path from the submodel fails (KeyError: the submodel has no
    child "r"); no segment list resolves it -/
theorem c17_update_path_witness :
    WF exUpd ∧ updateIntents exUpd [0] true = some [⟨"vfa:one".toList, [], [0], [some ['r'], some "e0".toList]⟩]
    ∧ getReferable exUpd [['r'], "e0".toList] = .error .keyError
    ∧ ¬ PathResolves exUpd ⟨"vfa:one".toList, [], [0], [some ['r'], some "e0".toList]⟩ := by
  refine ⟨wfb_sound (by decide), by decide, by decide, ?_⟩
  rintro ⟨st, segs, q, hst, hrel, _, hget⟩
  simp [sub] at hst; subst hst
  have : segs = [['r'], "e0".toList] := by
    cases segs with
    | nil => simp at hrel
    | cons a segs =>
      cases segs with
      | nil => simp at hrel
      | cons b segs =>
        cases segs with
        | nil =>
          simp at hrel
          obtain ⟨h1, h2⟩ := hrel
          subst h1; subst h2; rfl
        | cons c segs => simp at hrel
  subst this
  have : getReferable exUpd [['r'], "e0".toList] = .error .keyError := by decide
  rw [this] at hget; cases hget

/-! ### C17: sources without a usable scheme -/

/-- `get_backend`: the backend registered for the scheme; UnknownBackendException for an unregistered scheme; ValueError
    when the source has no scheme at all -/
theorem c17_get_backend (reg : List Str) (url : Str) :
    (∀ sc, getBackend reg url = .ok sc ↔ (scheme? url = some sc ∧ sc ∈ reg))
    ∧ (getBackend reg url = .error .unknownBackend ↔ ∃ sc, scheme? url = some sc ∧ sc ∉ reg)
    ∧ (getBackend reg url = .error .valueError ↔ scheme? url = none) := by
  unfold getBackend
  cases hs : scheme? url with
  | none => simp
  | some sc =>
    by_cases hm : sc ∈ reg
    · simp [hm]
    · simp [hm]

/-- the walk reaches every backend in order while the sources are fine … -/
theorem c17_run_all_ok (reg : List Str) : ∀ (cs : List Call), (∀ c ∈ cs, ∃ sc, getBackend reg c.src = .ok sc) →
    (runCalls reg cs).2 = none ∧ (runCalls reg cs).1.map (·.2) = cs
      ∧ ∀ x ∈ (runCalls reg cs).1, getBackend reg x.2.src = .ok x.1
  | [], _ => by simp [runCalls]
  | c :: r, h => by
    rcases h c (by simp) with ⟨sc, hsc⟩
    have ih := c17_run_all_ok reg r (fun x hx => h x (by simp [hx]))
    simp only [runCalls, hsc]
    refine ⟨ih.1, by simp [ih.2.1], ?_⟩
    intro x hx
    rcases List.mem_cons.1 hx with rfl | hx
    · exact hsc
    · exact ih.2.2 x hx

/-- … and the first consulted source with an unknown or missing scheme aborts it with the documented error
    (UnknownBackendException, resp. ValueError for a string without scheme), after exactly the earlier calls were made -/
theorem c17_unknown_scheme (reg : List Str) : ∀ (pre : List Call) (c : Call) (post : List Call) (e : Err),
    (∀ x ∈ pre, ∃ sc, getBackend reg x.src = .ok sc) → getBackend reg c.src = .error e →
    (runCalls reg (pre ++ c :: post)).2 = some e ∧ (runCalls reg (pre ++ c :: post)).1.map (·.2) = pre
      ∧ (e = .unknownBackend ∨ e = .valueError)
  | [], c, post, e, _, hc => by
    refine ⟨by simp [runCalls, hc], by simp [runCalls, hc], ?_⟩
    unfold getBackend at hc
    split at hc
    · cases hc; exact Or.inr rfl
    · split at hc
      · cases hc
      · cases hc; exact Or.inl rfl
  | x :: pre, c, post, e, hpre, hc => by
    rcases hpre x (by simp) with ⟨sc, hsc⟩
    have ih := c17_unknown_scheme reg pre c post e (fun y hy => hpre y (by simp [hy])) hc
    simp only [List.cons_append, runCalls, hsc]
    exact ⟨ih.1, by simp [ih.2.1], ih.2.2⟩

/-! ### non-vacuity -/

/-- sources on the submodel, on a list and on one of its children; target = the second list child -/
def exC17 : Tree :=
  .node .submodel "urn:s".toList none "vfa:one".toList [
    .node .list [] (some "l".toList) "vf.b+c-d:z".toList [
      .node .collection [] (some "g0".toList) [] [],
      .node .collection [] (some "g1".toList) [] [.node .property [] (some "x".toList) "vfa:x".toList []]]]

example : WF exC17 := wfb_sound (by decide)
example : commitIntents exC17 [0, 1] = some [
    ⟨"vf.b+c-d:z".toList, [0], [0, 1], [some ['1']]⟩,
    ⟨"vfa:one".toList, [], [0, 1], [some ['l'], some ['1']]⟩,
    ⟨"vfa:x".toList, [0, 1, 0], [0, 1, 0], []⟩] := by decide
example : updateIntents exC17 [0, 1] false = some [⟨"vf.b+c-d:z".toList, [0], [0, 1], [some ['l'], some ['1']]⟩] := by decide
example : (runCalls ["vfa".toList] [⟨"vfa:one".toList, [], [], []⟩, ⟨"zz:x".toList, [], [], []⟩, ⟨"vfa:y".toList, [], [], []⟩]).2
    = some .unknownBackend := by decide
example : getBackend ["vfa".toList] "noscheme".toList = .error .valueError := by decide
example : scheme? "vf.b+c-d://x".toList = some "vf.b+c-d".toList := by decide

/-! ### The backend is looked up in the registry on every call

`runCalls reg` resolves every call's scheme in the registry `reg` as it is at the time of the call.  That `backends.get_backend`
does so - it carries no memoising decorator - is regenerated from the source (`Gen/Backends.lean`). -/

theorem c17_backend_lookup_not_memoised : Gen.Backends.getBackendDecorators = [] := by decide

end Basyx.Tree
