/-
  C13 — In-memory object store, provider multiplexer and IRI generator behave as a map.
  Model: `Basyx/Model/Store.lean`.  Shape: refinement of every call history to the abstract map
  `Id → Option Uid` (a *function*, so nothing of the dict's layout survives in the spec), stated
  relationally because the spec leaves iteration order open.
-/
import Basyx.Model.Store
import Basyx.Lemmas.Fmt
namespace Basyx.Store
open Basyx.Fmt

/-- The abstract map. -/
abbrev M := Id → Option Uid

def upd (m : M) (i : Id) (v : Option Uid) : M := fun j => if j = i then v else m j

def abs (s : St) : M := fun i => AList.get i s

/-- `l` enumerates the map `m`: each stored object exactly once. -/
def Enumerates (l : List (Id × Uid)) (m : M) : Prop :=
  (AList.keys l).Nodup ∧ ∀ i u, (i, u) ∈ l ↔ m i = some u

/-- Bulk update on the abstract map: sequential adds, stopping at the first rejected one. -/
inductive SpecUpdate : M → List Obj → M → Out → Prop
  | nil (m) : SpecUpdate m [] m .unit
  | dup (m x r u) : m x.id = some u → u ≠ x.uid → SpecUpdate m (x :: r) m .keyError
  | ok (m x r m' o) : (m x.id = none ∨ m x.id = some x.uid) →
      SpecUpdate (upd m x.id (some x.uid)) r m' o → SpecUpdate m (x :: r) m' o

/-- The reference behaviour: what a map from identifier to object does on each call. -/
inductive SpecRel : M → Op → M → Out → Prop
  | addDup (m x u) : m x.id = some u → u ≠ x.uid → SpecRel m (.add x) m .keyError
  | addOk (m x) : (m x.id = none ∨ m x.id = some x.uid) → SpecRel m (.add x) (upd m x.id (some x.uid)) .unit
  | discardHit (m x) : m x.id = some x.uid → SpecRel m (.discard x) (upd m x.id none) .unit
  | discardMiss (m x) : m x.id ≠ some x.uid → SpecRel m (.discard x) m .unit
  | removeHit (m x) : m x.id = some x.uid → SpecRel m (.remove x) (upd m x.id none) .unit
  | removeMiss (m x) : m x.id ≠ some x.uid → SpecRel m (.remove x) m .keyError
  | popEmpty (m) : (∀ i, m i = none) → SpecRel m .pop m .keyError
  | popSome (m i u) : m i = some u → SpecRel m .pop (upd m i none) (.obj u)
  | clear (m) : SpecRel m .clear (fun _ => none) .unit
  | update (m xs m' o) : SpecUpdate m xs m' o → SpecRel m (.update xs) m' o
  | getHit (m i u) : m i = some u → SpecRel m (.get i) m (.obj u)
  | getMiss (m i) : m i = none → SpecRel m (.get i) m .keyError
  | getDefaultHit (m i u) : m i = some u → SpecRel m (.getDefault i) m (.obj u)
  | getDefaultMiss (m i) : m i = none → SpecRel m (.getDefault i) m .none
  | containsObj (m x) : SpecRel m (.containsObj x) m (.bool (m x.id = some x.uid))
  | containsId (m i) : SpecRel m (.containsId i) m (.bool (m i).isSome)
  | len (m l) : Enumerates l m → SpecRel m .len m (.nat l.length)
  | iter (m l) : Enumerates l m → SpecRel m .iter m (.objs (l.map Prod.snd))

/-- A history of calls and outputs that the abstract map can produce. -/
inductive SpecRuns : M → List Op → List Out → Prop
  | nil (m) : SpecRuns m [] []
  | cons (m op m' o ops os) : SpecRel m op m' o → SpecRuns m' ops os → SpecRuns m (op :: ops) (o :: os)

def Inv (s : St) : Prop := (AList.keys s).Nodup

/-! ### helper facts (private) -/

private theorem abs_set (s : St) (i : Id) (u : Uid) : abs (AList.set i u s) = upd (abs s) i (some u) := by
  funext j
  by_cases h : j = i
  · subst h; simp [abs, upd]
  · simp [abs, upd, h, AList.get_set_other _ _ h]

private theorem abs_erase (s : St) (hI : Inv s) (i : Id) : abs (AList.erase i s) = upd (abs s) i none := by
  funext j
  by_cases h : j = i
  · subst h; simp [abs, upd, AList.get_erase_same_of_nodup hI]
  · simp [abs, upd, h, AList.get_erase_other _ h]

private theorem get_of_mem {l : St} (hn : (AList.keys l).Nodup) {i : Id} {u : Uid} (he : (i, u) ∈ l) :
    AList.get i l = some u := by
  induction l with
  | nil => cases he
  | cons hd t ih =>
    obtain ⟨k, v⟩ := hd
    have hn' : k ∉ AList.keys t ∧ (AList.keys t).Nodup := by
      simpa [AList.keys, List.nodup_cons] using hn
    rcases List.mem_cons.1 he with h | he'
    · cases h; simp [AList.get]
    · have hk : k ≠ i := by
        intro h; apply hn'.1; rw [h]; exact AList.mem_keys_of_get (ih hn'.2 he')
      simp [AList.get, hk, ih hn'.2 he']

private theorem mem_of_get {l : St} {i : Id} {u : Uid} (h : AList.get i l = some u) : (i, u) ∈ l := by
  induction l with
  | nil => simp [AList.get] at h
  | cons hd t ih =>
    obtain ⟨k, v⟩ := hd
    by_cases hk : k = i
    · simp [AList.get, hk] at h; simp [hk, h]
    · simp [AList.get, hk] at h; exact List.mem_cons_of_mem _ (ih h)

private theorem enumerates_self (s : St) (hI : Inv s) : Enumerates s (abs s) :=
  ⟨hI, fun _ _ => ⟨fun h => get_of_mem hI h, fun h => mem_of_get h⟩⟩

theorem c13_inv_add (s : St) (x : Obj) (hI : Inv s) : Inv (add s x).1 := by
  unfold add; split
  · split
    · exact hI
    · exact AList.nodup_keys_set hI
  · exact AList.nodup_keys_set hI

theorem c13_inv_discard (s : St) (x : Obj) (hI : Inv s) : Inv (discard s x).1 := by
  unfold discard; split
  · exact AList.nodup_keys_erase hI
  · exact hI

private theorem inv_pop (s : St) (hI : Inv s) : Inv (pop s).1 := by
  unfold pop; split
  · exact hI
  · exact c13_inv_discard _ _ hI

private theorem length_pop (s : St) (h : s ≠ []) : (pop s).1.length < s.length := by
  cases s with
  | nil => exact absurd rfl h
  | cons hd t =>
    obtain ⟨i, u⟩ := hd
    simp [pop, discard, AList.get, AList.erase]

private theorem pop_out (s : St) : (pop s).2 = .keyError ↔ s = [] := by
  cases s with
  | nil => simp [pop]
  | cons hd t => obtain ⟨i, u⟩ := hd; simp [pop]

private theorem clearLoop_spec (f : Nat) (s : St) (hf : s.length < f) : clearLoop f s = ([], .unit) := by
  induction f generalizing s with
  | zero => omega
  | succ f ih =>
    cases s with
    | nil => simp [clearLoop, pop]
    | cons hd t =>
      obtain ⟨i, u⟩ := hd
      have hl := length_pop ((i, u) :: t) (by simp)
      have : clearLoop (f + 1) ((i, u) :: t) = clearLoop f (pop ((i, u) :: t)).1 := by
        simp [clearLoop, pop]
      rw [this]
      exact ih _ (by simp at hl hf ⊢; omega)

/-- `clear()` always terminates (never runs out of fuel) and leaves the empty store. -/
theorem c13_clear_empties (s : St) : clear s = ([], .unit) := clearLoop_spec _ _ (by omega)

private theorem update_spec (s : St) (xs : List Obj) (hI : Inv s) :
    Inv (update s xs).1 ∧ SpecUpdate (abs s) xs (abs (update s xs).1) (update s xs).2 := by
  induction xs generalizing s with
  | nil => exact ⟨hI, SpecUpdate.nil _⟩
  | cons x r ih =>
    simp only [update]
    cases hg : AList.get x.id s with
    | none =>
      have ha : add s x = (AList.set x.id x.uid s, .unit) := by simp [add, hg]
      rw [ha]
      have := ih (AList.set x.id x.uid s) (AList.nodup_keys_set hI)
      refine ⟨this.1, SpecUpdate.ok _ _ _ _ _ (Or.inl hg) ?_⟩
      rw [← abs_set]; exact this.2
    | some u =>
      by_cases hu : u = x.uid
      · have ha : add s x = (AList.set x.id x.uid s, .unit) := by simp [add, hg, hu]
        rw [ha]
        have := ih (AList.set x.id x.uid s) (AList.nodup_keys_set hI)
        refine ⟨this.1, SpecUpdate.ok _ _ _ _ _ (Or.inr (by simp [abs, hg, hu])) ?_⟩
        rw [← abs_set]; exact this.2
      · have ha : add s x = (s, .keyError) := by simp [add, hg, hu]
        rw [ha]
        exact ⟨hI, SpecUpdate.dup _ _ _ u hg hu⟩

/-- The dict never holds two entries for one identifier — in every reachable state. -/
theorem c13_inv_step (s : St) (op : Op) (hI : Inv s) : Inv (step s op).1 := by
  cases op with
  | add x => exact c13_inv_add s x hI
  | discard x => exact c13_inv_discard s x hI
  | remove x => simp only [step, remove]; split; exact c13_inv_discard s x hI; exact hI
  | pop => exact inv_pop s hI
  | clear => simp only [step, c13_clear_empties]; simp [Inv, AList.keys]
  | update xs => exact (update_spec s xs hI).1
  | _ => exact hI

/-- **One call of the store = one step of the abstract map**, same output. -/
theorem c13_refines_step (s : St) (op : Op) (hI : Inv s) :
    SpecRel (abs s) op (abs (step s op).1) (step s op).2 := by
  cases op with
  | add x =>
    simp only [step, add]
    cases hg : AList.get x.id s with
    | none => simp only; rw [abs_set]; exact SpecRel.addOk _ _ (Or.inl hg)
    | some u =>
      simp only
      by_cases hu : u = x.uid
      · simp only [hu, ne_eq, not_true_eq_false, if_false]; rw [abs_set]
        exact SpecRel.addOk _ _ (Or.inr (by simp [abs, hg, hu]))
      · simp only [ne_eq, hu, not_false_eq_true, if_true]; exact SpecRel.addDup _ _ u hg hu
  | discard x =>
    simp only [step, discard]
    split
    · next h => rw [abs_erase _ hI]; exact SpecRel.discardHit _ _ h
    · next h => exact SpecRel.discardMiss _ _ h
  | remove x =>
    simp only [step, remove, containsObj, discard]
    by_cases h : AList.get x.id s = some x.uid
    · simp only [h, decide_true, if_true]; rw [abs_erase _ hI]; exact SpecRel.removeHit _ _ h
    · simp only [h, decide_false, Bool.false_eq_true, if_false]; exact SpecRel.removeMiss _ _ h
  | pop =>
    simp only [step]
    cases s with
    | nil => exact SpecRel.popEmpty _ (fun i => rfl)
    | cons hd t =>
      obtain ⟨i, u⟩ := hd
      have hg : AList.get i ((i, u) :: t) = some u := by simp [AList.get]
      have : pop ((i, u) :: t) = (AList.erase i ((i, u) :: t), .obj u) := by
        simp [pop, discard, AList.get]
      rw [this]; simp only; rw [abs_erase _ hI]
      exact SpecRel.popSome _ i u hg
  | clear => simp only [step, c13_clear_empties]; exact SpecRel.clear _
  | update xs => exact SpecRel.update _ _ _ _ (update_spec s xs hI).2
  | get i =>
    simp only [step, getIdentifiable]
    cases hg : AList.get i s with
    | none => exact SpecRel.getMiss _ _ hg
    | some u => exact SpecRel.getHit _ _ _ hg
  | getDefault i =>
    simp only [step, getDefault, getIdentifiable]
    cases hg : AList.get i s with
    | none => exact SpecRel.getDefaultMiss _ _ hg
    | some u => exact SpecRel.getDefaultHit _ _ _ hg
  | containsObj x =>
    simp only [step, containsObj]
    exact SpecRel.containsObj (abs s) x
  | containsId i => exact SpecRel.containsId (abs s) i
  | len => exact SpecRel.len _ _ (enumerates_self s hI)
  | iter => exact SpecRel.iter _ _ (enumerates_self s hI)

/-- **Refinement, all histories.**  The outputs of every finite call sequence on the store are outputs the
    abstract map `Id → Option Uid` produces on the same calls. -/
theorem c13_refines_map (ops : List Op) : SpecRuns (fun _ => none) ops (run [] ops).2 := by
  suffices h : ∀ s, Inv s → SpecRuns (abs s) ops (run s ops).2 by
    have := h [] (by simp [Inv, AList.keys])
    have e : abs [] = fun _ => none := by funext i; rfl
    rw [e] at this; exact this
  induction ops with
  | nil => intro s _; exact SpecRuns.nil _
  | cons op r ih =>
    intro s hI
    simp only [run]
    exact SpecRuns.cons _ _ _ _ _ _ (c13_refines_step s op hI) (ih _ (c13_inv_step s op hI))

/-! ### Corollaries named in the property statement -/

/-- A second object with a stored identifier is rejected and the first stays. -/
theorem c13_dup_rejected_first_stays (s : St) (x y : Obj) (hid : x.id = y.id) (hne : x.uid ≠ y.uid)
    (hx : getIdentifiable s x.id = .obj x.uid) :
    add s y = (s, .keyError) ∧ getIdentifiable (add s y).1 x.id = .obj x.uid := by
  have hg : AList.get y.id s = some x.uid := by
    unfold getIdentifiable at hx
    rw [← hid]
    cases h : AList.get x.id s with
    | none => simp [h] at hx
    | some u => simp [h] at hx; rw [hx]
  have : add s y = (s, .keyError) := by simp [add, hg, hne]
  exact ⟨this, by rw [this]; exact hx⟩

/-- After a successful add the lookup returns that very object. -/
theorem c13_add_then_get (s : St) (x : Obj) (h : (add s x).2 = .unit) :
    getIdentifiable (add s x).1 x.id = .obj x.uid := by
  unfold add at h ⊢
  split at h <;> (try split at h) <;> simp_all [getIdentifiable]

/-- The same inside ONE bulk insertion: if the argument itself carries two different objects with one identifier, the call
    is rejected at the second one and the first is the one that is stored (whatever follows is not looked at). -/
theorem c13_update_dup_in_argument (s : St) (x y : Obj) (rest : List Obj) (hid : x.id = y.id) (hne : x.uid ≠ y.uid)
    (hx : (add s x).2 = .unit) :
    (update s (x :: y :: rest)).2 = .keyError ∧ getIdentifiable (update s (x :: y :: rest)).1 x.id = .obj x.uid := by
  have hget := c13_add_then_get s x hx
  have hdup := c13_dup_rejected_first_stays (add s x).1 x y hid hne hget
  have h1 : update s (x :: y :: rest) = update (add s x).1 (y :: rest) := by
    cases ha : add s x with
    | mk s' o => simp only [ha] at hx; subst hx; simp [update, ha]
  have h2 : update (add s x).1 (y :: rest) = ((add s x).1, .keyError) := by
    simp [update, hdup.1]
  rw [h1, h2]
  exact ⟨rfl, hget⟩

/-- Discarding an object that is not the stored one (same id, other object — or unknown id) is a no-op. -/
theorem c13_discard_other_noop (s : St) (x : Obj) (h : AList.get x.id s ≠ some x.uid) :
    discard s x = (s, .unit) := by simp [discard, h]

/-- Removal affects only the named object. -/
theorem c13_discard_frame (s : St) (x : Obj) (i : Id) (h : i ≠ x.id) :
    getIdentifiable (discard s x).1 i = getIdentifiable s i := by
  unfold discard getIdentifiable
  by_cases hx : AList.get x.id s = some x.uid
  · simp only [hx, if_true]; rw [AList.get_erase_other _ h]
  · simp only [hx, if_false]

/-- Iteration yields each stored object exactly once (and `len` counts them). -/
theorem c13_iter_each_once (ops : List Op) :
    Enumerates (run [] ops).1 (abs (run [] ops).1) := by
  have : ∀ (s : St), Inv s → Inv (run s ops).1 := by
    induction ops with
    | nil => intro s h; exact h
    | cons op r ih => intro s h; simp only [run]; exact ih _ (c13_inv_step s op h)
  exact enumerates_self _ (this [] (by simp [Inv, AList.keys]))

/-! ### Multiplexer -/

/-- The multiplexer answers with the first provider that knows the identifier; KeyError iff none does. -/
theorem c13_mux_first_hit (ps : List St) (i : Id) :
    muxGet ps i = match ps.find? (fun p => AList.has i p) with
                  | some p => getIdentifiable p i
                  | none => .keyError := by
  induction ps with
  | nil => rfl
  | cons p r ih =>
    simp only [muxGet, List.find?]
    cases hg : AList.get i p with
    | none => simp [getIdentifiable, hg, AList.has, ih]
    | some u => simp [getIdentifiable, hg, AList.has]

/-! ### NamespaceIRIGenerator -/

private theorem iri_prefix (ns prop : List Char) (c : Nat) : ns <+: iri ns prop c := by
  unfold iri; split <;> exact List.prefix_append _ _

private theorem iri_succ_injective (ns prop : List Char) {a b : Nat}
    (h : iri ns prop (a + 1) = iri ns prop (b + 1)) : a = b := by
  simp only [iri, ne_eq, Nat.add_one_ne_zero, not_false_eq_true, true_or, if_true] at h
  have h1 := List.append_cancel_left (List.append_cancel_left (List.append_cancel_left h))
  have := pad4_injective h1
  omega

private theorem genLoop_sound {ns prop known f c r}
    (h : genLoop ns prop known f c = some r) : r.2 = iri ns prop r.1 ∧ r.2 ∉ known := by
  induction f generalizing c with
  | zero => simp [genLoop] at h
  | succ f ih =>
    simp only [genLoop] at h
    split at h
    · exact ih h
    · next hm => injection h with h; subst h; exact ⟨rfl, hm⟩

private theorem genLoop_none {ns prop known f c}
    (h : genLoop ns prop known f c = none) : ∀ j, c ≤ j → j < c + f → iri ns prop j ∈ known := by
  induction f generalizing c with
  | zero => intro j h1 h2; omega
  | succ f ih =>
    simp only [genLoop] at h
    split at h
    · next hm =>
      intro j h1 h2
      by_cases hj : j = c
      · subst hj; exact hm
      · exact ih h j (by omega) (by omega)
    · cases h

/-- **Termination**: the `while True` search always ends within `|known| + 2` candidates (pigeonhole over
    the pairwise distinct `…NNNN` candidates). -/
theorem c13_gen_terminates (g : Gen) (known : List Id) (p : Option (List Char)) :
    (generate g known p).2 ≠ none := by
  unfold generate
  simp only []
  generalize hp : quote (p.getD []) = prop
  generalize hc : (AList.get prop g.cache).getD 0 = c0
  cases hl : genLoop g.ns prop known (known.length + 2) c0 with
  | some r => simp
  | none =>
    exfalso
    have hall := genLoop_none hl
    let cs := (List.range (known.length + 1)).map (fun k => iri g.ns prop (c0 + k + 1))
    have hnd : cs.Nodup := by
      refine List.pairwise_map.2 (List.Pairwise.imp ?_ List.nodup_range)
      intro a b hab e
      exact hab (by have := iri_succ_injective g.ns prop e; omega)
    have hsub : cs ⊆ known := by
      intro x hx
      simp only [cs, List.mem_map, List.mem_range] at hx
      obtain ⟨k, hk, rfl⟩ := hx
      exact hall (c0 + k + 1) (by omega) (by omega)
    have := hnd.length_le_of_subset hsub
    simp [cs] at this
    omega

/-- A generated identifier lies in the generator's namespace and is one the consulted provider does not
    contain. -/
theorem c13_gen_fresh_in_namespace (g : Gen) (known : List Id) (p : Option (List Char)) (i : Id)
    (h : (generate g known p).2 = some i) : g.ns <+: i ∧ i ∉ known := by
  unfold generate at h
  simp only [] at h
  split at h
  · next c i' hl =>
    have := genLoop_sound hl
    simp only at h this
    injection h with h; subst h
    exact ⟨by rw [this.1]; exact iri_prefix _ _ _, this.2⟩
  · cases h

/-! ### Non-vacuity -/

def demo : List Op :=
  [.add ⟨1, "id:a".toList⟩, .add ⟨2, "id:a".toList⟩, .add ⟨3, "id:b".toList⟩, .discard ⟨2, "id:a".toList⟩,
   .get "id:a".toList, .remove ⟨2, "id:a".toList⟩, .pop, .iter, .update [⟨4, "id:c".toList⟩, ⟨5, "id:b".toList⟩, ⟨6, "id:d".toList⟩],
   .len, .clear, .len]

example : (run [] demo).2 =
    [.unit, .keyError, .unit, .unit, .obj 1, .keyError, .obj 1, .objs [3], .keyError, .nat 2, .unit, .nat 0] := by decide

example : (generate ⟨"http://x/".toList, []⟩ ["http://x/a".toList, "http://x/a_0001".toList] (some "a".toList)).2
    = some "http://x/a_0002".toList := by decide

end Basyx.Store
