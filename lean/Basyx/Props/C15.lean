import Basyx.Model.FileStore
namespace Basyx.FileStore
theorem c15_placeholder : True := trivial
end Basyx.FileStore
