/-
  C15 — A failed or interrupted write never corrupts or loses a stored object.
  Model: `Basyx/Model/FileStore.lean`, part B.  `write k i p f fs` runs the I/O step sequence `program k i p` that
  add()/commit() perform (the tie extracts the sequence from the running code and compares it with `program` on
  every run), with fault `f` = exception at step k (a `write` possibly half done) or death of the process before
  step k (of the file being written an arbitrary prefix survives).  All theorems quantify over every fault, every
  payload (accepted or rejected by the encoder) and every content of the directory.
-/
import Basyx.Model.FileStore
import Basyx.Lemmas.FileStore
namespace Basyx.FileStore

/-- the document stored under identifier `i` -/
def docOf (fs : FS) (i : Id) : Option Cnt := AList.get (.doc i) fs
/-- the complete new version -/
def newCnt (p : Payload) : Cnt := ⟨p.doc, p.total, p.total⟩

/-- every listed document is complete (so that loading it cannot fail) -/
def AllComplete (fs : FS) : Prop := ∀ j c, AList.get (FName.doc j) fs = some c → c.complete = true

/-- the fault is an exception at an I/O or serialisation step (the fault points the property names), or none -/
def Fault.ioRaise (prog : List Step) : Fault → Bool
  | .none => true
  | .raise k _ => match prog[k]? with
    | Option.some s => s.isIO
    | Option.none => true
  | .crash _ _ => false

/-- **Atomicity.**  Whatever fault hits add() or commit(): afterwards the identifier holds what it held before
    (nothing, or the complete earlier version) or the complete new version — never anything else. -/
theorem c15_atomic (kd : Kind) (i : Id) (p : Payload) (f : Fault) (fs : FS) :
    docOf (write kd i p f fs).fs i = docOf fs i ∨ docOf (write kd i p f fs).fs i = some (newCnt p) := by
  have hne : FName.doc i ≠ FName.tmp i := doc_ne_tmp i i
  cases kd <;> cases f with
  | none =>
    simp [write, program, exec, stepIO, docOf]
    try (by_cases hex : AList.has (FName.doc i) fs <;> simp [hex])
    all_goals (by_cases hok : p.ok <;> simp [hok, cleanup, get_bump_same, newCnt])
  | raise k part =>
    match k with
    | 0 | 1 | 2 | 3 | 4 | 5 | 6 | 7 | _ + 8 =>
      (simp [write, program, exec, stepIO, docOf, partialEffect]
       try (by_cases hex : AList.has (FName.doc i) fs <;> simp [hex])
       all_goals (by_cases hok : p.ok <;>
         simp [hok, cleanup, get_bump_same, get_bump_other, newCnt, AList.get_set_other, AList.get_erase_other, hne]))
  | crash k pre =>
    match k with
    | 0 | 1 | 2 | 3 | 4 | 5 | 6 | 7 | _ + 8 =>
      (simp [write, program, exec, stepIO, docOf, crashTrunc]
       try (by_cases hex : AList.has (FName.doc i) fs <;> simp [hex])
       all_goals (by_cases hok : p.ok <;>
         simp [hok, cleanup, get_bump_same, get_bump_other, newCnt, AList.get_set_other, AList.get_erase_other, hne]))

/-- **Other objects untouched.**  No fault changes any file other than the identifier's document and its
    temporary file — in particular every other stored document is byte-for-byte what it was. -/
theorem c15_others_untouched (kd : Kind) (i : Id) (p : Payload) (f : Fault) (fs : FS) (n : FName)
    (h1 : n ≠ .doc i) (h2 : n ≠ .tmp i) :
    AList.get n (write kd i p f fs).fs = AList.get n fs := by
  cases kd <;> cases f with
  | none =>
    simp [write, program, exec, stepIO]
    try (by_cases hex : AList.has (FName.doc i) fs <;> simp [hex])
    all_goals (by_cases hok : p.ok <;>
      simp [hok, cleanup, get_bump_other, get_bump_same, AList.get_set_other, AList.get_erase_other, h1, h2])
  | raise k part =>
    match k with
    | 0 | 1 | 2 | 3 | 4 | 5 | 6 | 7 | _ + 8 =>
      (simp [write, program, exec, stepIO, partialEffect]
       try (by_cases hex : AList.has (FName.doc i) fs <;> simp [hex])
       all_goals (by_cases hok : p.ok <;>
         simp [hok, cleanup, get_bump_other, get_bump_same, AList.get_set_other, AList.get_erase_other, h1, h2]))
  | crash k pre =>
    match k with
    | 0 | 1 | 2 | 3 | 4 | 5 | 6 | 7 | _ + 8 =>
      (simp [write, program, exec, stepIO, crashTrunc]
       try (by_cases hex : AList.has (FName.doc i) fs <;> simp [hex])
       all_goals (by_cases hok : p.ok <;>
         simp [hok, cleanup, get_bump_other, get_bump_same, AList.get_set_other, AList.get_erase_other, h1, h2]))

theorem c15_other_documents_untouched (kd : Kind) (i j : Id) (p : Payload) (f : Fault) (fs : FS) (h : j ≠ i) :
    docOf (write kd i p f fs).fs j = docOf fs j :=
  c15_others_untouched kd i p f fs (.doc j) (fun e => h (by cases e; rfl)) (doc_ne_tmp j i)

/-- **Every listed document stays complete.**  If all documents were complete before, they all are after any fault:
    an incomplete file can only exist under the temporary name, which the listing ignores. -/
theorem c15_documents_complete (kd : Kind) (i : Id) (p : Payload) (f : Fault) (fs : FS) (h : AllComplete fs) :
    AllComplete (write kd i p f fs).fs := by
  intro j c hc
  by_cases hj : j = i
  · subst hj
    rcases c15_atomic kd j p f fs with e | e
    · exact h j c (by unfold docOf at e; rw [← e]; exact hc)
    · unfold docOf at e; rw [hc] at e; injection e with e; subst e; simp [newCnt, Cnt.complete]
  · have := c15_other_documents_untouched kd i j p f fs hj
    unfold docOf at this; rw [this] at hc; exact h j c hc

/-- **Listing and iteration keep working** (`__len__`, `__iter__`, `__contains__` never meet an incomplete document). -/
theorem c15_listing_total (kd : Kind) (i : Id) (p : Payload) (f : Fault) (fs : FS) (h : AllComplete fs) :
    iterOk (write kd i p f fs).fs = true := by
  have hc := c15_documents_complete kd i p f fs h
  unfold iterOk
  rw [List.all_eq_true]
  intro j hj
  have := mem_listing hj
  cases hg : AList.get (FName.doc j) (write kd i p f fs).fs with
  | none => simp [hg] at this
  | some c => simpa using hc j c hg

/-- **A failed add is not marked as stored**: when add() leaves with an exception raised at any I/O or serialisation
    step (or by the duplicate check / the encoder itself), the object is not in the cache and its source is empty. -/
theorem c15_failed_add_not_marked (i : Id) (p : Payload) (f : Fault) (fs : FS)
    (hf : f.ioRaise (program .add i p) = true) (hr : (write .add i p f fs).raised ≠ none) :
    (write .add i p f fs).cached = false ∧ (write .add i p f fs).bound = false := by
  cases f with
  | none =>
    revert hr
    simp [write, program, exec, stepIO]
    by_cases hex : AList.has (FName.doc i) fs <;> by_cases hok : p.ok <;> simp [hex, hok, cleanup, get_bump_same]
  | raise k part =>
    revert hr hf
    match k with
    | 0 | 1 | 2 | 3 | 4 | 5 | 6 | 7 | _ + 8 =>
      (simp [write, program, exec, stepIO, partialEffect, Fault.ioRaise, Step.isIO]
       try (by_cases hex : AList.has (FName.doc i) fs <;> by_cases hok : p.ok <;> simp [hex, hok, cleanup, get_bump_same]))
  | crash k pre => simp [Fault.ioRaise] at hf

/-- **A failure is reported**: an exception injected at a step that add()/commit() reaches is never swallowed. -/
theorem c15_fault_reported (kd : Kind) (i : Id) (p : Payload) (k part : Nat) (fs : FS)
    (hk : k < (program kd i p).length) :
    (write kd i p (.raise k part) fs).raised ≠ none := by
  cases kd <;>
  (match k with
   | 0 | 1 | 2 | 3 | 4 | 5 | 6 | 7 | _ + 8 =>
     (simp [write, program, exec, stepIO, partialEffect] at hk ⊢
      try (by_cases hex : AList.has (FName.doc i) fs <;> by_cases hok : p.ok <;> simp [hex, hok, cleanup, get_bump_same])
      try (by_cases hok : p.ok <;> simp [hok, cleanup, get_bump_same])
      all_goals (try omega)))

/-- **Without a fault the new version is installed** (and, for add, the object is cached and bound). -/
theorem c15_nofault_installs (kd : Kind) (i : Id) (p : Payload) (fs : FS) (hok : p.ok = true)
    (hnew : kd = .add → AList.has (FName.doc i) fs = false) :
    docOf (write kd i p .none fs).fs i = some (newCnt p) ∧ (write kd i p .none fs).raised = none ∧
    (kd = .add → (write kd i p .none fs).cached = true ∧ (write kd i p .none fs).bound = true) := by
  cases kd
  · have := hnew rfl
    simp [write, program, exec, stepIO, docOf, this, hok, get_bump_same, newCnt]
  · simp [write, program, exec, stepIO, docOf, hok, get_bump_same, newCnt]

/-- **A payload the encoder rejects leaves the directory exactly as it was** (serialisation happens before any I/O). -/
theorem c15_rejected_payload_no_effect (kd : Kind) (i : Id) (p : Payload) (fs : FS) (hbad : p.ok = false) :
    (write kd i p .none fs).fs = fs ∧ (write kd i p .none fs).raised ≠ none := by
  cases kd
  · by_cases hex : AList.has (FName.doc i) fs <;> simp [write, program, exec, stepIO, hex, hbad, cleanup]
  · simp [write, program, exec, stepIO, hbad, cleanup]

/-! ### The pinned protocol (open the target for writing first, stream the encoder's chunks) violates all of this -/

/-- add() of an object whose encoding fails after 10 bytes (mixed-sign duration): the identifier is left with an
    incomplete document, it is listed, and iteration fails.  (Replay of the finding.) -/
theorem c15_pinned_add_leaves_truncated_document :
    let x := writePinned .add ['a'] ⟨1, 100, false, [10]⟩ .none []
    x.raised = some .valueError ∧ docOf x.fs ['a'] = some ⟨1, 10, 100⟩ ∧ listing x.fs = [['a']] ∧ iterOk x.fs = false := by
  decide

/-- commit() of such an object destroys the stored earlier version. -/
theorem c15_pinned_commit_loses_old_version :
    let fs : FS := [(.doc ['a'], ⟨0, 50, 50⟩)]
    let x := writePinned .commit ['a'] ⟨1, 100, false, [10]⟩ .none fs
    docOf x.fs ['a'] ≠ docOf fs ['a'] ∧ docOf x.fs ['a'] ≠ some (newCnt ⟨1, 100, false, [10]⟩) ∧ iterOk x.fs = false := by
  decide

/-- …and so does the death of the process right after the `open`. -/
theorem c15_pinned_crash_after_open_loses_old_version :
    let fs : FS := [(.doc ['a'], ⟨0, 50, 50⟩)]
    let x := writePinned .commit ['a'] ⟨1, 100, true, [60, 40]⟩ (.crash 1 0) fs
    docOf x.fs ['a'] = some ⟨1, 0, 100⟩ ∧ iterOk x.fs = false := by
  decide

/-! ### Non-vacuity -/

/-- a directory with two complete documents and the stale temporary file of an earlier crash -/
def demoFs : FS := [(.doc ['b'], ⟨0, 10, 10⟩), (.tmp ['a'], ⟨9, 3, 20⟩), (.doc ['a'], ⟨2, 30, 30⟩)]

example : AllComplete demoFs := by
  intro j c h
  simp only [demoFs, AList.get] at h
  split at h
  · injection h with h; subst h; rfl
  · simp only [tmp_ne_doc, if_false] at h
    split at h
    · injection h with h; subst h; rfl
    · cases h

example : (write .commit ['a'] ⟨5, 40, true, []⟩ .none demoFs).fs
    = [(.doc ['b'], ⟨0, 10, 10⟩), (.doc ['a'], ⟨5, 40, 40⟩)] := by decide
example : (write .commit ['a'] ⟨5, 40, true, []⟩ (.crash 4 17) demoFs).fs
    = [(.doc ['b'], ⟨0, 10, 10⟩), (.tmp ['a'], ⟨5, 17, 40⟩), (.doc ['a'], ⟨2, 30, 30⟩)] := by decide
example : (write .commit ['a'] ⟨5, 40, true, []⟩ (.raise 2 25) demoFs).fs
    = [(.doc ['b'], ⟨0, 10, 10⟩), (.doc ['a'], ⟨2, 30, 30⟩)] := by decide
example : (write .add ['c'] ⟨5, 40, true, []⟩ (.raise 5 0) demoFs).raised = some .osError := by decide
example : Fault.ioRaise (program .add ['c'] ⟨5, 40, true, []⟩) (.raise 5 0) = true := by decide
example : (program .add ['c'] ⟨5, 40, true, []⟩).length = 8 := by decide

/-! ### The bulk entry point: `store.update(iterable)` (inherited from `AbstractObjectStore`: `for x in other: self.add(x)`) -/

/-- **A bulk insertion reports the first failure and is otherwise the history of its `add`s**: either every `add` returned
    normally and the state is that of running them all; or the list splits as `p ++ r :: s` where all of `p` were added, the
    `add` of `r` failed, ITS exception is the result of the call (never swallowed), and neither `r` nor anything of `s` left a
    trace in documents, caches or sources. -/
theorem c15_bulk_insertion_reports_first_failure (w : W) (k : Nat) (rs : List Ref) :
    ((addMany w k rs).2 = .unit ∧ (addMany w k rs).1 = run w (rs.map (Op.add k))) ∨
    (∃ p r s, rs = p ++ r :: s ∧ (addMany w k p).2 = .unit ∧
      (addMany w k rs).1 = run w (p.map (Op.add k)) ∧
      (addMany w k rs).2 = (add (run w (p.map (Op.add k))) k r).2 ∧ (addMany w k rs).2 ≠ .unit) :=
  addMany_spec k rs w

/-- in particular: a call that returns normally has stored every object it was given -/
theorem c15_bulk_insertion_ok_means_all_added (w : W) (k : Nat) (rs : List Ref) (h : (addMany w k rs).2 = .unit) :
    (addMany w k rs).1 = run w (rs.map (Op.add k)) := by
  rcases addMany_spec k rs w with ⟨_, h2⟩ | ⟨_, _, _, _, _, _, _, hne⟩
  · exact h2
  · exact absurd h hne

-- a duplicate in second position: the first object is stored, the KeyError is reported, the third one is not touched
example : (addMany (run init [.new ['a'] 1, .new ['a'] 2, .new ['b'] 3]) 0 [0, 1, 2]).2 = .keyError ∧
    (addMany (run init [.new ['a'] 1, .new ['a'] 2, .new ['b'] 3]) 0 [0, 1, 2]).1.disk = [(['a'], 1)] := by decide

end Basyx.FileStore
