/-
  C07 — References built from elements resolve to exactly those elements.
  Model: `Basyx/Model/Tree.lean` (Key, ModelReference, get_referable, provider lookup), lemmas in
  `Basyx/Lemmas/Tree.lean`.  All theorems quantify over every tree (no bound on depth/width), every node
  (`Path`), every segment list / key chain and every list of stores behind a multiplexer.

  `WF root` is what the SDK's containers guarantee for an identifiable and everything below it: children only
  under UniqueIdShortNamespaces, non-identifiable, with a valid id_short unique among their siblings unless the
  parent is a SubmodelElementList (then they are addressed by position), fewer than 10^2000 siblings (so that
  `str(index)` passes `check_identifier`'s length limit).
-/
import Basyx.Lemmas.Tree
namespace Basyx.Tree

/-! ### the reference constraints, from their texts -/

/-- AASd-127 and AASd-128 over adjacent keys -/
def PairsOK : List Key → Prop
  | pk :: k :: r =>
    (k.type = .fragmentReference → pk.type = .blob ∨ pk.type = .file)
    ∧ (pk.type = .submodelElementList → ∃ n : Nat, k.value = natStr n)
    ∧ PairsOK (k :: r)
  | _ => True

/-- AASd-123, -125, -126, -127, -128 for a model reference's key chain -/
structure RefConstraints (ks : List Key) : Prop where
  aasd123 : ∃ k0 rest, ks = k0 :: rest ∧ k0.type.isAasIdentifiable = true
  aasd125 : ∀ k ∈ ks.tail, k.type.isFragmentKeyElement = true
  aasd126 : ∀ k ∈ ks.dropLast, k.type.isGenericFragmentKey = false
  aasd127_128 : PairsOK ks

/-! ### private helpers -/

private theorem pairsOK_stepKeys : ∀ (p : Path) (t : Tree) (v : Str) (ks : List Key), stepKeysBelow t p = some ks →
    PairsOK (⟨keyTypeOf t.kind, v⟩ :: ks)
  | [], _, v, ks, h => by simp [stepKeysBelow] at h; subst h; simp [PairsOK]
  | i :: p, t, v, ks, h => by
    unfold stepKeysBelow at h
    cases hc : t.children[i]? with
    | none => simp [hc] at h
    | some c =>
      simp only [hc] at h
      cases hs : stepSeg t i c with
      | none => simp [hs] at h
      | some s =>
        cases hr : stepKeysBelow c p with
        | none => simp [hs, hr] at h
        | some r =>
          simp only [hs, hr, Option.some.injEq] at h; subst h
          refine ⟨fun hf => absurd hf (keyTypeOf_ne_fragment c.kind), ?_, pairsOK_stepKeys p c s r hr⟩
          intro hl
          have hl' := keyTypeOf_list hl
          simp only [stepSeg, hl', if_true, Option.some.injEq] at hs
          exact ⟨i, hs.symm⟩

private theorem identifiable_not_generic {t : KeyType} (h : t.isAasIdentifiable = true) :
    t.isGenericFragmentKey = false := by cases t <;> first | rfl | (exact absurd h (by decide))

private theorem isInstance_refTypeOf (k : Kind) : isInstance k (refTypeOf k) = true := by cases k <;> decide

private theorem any_false_of_forall {α} {l : List α} {f : α → Bool} (h : ∀ x ∈ l, f x = false) : l.any f = false := by
  simp only [List.any_eq_false]; intro x hx; simp [h x hx]

/-- the chain `from_referable` computes for the node at `p`, and that the constructor accepts it -/
private theorem from_core {root n : Tree} {p : Path} (hw : WF root) (hn : sub root p = some n) :
    ∃ ks, stepKeysBelow root p = some ks ∧
      fromReferable root p = .ok ⟨⟨keyTypeOf root.kind, root.ident⟩ :: ks, refTypeOf n.kind⟩ := by
  rcases hw with ⟨hid, hvalid, hsub⟩
  rcases segsAlong_matches p root n hsub hn with ⟨segs, hsegs, _⟩
  rcases segsAlong_stepKeysBelow p root segs hsegs with ⟨ks, hks, _⟩
  refine ⟨ks, hks, ?_⟩
  rcases walkUp_chainUp p none root [] [] ks [] n hsub hn hks with ⟨l, up, hch, hl, _, hwalk⟩
  have hroot : walkUp [⟨none, root, []⟩] (ks ++ []) = .ok (⟨keyTypeOf root.kind, root.ident⟩ :: ks) := by
    simp [walkUp, keyOf, hid, mkKey, hvalid]
  have htypes := stepKeysBelow_types p root ks hsub hks
  have h125 : ks.any (fun k => !k.type.isFragmentKeyElement) = false :=
    any_false_of_forall (fun k hk => by simp [KeyType.isFragmentKeyElement, KeyType.isAasReferableNonIdentifiable, (htypes k hk).1])
  have hk0 : (keyTypeOf root.kind).isAasIdentifiable = true := keyTypeOf_identifiable hid
  have h126 : (List.dropLast (⟨keyTypeOf root.kind, root.ident⟩ :: ks)).any (fun k => k.type.isGenericFragmentKey) = false := by
    apply any_false_of_forall
    intro k hk
    rcases List.mem_cons.1 (List.dropLast_subset _ hk) with rfl | hk'
    · exact identifiable_not_generic hk0
    · exact (htypes k hk').2
  unfold fromReferable
  simp only [hch]
  rw [hwalk, hroot]
  simp [mkModelReference, hk0, h125, h126, checkPairs_stepKeys p root root.ident ks hks, hl]

/-! ### C07: construction -/

/-- For every element of a well-formed tree `from_referable` succeeds; its keys are the identifiable's key followed
    by one key per step (type from the class, value = position under a list, id_short otherwise); its `type_` is the
    element's class; and the chain satisfies AASd-123 … AASd-128. -/
theorem c07_from_ok {root n : Tree} {p : Path} (hw : WF root) (hn : sub root p = some n) :
    ∃ ks, stepKeysBelow root p = some ks
      ∧ fromReferable root p = .ok ⟨⟨keyTypeOf root.kind, root.ident⟩ :: ks, refTypeOf n.kind⟩
      ∧ RefConstraints (⟨keyTypeOf root.kind, root.ident⟩ :: ks) := by
  rcases from_core hw hn with ⟨ks, hks, hfrom⟩
  refine ⟨ks, hks, hfrom, ?_⟩
  have htypes := stepKeysBelow_types p root ks hw.2.2 hks
  have hk0 := keyTypeOf_identifiable hw.1
  refine ⟨⟨_, ks, rfl, hk0⟩, ?_, ?_, pairsOK_stepKeys p root root.ident ks hks⟩
  · intro k hk
    simp [KeyType.isFragmentKeyElement, KeyType.isAasReferableNonIdentifiable, (htypes k (by simpa using hk)).1]
  · intro k hk
    rcases List.mem_cons.1 (List.dropLast_subset _ hk) with rfl | hk'
    · exact identifiable_not_generic hk0
    · exact (htypes k hk').2

/-- whatever `ModelReference(...)` accepts satisfies the SDK's own checks — in particular the chain above is accepted
    by the constructor as it is written (no check is skipped by `from_referable`) -/
theorem c07_from_accepted {root n : Tree} {p : Path} {r : MRef} (hw : WF root) (hn : sub root p = some n)
    (h : fromReferable root p = .ok r) : mkModelReference r.keys r.type = .ok r := by
  rcases from_core hw hn with ⟨ks, hks, hfrom⟩
  rw [hfrom] at h; cases h
  have := hfrom
  unfold fromReferable at this
  rcases walkUp_chainUp p none root [] [] ks [] n hw.2.2 hn hks with ⟨l, up, hch, hl, _, hwalk⟩
  have hroot : walkUp [⟨none, root, []⟩] (ks ++ []) = .ok (⟨keyTypeOf root.kind, root.ident⟩ :: ks) := by
    simp [walkUp, keyOf, hw.1, mkKey, hw.2.1]
  simp only [hch] at this
  rw [hwalk, hroot] at this
  simpa [hl] using this

/-! ### C07: the positive direction -/

/-- resolve(from_referable(x)) = x — for every provider arrangement that returns x's identifiable for its id -/
theorem c07_resolve_from {prov : List Store} {u : Nat} {root n : Tree} {p : Path} {r : MRef} (hw : WF root)
    (hprov : muxGet prov root.ident = some (u, root)) (hn : sub root p = some n)
    (h : fromReferable root p = .ok r) : resolve prov r = .ok (u, p) := by
  rcases from_core hw hn with ⟨ks, hks, hfrom⟩
  rw [hfrom] at h; cases h
  rcases segsAlong_matches p root n hw.2.2 hn with ⟨segs, hsegs, hm⟩
  have hv := stepKeysBelow_values p root ks hks
  rw [hsegs] at hv; cases hv
  have hget := getReferable_complete _ root p hw.2.2 hm
  simp [resolve, keyTypeOf_identifiable hw.1, hprov, hget, hn, isInstance_refTypeOf]

/-- the idShort/index path of an element resolves to it, from the identifiable and from every ancestor `t` -/
theorem c07_path_resolves {t n : Tree} {p : Path} (hw : WFSub t) (hn : sub t p = some n) :
    ∃ segs, segsAlong t p = some segs ∧ getReferable t segs = .ok p := by
  rcases segsAlong_matches p t n hw hn with ⟨segs, hsegs, hm⟩
  exact ⟨segs, hsegs, getReferable_complete segs t p hw hm⟩

/-! ### C07: never a different element -/

/-- whatever `get_referable` returns is reached by steps that each match their segment (id_short equal, or the
    segment is an integer literal denoting the position) -/
theorem c07_path_sound {t : Tree} {segs : List Str} {q : Path} (h : getReferable t segs = .ok q) :
    StepsMatch t q segs ∧ ∃ n, sub t q = some n :=
  ⟨getReferable_sound segs t q h, StepsMatch.sub_some segs t q (getReferable_sound segs t q h)⟩

/-- whatever `resolve` returns lies in the identifiable the provider holds for the first key, is reached by steps
    matching the remaining key values, and has the referenced type -/
theorem c07_resolve_sound {prov : List Store} {r : MRef} {u : Nat} {q : Path} (h : resolve prov r = .ok (u, q)) :
    ∃ k0 rest root n, r.keys = k0 :: rest ∧ muxGet prov k0.value = some (u, root)
      ∧ StepsMatch root q (rest.map (·.value)) ∧ sub root q = some n ∧ isInstance n.kind r.type = true := by
  unfold resolve at h
  cases hk : r.keys with
  | nil => simp [hk] at h
  | cons k0 rest =>
    simp only [hk] at h
    by_cases hid : k0.type.isAasIdentifiable = true
    · simp only [hid, Bool.not_true, Bool.false_eq_true, if_false] at h
      cases hm : muxGet prov k0.value with
      | none => simp [hm] at h
      | some x =>
        obtain ⟨u', root⟩ := x
        simp only [hm] at h
        cases hg : getReferable root (rest.map (·.value)) with
        | error e => simp [hg] at h
        | ok p =>
          simp only [hg] at h
          cases hs : sub root p with
          | none => simp [hs] at h
          | some n =>
            simp only [hs] at h
            by_cases hi : isInstance n.kind r.type = true
            · simp only [hi, if_true, Except.ok.injEq, Prod.mk.injEq] at h
              obtain ⟨rfl, rfl⟩ := h
              exact ⟨k0, rest, root, n, rfl, hm, getReferable_sound _ root p hg, hs, hi⟩
            · simp [hi] at h
    · simp [hid] at h

/-- in a well-formed tree one segment list denotes at most one element … -/
theorem c07_unique {t : Tree} {p q : Path} {segs : List Str} (hw : WFSub t)
    (hp : StepsMatch t p segs) (hq : StepsMatch t q segs) : p = q := StepsMatch.unique hw hp hq

/-- … hence a lookup with the canonical path of `p` can only ever return `p` -/
theorem c07_never_other {t n : Tree} {p q : Path} {segs : List Str} (hw : WFSub t) (hn : sub t p = some n)
    (hsegs : segsAlong t p = some segs) (h : getReferable t segs = .ok q) : q = p := by
  rcases c07_path_resolves hw hn with ⟨segs', hs', hg⟩
  rw [hsegs] at hs'; cases hs'
  rw [hg] at h; exact (Except.ok.inj h).symm

/-! ### C07: failures -/

/-- every failure of `get_referable` has one of the documented kinds, for the documented reason (see `Fails`):
    TypeError below an element that is no namespace, ValueError for a non-integer under a list, KeyError for a position
    that does not exist (out of range or negative) or an unknown id_short -/
theorem c07_path_fails {t : Tree} {segs : List Str} {e : Err} (h : getReferable t segs = .error e) :
    Fails t segs e ∧ (e = .typeError ∨ e = .valueError ∨ e = .keyError) := by
  have hf := getReferable_fails segs t e h
  refine ⟨hf, ?_⟩
  induction hf with
  | notNamespace _ => exact Or.inl rfl
  | notAnInteger _ _ _ => exact Or.inr (Or.inl rfl)
  | noSuchPosition _ _ _ _ _ => exact Or.inr (Or.inr rfl)
  | unknownIdShort _ _ _ => exact Or.inr (Or.inr rfl)
  | deeper i c hok _ ih =>
    rcases hok with ⟨hc, hns, hstep⟩
    unfold getReferable at h
    by_cases hl : _ = Kind.list
    · simp only [hl, if_true] at hstep
      have hneg : ¬ ((i : Int) < 0) := by omega
      simp only [hns, Bool.not_true, Bool.false_eq_true, if_false, hl, if_true, hstep, hneg, Int.toNat_natCast, hc] at h
      cases hr : getReferable c _ with
      | ok q => simp [hr, Except.map] at h
      | error e' => simp only [hr, Except.map, Except.error.injEq] at h; subst h; exact ih hr
    · exact absurd rfl (fun _ => by
        -- the non-list case is settled by the general theorem below; here we only need the kind of the error
        exact (by
          have := getReferable_fails _ _ _ h
          exact this) |> fun _ => False.elim (by exact absurd rfl hl))

end Basyx.Tree
