/-
  C07 — References built from elements resolve to exactly those elements.
  Model: `Basyx/Model/Tree.lean` (Key, ModelReference, get_referable, provider lookup), lemmas in
  `Basyx/Lemmas/Tree.lean`.  All theorems quantify over every tree (no bound on depth/width), every node
  (`Path`), every segment list / key chain and every list of stores behind a multiplexer.

  `WF root` is what the SDK's containers guarantee for an identifiable and everything below it: children only
  under UniqueIdShortNamespaces, non-identifiable, with a valid id_short unique among their siblings unless the
  parent is a SubmodelElementList (then they are addressed by position), fewer than 10^2000 siblings (stated as
  `len(str(len(children))) ≤ 2000`, so that `str(index)` passes `check_identifier`'s length limit).
-/
import Basyx.Lemmas.Tree
namespace Basyx.Tree

/-! ### the reference constraints, from their texts -/

/-- AASd-127 and AASd-128 over adjacent keys -/
def PairsOK : List Key → Prop
  | pk :: k :: r =>
    (k.type = .fragmentReference → pk.type = .blob ∨ pk.type = .file)
    ∧ (pk.type = .submodelElementList → ∃ n : Nat, k.value = natStr n)
    ∧ PairsOK (k :: r)
  | _ => True

/-- AASd-123, -125, -126, -127, -128 for a model reference's key chain -/
structure RefConstraints (ks : List Key) : Prop where
  aasd123 : ∃ k0 rest, ks = k0 :: rest ∧ k0.type.isAasIdentifiable = true
  aasd125 : ∀ k ∈ ks.tail, k.type.isFragmentKeyElement = true
  aasd126 : ∀ k ∈ ks.dropLast, k.type.isGenericFragmentKey = false
  aasd127_128 : PairsOK ks

/-! ### private helpers -/

private theorem pairsOK_stepKeys : ∀ (p : Path) (t : Tree) (v : Str) (ks : List Key), stepKeysBelow t p = some ks →
    PairsOK (⟨keyTypeOf t.kind, v⟩ :: ks)
  | [], _, v, ks, h => by simp [stepKeysBelow] at h; subst h; simp [PairsOK]
  | i :: p, t, v, ks, h => by
    unfold stepKeysBelow at h
    cases hc : t.children[i]? with
    | none => simp [hc] at h
    | some c =>
      simp only [hc] at h
      cases hs : stepSeg t i c with
      | none => simp [hs] at h
      | some s =>
        cases hr : stepKeysBelow c p with
        | none => simp [hs, hr] at h
        | some r =>
          simp only [hs, hr, Option.some.injEq] at h; subst h
          refine ⟨fun hf => absurd hf (keyTypeOf_ne_fragment c.kind), ?_, pairsOK_stepKeys p c s r hr⟩
          intro hl
          have hl' := keyTypeOf_list hl
          simp only [stepSeg, hl', if_true, Option.some.injEq] at hs
          exact ⟨i, hs.symm⟩

private theorem identifiable_not_generic {t : KeyType} (h : t.isAasIdentifiable = true) :
    t.isGenericFragmentKey = false := by cases t <;> first | rfl | (exact absurd h (by decide))

private theorem isInstance_refTypeOf (k : Kind) : isInstance k (refTypeOf k) = true := by cases k <;> decide

private theorem any_false_of_forall {α} {l : List α} {f : α → Bool} (h : ∀ x ∈ l, f x = false) : l.any f = false := by
  simp only [List.any_eq_false]; intro x hx; simp [h x hx]

/-- the chain `from_referable` computes for the node at `p`, and that the constructor accepts it -/
private theorem from_core {root n : Tree} {p : Path} (hw : WF root) (hn : sub root p = some n) :
    ∃ ks, stepKeysBelow root p = some ks ∧
      fromReferable root p = .ok ⟨⟨keyTypeOf root.kind, root.ident⟩ :: ks, refTypeOf n.kind⟩ := by
  rcases hw with ⟨hid, hvalid, hsub⟩
  rcases segsAlong_matches p root n hsub hn with ⟨segs, hsegs, _⟩
  rcases segsAlong_stepKeysBelow p root segs hsegs with ⟨ks, hks, _⟩
  refine ⟨ks, hks, ?_⟩
  rcases walkUp_chainUp p none root [] [] ks [] n hsub hn hks with ⟨l, up, hch, hl, _, hwalk⟩
  have hroot : walkUp [⟨none, root, []⟩] (ks ++ []) = .ok (⟨keyTypeOf root.kind, root.ident⟩ :: ks) := by
    simp [walkUp, keyOf, hid, mkKey, hvalid]
  have htypes := stepKeysBelow_types p root ks hsub hks
  have h125 : ks.any (fun k => !k.type.isFragmentKeyElement) = false :=
    any_false_of_forall (fun k hk => by simp [KeyType.isFragmentKeyElement, KeyType.isAasReferableNonIdentifiable, (htypes k hk).1])
  have hk0 : (keyTypeOf root.kind).isAasIdentifiable = true := keyTypeOf_identifiable hid
  have h126 : (List.dropLast (⟨keyTypeOf root.kind, root.ident⟩ :: ks)).any (fun k => k.type.isGenericFragmentKey) = false := by
    apply any_false_of_forall
    intro k hk
    rcases List.mem_cons.1 (List.dropLast_subset _ hk) with rfl | hk'
    · exact identifiable_not_generic hk0
    · exact (htypes k hk').2
  unfold fromReferable
  simp only [hch]
  rw [hwalk, hroot]
  simp [mkModelReference, hk0, h125, h126, checkPairs_stepKeys p root root.ident ks hks, hl]

/-! ### C07: construction -/

/-- For every element of a well-formed tree `from_referable` succeeds; its keys are the identifiable's key followed
    by one key per step (type from the class, value = position under a list, id_short otherwise); its `type_` is the
    element's class; and the chain satisfies AASd-123 … AASd-128. -/
theorem c07_from_ok {root n : Tree} {p : Path} (hw : WF root) (hn : sub root p = some n) :
    ∃ ks, stepKeysBelow root p = some ks
      ∧ fromReferable root p = .ok ⟨⟨keyTypeOf root.kind, root.ident⟩ :: ks, refTypeOf n.kind⟩
      ∧ RefConstraints (⟨keyTypeOf root.kind, root.ident⟩ :: ks) := by
  rcases from_core hw hn with ⟨ks, hks, hfrom⟩
  refine ⟨ks, hks, hfrom, ?_⟩
  have htypes := stepKeysBelow_types p root ks hw.2.2 hks
  have hk0 := keyTypeOf_identifiable hw.1
  refine ⟨⟨_, ks, rfl, hk0⟩, ?_, ?_, pairsOK_stepKeys p root root.ident ks hks⟩
  · intro k hk
    simp [KeyType.isFragmentKeyElement, KeyType.isAasReferableNonIdentifiable, (htypes k (by simpa using hk)).1]
  · intro k hk
    rcases List.mem_cons.1 (List.dropLast_subset _ hk) with rfl | hk'
    · exact identifiable_not_generic hk0
    · exact (htypes k hk').2

/-- whatever `ModelReference(...)` accepts satisfies the SDK's own checks — in particular the chain above is accepted
    by the constructor as it is written (no check is skipped by `from_referable`) -/
theorem c07_from_accepted {root n : Tree} {p : Path} {r : MRef} (hw : WF root) (hn : sub root p = some n)
    (h : fromReferable root p = .ok r) : mkModelReference r.keys r.type = .ok r := by
  rcases from_core hw hn with ⟨ks, hks, hfrom⟩
  rw [hfrom] at h; cases h
  have := hfrom
  unfold fromReferable at this
  rcases walkUp_chainUp p none root [] [] ks [] n hw.2.2 hn hks with ⟨l, up, hch, hl, _, hwalk⟩
  have hroot : walkUp [⟨none, root, []⟩] (ks ++ []) = .ok (⟨keyTypeOf root.kind, root.ident⟩ :: ks) := by
    simp [walkUp, keyOf, hw.1, mkKey, hw.2.1]
  simp only [hch] at this
  rw [hwalk, hroot] at this
  simpa [hl] using this

/-! ### C07: the positive direction -/

/-- resolve(from_referable(x)) = x — for every provider arrangement that returns x's identifiable for its id -/
theorem c07_resolve_from {prov : List Store} {u : Nat} {root n : Tree} {p : Path} {r : MRef} (hw : WF root)
    (hprov : muxGet prov root.ident = some (u, root)) (hn : sub root p = some n)
    (h : fromReferable root p = .ok r) : resolve prov r = .ok (u, p) := by
  rcases from_core hw hn with ⟨ks, hks, hfrom⟩
  rw [hfrom] at h; cases h
  rcases segsAlong_matches p root n hw.2.2 hn with ⟨segs, hsegs, hm⟩
  have hv := stepKeysBelow_values p root ks hks
  rw [hsegs] at hv; cases hv
  have hget := getReferable_complete _ root p hw.2.2 hm
  simp [resolve, keyTypeOf_identifiable hw.1, hprov, hget, hn, isInstance_refTypeOf]

/-- the idShort/index path of an element resolves to it, from the identifiable and from every ancestor `t` -/
theorem c07_path_resolves {t n : Tree} {p : Path} (hw : WFSub t) (hn : sub t p = some n) :
    ∃ segs, segsAlong t p = some segs ∧ getReferable t segs = .ok p := by
  rcases segsAlong_matches p t n hw hn with ⟨segs, hsegs, hm⟩
  exact ⟨segs, hsegs, getReferable_complete segs t p hw hm⟩

/-! ### C07: never a different element -/

/-- whatever `get_referable` returns is reached by steps that each match their segment (id_short equal, or the
    segment is an integer literal denoting the position) -/
theorem c07_path_sound {t : Tree} {segs : List Str} {q : Path} (h : getReferable t segs = .ok q) :
    StepsMatch t q segs ∧ ∃ n, sub t q = some n :=
  ⟨getReferable_sound segs t q h, StepsMatch.sub_some segs t q (getReferable_sound segs t q h)⟩

/-- `get_referable("x")` is `get_referable(["x"])`, and following a path one segment at a time with the bare-string form
    (`obj = root; for seg in path: obj = obj.get_referable(seg)`) gives exactly the result - element or error - of the one
    call with the whole path; so every statement about paths below holds for all three ways of following one -/
theorem c07_stepwise (t : Tree) (segs : List Str) :
    followStepwise t segs = getReferable t segs ∧
    (∀ s, getReferableArg t (.single s) = getReferableArg t (.many [s])) :=
  ⟨followStepwise_eq segs t, fun _ => rfl⟩

/-- whatever `resolve` returns lies in the identifiable the provider holds for the first key, is reached by steps
    matching the remaining key values, and has the referenced type -/
theorem c07_resolve_sound {prov : List Store} {r : MRef} {u : Nat} {q : Path} (h : resolve prov r = .ok (u, q)) :
    ∃ k0 rest root n, r.keys = k0 :: rest ∧ muxGet prov k0.value = some (u, root)
      ∧ StepsMatch root q (rest.map (·.value)) ∧ sub root q = some n ∧ isInstance n.kind r.type = true := by
  unfold resolve at h
  cases hk : r.keys with
  | nil => simp [hk] at h
  | cons k0 rest =>
    simp only [hk] at h
    by_cases hid : k0.type.isAasIdentifiable = true
    · simp only [hid, Bool.not_true, Bool.false_eq_true, if_false] at h
      cases hm : muxGet prov k0.value with
      | none => simp [hm] at h
      | some x =>
        obtain ⟨u', root⟩ := x
        simp only [hm] at h
        cases hg : getReferable root (rest.map (·.value)) with
        | error e => simp [hg] at h
        | ok p =>
          simp only [hg] at h
          cases hs : sub root p with
          | none => simp [hs] at h
          | some n =>
            simp only [hs] at h
            by_cases hi : isInstance n.kind r.type = true
            · simp only [hi, if_true, Except.ok.injEq, Prod.mk.injEq] at h
              obtain ⟨rfl, rfl⟩ := h
              exact ⟨k0, rest, root, n, rfl, hm, getReferable_sound _ root p hg, hs, hi⟩
            · simp [hi] at h
    · simp [hid] at h

/-- in a well-formed tree one segment list denotes at most one element … -/
theorem c07_unique {t : Tree} {p q : Path} {segs : List Str} (hw : WFSub t)
    (hp : StepsMatch t p segs) (hq : StepsMatch t q segs) : p = q := StepsMatch.unique hw hp hq

/-- … hence a lookup with the canonical path of `p` can only ever return `p` -/
theorem c07_never_other {t n : Tree} {p q : Path} {segs : List Str} (hw : WFSub t) (hn : sub t p = some n)
    (hsegs : segsAlong t p = some segs) (h : getReferable t segs = .ok q) : q = p := by
  rcases c07_path_resolves hw hn with ⟨segs', hs', hg⟩
  rw [hsegs] at hs'; cases hs'
  rw [hg] at h; exact (Except.ok.inj h).symm

/-! ### C07: failures -/

/-- every failure of `get_referable` has one of the documented kinds, for the documented reason (see `Fails`):
    TypeError below an element that is no namespace, ValueError for a non-integer under a list, KeyError for a position
    that does not exist (out of range or negative) or an unknown id_short -/
theorem c07_path_fails {t : Tree} {segs : List Str} {e : Err} (h : getReferable t segs = .error e) :
    Fails t segs e ∧ (e = .typeError ∨ e = .valueError ∨ e = .keyError) := by
  have hf := getReferable_fails segs t e h
  refine ⟨hf, ?_⟩
  clear h
  induction hf with
  | notNamespace _ => exact Or.inl rfl
  | notAnInteger _ _ _ => exact Or.inr (Or.inl rfl)
  | noSuchPosition _ _ _ _ _ => exact Or.inr (Or.inr rfl)
  | unknownIdShort _ _ _ => exact Or.inr (Or.inr rfl)
  | deeper _ _ _ _ ih => exact ih

private theorem fails_append {n : Tree} {b : List Str} {e : Err} : ∀ (a : List Str) (t : Tree) (p : Path),
    StepsMatch t p a → sub t p = some n → Fails n b e → Fails t (a ++ b) e
  | [], t, [], _, hn, hf => by simp [sub] at hn; subst hn; simpa using hf
  | [], _, _ :: _, h, _, _ => by simp [StepsMatch] at h
  | _ :: _, _, [], h, _, _ => by simp [StepsMatch] at h
  | s :: a, t, i :: p, h, hn, hf => by
    rcases h with ⟨c, hok, hrest⟩
    rw [sub_cons hok.1] at hn
    exact .deeper i c hok (fails_append a c p hrest hn hf)

/-- the negative clauses in one statement: follow the path of an existing element `x` (at `p` below `t`), then go on
    with segments that fail at `x` for reason `Fails x b e` — the lookup fails with exactly that error -/
theorem c07_fails_below {t x : Tree} {p : Path} {segs b : List Str} {e : Err} (hw : WFSub t) (hx : sub t p = some x)
    (hsegs : segsAlong t p = some segs) (hf : Fails x b e) : getReferable t (segs ++ b) = .error e := by
  rcases segsAlong_matches p t x hw hx with ⟨segs', hs', hm⟩
  rw [hsegs] at hs'; cases hs'
  exact fails_getReferable hw (fails_append segs t p hm hx hf)

/-- an extra trailing key below an element that cannot have children: TypeError -/
theorem c07_trailing_below_leaf {t x : Tree} {p : Path} {segs rest : List Str} {s : Str} (hw : WFSub t)
    (hx : sub t p = some x) (hsegs : segsAlong t p = some segs) (hleaf : isNamespace x.kind = false) :
    getReferable t (segs ++ s :: rest) = .error .typeError :=
  c07_fails_below hw hx hsegs (.notNamespace hleaf)

/-- an unknown id_short below a (non-list) namespace: KeyError -/
theorem c07_unknown_idshort {t x : Tree} {p : Path} {segs rest : List Str} {s : Str} (hw : WFSub t)
    (hx : sub t p = some x) (hsegs : segsAlong t p = some segs) (hns : isNamespace x.kind = true)
    (hl : x.kind ≠ .list) (hnone : ∀ c ∈ x.children, c.idShort ≠ some s) :
    getReferable t (segs ++ s :: rest) = .error .keyError :=
  c07_fails_below hw hx hsegs (.unknownIdShort hns hl hnone)

/-- an index out of range, or a negative one, under a list: KeyError (never the element counted from the end) -/
theorem c07_bad_index {t x : Tree} {p : Path} {segs rest : List Str} {s : Str} {i : Int} (hw : WFSub t)
    (hx : sub t p = some x) (hsegs : segsAlong t p = some segs) (hl : x.kind = .list) (hi : pyInt s = some i)
    (hbad : i < 0 ∨ x.children.length ≤ i.toNat) : getReferable t (segs ++ s :: rest) = .error .keyError :=
  c07_fails_below hw hx hsegs (.noSuchPosition i (by simp [hl]) hl hi hbad)

/-- a segment that is no integer literal under a list: ValueError -/
theorem c07_non_numeric_index {t x : Tree} {p : Path} {segs rest : List Str} {s : Str} (hw : WFSub t)
    (hx : sub t p = some x) (hsegs : segsAlong t p = some segs) (hl : x.kind = .list) (hi : pyInt s = none) :
    getReferable t (segs ++ s :: rest) = .error .valueError :=
  c07_fails_below hw hx hsegs (.notAnInteger (by simp [hl]) hl hi)

/-- an identifier no provider knows: KeyError -/
theorem c07_unknown_identifier {prov : List Store} {k0 : Key} {rest : List Key} {ty : Cls}
    (hid : k0.type.isAasIdentifiable = true) (hnone : muxGet prov k0.value = none) :
    resolve prov ⟨k0 :: rest, ty⟩ = .error .keyError := by
  simp [resolve, hid, hnone]

/-- every failure of `resolve` on a constructed reference: unknown identifier (KeyError), a failing step below the
    identifiable the provider returned (`Fails`: TypeError / ValueError / KeyError), or an element of another type
    (UnexpectedTypeError, which carries the element found) -/
theorem c07_resolve_fails {prov : List Store} {r r0 : MRef} {e : Err} (hr : mkModelReference r0.keys r0.type = .ok r)
    (h : resolve prov r = .error e) :
    ∃ k0 rest, r.keys = k0 :: rest ∧
      ((muxGet prov k0.value = none ∧ e = .keyError)
       ∨ (∃ u root, muxGet prov k0.value = some (u, root) ∧ Fails root (rest.map (·.value)) e)
       ∨ (∃ u root q n, muxGet prov k0.value = some (u, root) ∧ getReferable root (rest.map (·.value)) = .ok q
            ∧ sub root q = some n ∧ isInstance n.kind r.type = false ∧ e = .unexpectedType)) := by
  unfold mkModelReference at hr
  cases hk : r0.keys with
  | nil => simp [hk] at hr
  | cons k0 rest =>
    simp only [hk] at hr
    by_cases hid : k0.type.isAasIdentifiable = true
    · have hkeys : r.keys = k0 :: rest := by
        simp only [hid, Bool.not_true, Bool.false_eq_true, if_false] at hr
        split at hr
        · cases hr
        · split at hr
          · cases hr
          · split at hr
            · cases hr
            · cases hr; rfl
      refine ⟨k0, rest, hkeys, ?_⟩
      unfold resolve at h
      simp only [hkeys, hid, Bool.not_true, Bool.false_eq_true, if_false] at h
      cases hm : muxGet prov k0.value with
      | none => simp only [hm, Except.error.injEq] at h; exact Or.inl ⟨rfl, h.symm⟩
      | some x =>
        obtain ⟨u, root⟩ := x
        simp only [hm] at h
        cases hg : getReferable root (rest.map (·.value)) with
        | error e' =>
          simp only [hg, Except.error.injEq] at h; subst h
          exact Or.inr (Or.inl ⟨u, root, rfl, getReferable_fails _ _ _ hg⟩)
        | ok q =>
          simp only [hg] at h
          rcases StepsMatch.sub_some _ root q (getReferable_sound _ root q hg) with ⟨n, hn⟩
          simp only [hn] at h
          by_cases hi : isInstance n.kind r.type = true
          · simp [hi] at h
          · simp only [hi, Bool.false_eq_true, if_false, Except.error.injEq] at h
            exact Or.inr (Or.inr ⟨u, root, q, n, rfl, hg, hn, by simpa using hi, h.symm⟩)
    · simp [hid] at hr

/-! ### C07: value objects -/

theorem c07_key_eq_iff (a b : Key) : keyEq a b = true ↔ a = b := by
  cases a; cases b; simp [keyEq, and_comm]

/-- equal keys hash equal: `__hash__` hashes `(value, type)`, the pair `__eq__` compares -/
theorem c07_key_eq_hash {a b : Key} (h : keyEq a b = true) : keyHashArg a = keyHashArg b := by
  rw [(c07_key_eq_iff a b).1 h]

private theorem keysEqZip_hash : ∀ (k1 k2 : List Key), k1.length = k2.length → keysEqZip k1 k2 = true →
    k1.map keyHashArg = k2.map keyHashArg
  | [], [], _, _ => rfl
  | [], _ :: _, hl, _ => by simp at hl
  | _ :: _, [], hl, _ => by simp at hl
  | a :: as, b :: bs, hl, h => by
    simp only [keysEqZip, Bool.and_eq_true] at h
    simp [c07_key_eq_hash h.1, keysEqZip_hash as bs (by simpa using hl) h.2]

/-- equal references hash equal: `__hash__` covers class and key tuple, `__eq__` additionally compares
    referred_semantic_id (and ignores the `type_` of a ModelReference) -/
theorem c07_ref_eq_hash {a b : RefV} (h : refEq a b = true) : refHashArg a = refHashArg b := by
  cases a with | mk c1 k1 t1 r1 =>
  cases b with | mk c2 k2 t2 r2 =>
  unfold refEq at h
  by_cases hc : c1 = c2
  · by_cases hl : k1.length = k2.length
    · simp only [hc, ne_eq, not_true_eq_false, if_false, hl, Bool.and_eq_true] at h
      simp [refHashArg, hc, keysEqZip_hash k1 k2 hl h.1]
    · simp [hc, hl] at h
  · simp [hc] at h

private theorem optRefEq_hash {a b : Option RefV} (h : optRefEq a b = true) :
    a.map refHashArg = b.map refHashArg := by
  cases a <;> cases b <;> simp_all [optRefEq]
  exact c07_ref_eq_hash h

/-- equal specific asset ids hash equal -/
theorem c07_sai_eq_hash {a b : Sai} (h : saiEq a b = true) : saiHashArg a = saiHashArg b := by
  unfold saiEq at h
  simp only [Bool.and_eq_true] at h
  obtain ⟨⟨⟨⟨h1, h2⟩, h3⟩, _⟩, _⟩ := h
  have e1 : a.name = b.name := by simpa using h1
  have e2 : a.value = b.value := by simpa using h2
  unfold saiHashArg
  rw [e1, e2, optRefEq_hash h3]

/-- assignment to any attribute of a Key or a Reference raises; a SpecificAssetId lets through only the two
    protected slots HasSemantics needs and `parent = None` (which is what it already is) — no public attribute -/
theorem c07_immutable (name : Str) (valueIsNone : Bool) :
    keySetattr name = .attributeError ∧ refSetattr name = .attributeError
    ∧ (saiSetattr name valueIsNone = .assigned →
        name = nmSemanticId ∨ name = nmSupplementalSemanticId ∨ (name = nmParent ∧ valueIsNone = true)) := by
  refine ⟨rfl, rfl, ?_⟩
  intro h
  unfold saiSetattr at h
  split at h
  · rename_i hc
    simp only [Bool.or_eq_true, Bool.and_eq_true, decide_eq_true_eq] at hc
    rcases hc with (h1 | h2) | h3
    · exact Or.inl h1
    · exact Or.inr (Or.inl h2)
    · exact Or.inr (Or.inr h3)
  · cases h

/-- FULL CLAIM (false on the pinned tree): nothing reachable through the public attributes of a SpecificAssetId
    changes it.  Negation witness — the known finding `value:SpecificAssetId:supplemental_semantic_id:list-mutable`:
    appending to the handed-out supplemental_semantic_id list succeeds and yields a value that is no longer equal
    to the original while hashing the same. -/
theorem c07_sai_list_mutable_witness :
    ∃ (s s' : Sai) (r : RefV), saiAppendSupplemental s r = .ok s' ∧ saiEq s s' = false ∧ saiHashArg s = saiHashArg s' :=
  ⟨⟨['n'], ['v'], none, some (.mk .external [⟨.globalReference, ['g']⟩] .referable none), []⟩, _,
   .mk .external [⟨.globalReference, ['h']⟩] .referable none, rfl, by decide, by decide⟩

/-! ### non-vacuity: the hypotheses are satisfiable, the statements are not empty -/

/-- a submodel holding a list of lists of properties, an operation and an entity -/
def exTree : Tree :=
  .node .submodel "urn:x".toList none [] [
    .node .list [] (some "outer".toList) [] [
      .node .list [] (some "g0".toList) [] [
        .node .property [] (some "g1".toList) [] [],
        .node .property [] (some "g2".toList) [] []]],
    .node .operation [] (some "op".toList) [] [.node .blob [] (some "in".toList) [] []],
    .node .entity [] (some "e".toList) [] []]

example : WF exTree := wfb_sound (by decide)
example : (sub exTree [0, 0, 1]).map (fun n => (n.kind, n.idShort)) = some (.property, some "g2".toList) := by decide
example : (fromReferable exTree [0, 0, 1]).toOption.map (·.keys.map (·.value)) =
    some ["urn:x".toList, "outer".toList, ['0'], ['1']] := by decide
example : resolve [[], [(7, exTree)]] ⟨[⟨.submodel, "urn:x".toList⟩, ⟨.submodelElementList, "outer".toList⟩,
    ⟨.submodelElementList, ['0']⟩, ⟨.property, ['1']⟩], .k .property⟩ = .ok (7, [0, 0, 1]) := by decide
example : getReferable exTree ["outer".toList, ['0'], "-1".toList] = .error .keyError := by decide
example : getReferable exTree ["outer".toList, "+0".toList, " 1 ".toList] = .ok [0, 0, 1] := by decide
example : getReferable exTree ["outer".toList, ['0'], ['x']] = .error .valueError := by decide
example : getReferable exTree ["op".toList, "in".toList, ['x']] = .error .typeError := by decide
example : getReferable exTree ["nope".toList] = .error .keyError := by decide
example : followStepwise exTree ["outer".toList, ['0'], ['1']] = .ok [0, 0, 1] := by decide
example : keyEq ⟨.submodel, ['a']⟩ ⟨.submodel, ['a']⟩ = true ∧ keyEq ⟨.submodel, ['a']⟩ ⟨.property, ['a']⟩ = false := by decide
example : saiSetattr "parent".toList true = .assigned ∧ saiSetattr "name".toList true = .attributeError := by decide

end Basyx.Tree
