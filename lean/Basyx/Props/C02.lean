/-
  C02 — No accepted operation yields a constraint-violating metamodel object.
  Property theorems only (helpers: `Basyx/Lemmas/Constraints.lean`; model: `Basyx/Model/Constraints.lean`;
  specification: `Basyx/Spec/Constraints.lean`; regenerated tables: `Basyx/Gen/{StrCons,KeyTypes,IntRanges}.lean`).

  Shape: (1) regenerated tables = specification tables (`decide`, re-checked against the source on every run);
  (2) decision functions ⇔ specification predicates for ALL inputs (key chains of any length by induction);
  (3) per-class state machines: `sound` (accepted op keeps the spec predicate), `atomic` (raising op keeps the state),
      `complete` (an op whose plain effect would break the predicate raises the documented error), lifted to all op
      sequences from every constructor-accepted state.
  Where the code (with fixes/C02-*.patch applied) still has a gap, the full statement is kept in a comment, a
  `_partial` theorem is proved under the hypothesis excluding the gap and the negation is proved on a witness.
-/
import Basyx.Lemmas.Constraints
namespace Basyx.Constraints
open Basyx.Gen

/-! ## 1. regenerated tables = specification tables -/

theorem c02_limits_gen_eq_spec : StrCons.limits = Spec.limits := by decide
theorem c02_lang_limits_gen_eq_spec : StrCons.langLimits = Spec.langLimits := by decide
theorem c02_attrs_gen_eq_spec : StrCons.attrs = Spec.attrs := by decide
theorem c02_calls_gen_eq_spec : StrCons.calls = Spec.calls := by decide
theorem c02_id_short_pattern : StrCons.idShortPattern = "[a-zA-Z0-9_]*" := by decide
theorem c02_int_ranges : IntRanges.ranges = Spec.xsdRanges := by decide

/-- the integer-derived members of `AnyXSDType` are exactly the 13 XSD integer types -/
theorem c02_integer_types :
    (IntRanges.xsdBase.filter (fun e => e.2.1 == "int")).map (·.1) = Spec.integerTypes := by decide

/-- AASd-130: the extracted character class is the constraint's character set (all code points) -/
theorem c02_aasd130_ranges (c : Nat) : inRanges StrCons.aasd130Ranges c = true ↔ Spec.aasd130Char c := inRanges_iff c

/-- the `is_*` properties of `KeyTypes` are the metamodel's key-type enumerations -/
theorem c02_keytype_tables (k : KT) :
    (k.is_aas_identifiable = true ↔ k ∈ Spec.aasIdentifiables) ∧
    (k.is_generic_globally_identifiable = true ↔ k ∈ Spec.genericGloballyIdentifiables) ∧
    (k.is_generic_fragment_key = true ↔ k ∈ Spec.genericFragmentKeys) ∧
    (k.is_aas_submodel_element = true ↔ k ∈ Spec.aasSubmodelElements) ∧
    (k.is_aas_referable_non_identifiable = true ↔ k ∈ Spec.aasReferableNonIdentifiables) ∧
    (k.is_fragment_key_element = true ↔ k ∈ Spec.fragmentKeys) ∧
    (k.is_globally_identifiable = true ↔ k ∈ Spec.globallyIdentifiables) :=
  ⟨kt_identifiable k, kt_ggi k, kt_gfk k, kt_sme k, kt_rni k, kt_fke k, kt_gi k⟩

theorem c02_keytype_members : KT.all.length = 22 ∧ (KT.all.map KT.code).Nodup ∧ ∀ k : KT, k ∈ KT.all := by
  refine ⟨by decide, by decide, ?_⟩
  intro k; cases k <;> decide

/-! ## 2a. constrained strings -/

/-- every extracted string type accepts exactly the strings within its limits, over the AASd-130 characters,
    matching the version pattern where the type has one -/
theorem c02_str_bounds (name : String) (mn mx : Nat) (pat : String) (h : (name, mn, mx, pat) ∈ StrCons.limits) (s : Str) :
    checkNamed name s = .ok () ↔ Spec.StrOk mn mx s ∧ (pat ≠ "" → Spec.VersionPattern s) := by
  simp only [StrCons.limits, List.mem_cons, Prod.mk.injEq, List.not_mem_nil, or_false] at h
  rcases h with h | h | h | h | h | h | h | h | h | h | h <;> obtain ⟨rfl, rfl, rfl, rfl⟩ := h
  all_goals first
    | (rw [show checkNamed _ s = check s _ _ "" from rfl, check_plain_iff]; simp)
    | (rw [show checkNamed _ s = check s _ _ "([0-9]|[1-9][0-9]*)" from rfl, check_version_iff]; simp)

/-- … and raises nothing but ValueError -/
theorem c02_str_raises_value_error (name : String) (s : Str) (e : Err) (h : name ∈ StrCons.limits.map (·.1)) :
    checkNamed name s = .error e → e = .valueError := by
  simp only [StrCons.limits, List.map_cons, List.map_nil, List.mem_cons, List.not_mem_nil, or_false] at h
  rcases h with h | h | h | h | h | h | h | h | h | h | h <;> subst h
  all_goals first
    | exact check_err s _ _ "" e
    | exact check_err s _ _ "([0-9]|[1-9][0-9]*)" e

theorem c02_lang_bounds (cls : String) (mn mx : Nat) (h : (cls, mn, mx) ∈ StrCons.langLimits) (s : Str) :
    checkLang cls s = .ok () ↔ Spec.StrOk mn mx s := by
  simp only [StrCons.langLimits, List.mem_cons, Prod.mk.injEq, List.not_mem_nil, or_false] at h
  rcases h with h | h | h | h | h <;> obtain ⟨rfl, rfl, rfl⟩ := h
  all_goals (rw [show checkLang _ s = check s _ _ "" from rfl, check_plain_iff])

/-- AASd-002: `validate_id_short` accepts exactly the spec's idShorts, raising ValueError (NameType) or AASd-002 -/
theorem c02_id_short (s : Str) :
    (validateIdShort s = .ok () ↔ Spec.IdShortOk s) ∧
    (∀ e, validateIdShort s = .error e → e = .valueError ∨ e = .aascv 2) := by
  have hpat : ∀ c, idShortCharOk c = true ↔ (Spec.letter c ∨ Spec.digit c ∨ c = 95) := by
    intro c
    simp only [idShortCharOk, isDigit, Spec.letter, Spec.digit, Bool.or_eq_true, Bool.and_eq_true, decide_eq_true_eq, beq_iff_eq]
    omega
  have halpha : ∀ c, idShortCharOk c = true → (pyIsAlphaCh c = true ↔ Spec.letter c) := by
    intro c hc
    have hlt : c ≤ 122 := by
      simp only [idShortCharOk, isDigit, Bool.or_eq_true, Bool.and_eq_true, decide_eq_true_eq, beq_iff_eq] at hc
      omega
    simp only [pyIsAlphaCh, pyIsLowerCh, pyIsUpperCh, sampleLower, sampleUpper, sampleUncased, Spec.letter, Bool.or_eq_true,
      Bool.and_eq_true, decide_eq_true_eq, List.contains_cons, List.contains_nil, Bool.or_false, beq_iff_eq]
    omega
  unfold validateIdShort
  rw [checkNamed_name]
  by_cases h1 : check s 1 128 "" = .ok ()
  · have s1 := (check_plain_iff s 1 128).1 h1
    simp only [h1, andThen, c02_id_short_pattern, idShortPatternMatch, ↓reduceIte]
    by_cases h2 : s.all idShortCharOk = true
    · simp only [h2, Bool.not_true, Bool.false_eq_true, ↓reduceIte]
      have h2' := List.all_eq_true.1 h2
      cases s with
      | nil => simp [Spec.StrOk] at s1
      | cons c r =>
        have hc := h2' c (List.mem_cons_self ..)
        by_cases h3 : pyIsAlphaCh c = true
        · simp only [h3, Bool.not_true, Bool.false_eq_true, ↓reduceIte, true_iff, reduceCtorEq, false_imp_iff, implies_true, and_true]
          exact ⟨s1, fun x hx => (hpat x).1 (h2' x hx), c, rfl, (halpha c hc).1 h3⟩
        · simp only [h3, Bool.not_false, ↓reduceIte, reduceCtorEq, false_iff]
          refine ⟨?_, fun e he => by cases he; exact Or.inr rfl⟩
          rintro ⟨_, _, c', hc', hl⟩
          simp only [List.head?_cons, Option.some.injEq] at hc'
          subst hc'
          exact h3 ((halpha c hc).2 hl)
    · simp only [h2, Bool.not_false, ↓reduceIte, reduceCtorEq, false_iff]
      refine ⟨?_, fun e he => by cases he; exact Or.inr rfl⟩
      rintro ⟨_, hall, _⟩
      exact h2 (List.all_eq_true.2 (fun x hx => (hpat x).2 (hall x hx)))
  · cases hc : check s 1 128 "" with
    | ok u => cases u; exact absurd hc h1
    | error e' =>
      simp only [andThen, reduceCtorEq, false_iff]
      refine ⟨?_, fun e he => by cases he; exact Or.inl (check_err s 1 128 "" e' hc)⟩
      rintro ⟨h, _⟩
      exact h1 ((check_plain_iff s 1 128).2 h)

/-! ## 2b. references — key chains of ANY length -/

/-- `ModelReference.__init__` accepts a key chain iff AASd-123, -125, -126, -127 and -128 hold -/
theorem c02_ref_equiv (ks : List Key) : modelRefCheck ks = .ok () ↔ Spec.ModelRefOk ks := by
  cases ks with
  | nil =>
    simp only [modelRefCheck, reduceCtorEq, false_iff]
    rintro ⟨⟨k, r, h, _⟩, _⟩
    cases h
  | cons k0 rest =>
    rcases modelRefCheck_spec k0 rest with ⟨h, hs⟩ | ⟨h, hs⟩ | ⟨h, hs⟩ | ⟨h, hs⟩ | ⟨h, hs⟩ | ⟨h, hs⟩
    · simp [h, hs]
    all_goals (rw [h]; simp only [reduceCtorEq, false_iff]; intro hok)
    · exact hs hok.1
    · exact hs hok.2.1
    · exact hs hok.2.2.1
    · exact hs hok.2.2.2.1
    · exact hs hok.2.2.2.2

/-- the AASd number carried by the exception names a constraint the chain really violates -/
theorem c02_ref_raises_named (ks : List Key) (n : Nat) : modelRefCheck ks = .error (.aascv n) → ¬ Spec.aasd n ks := by
  cases ks with
  | nil => simp [modelRefCheck]
  | cons k0 rest =>
    intro he
    rcases modelRefCheck_spec k0 rest with ⟨h, hs⟩ | ⟨h, hs⟩ | ⟨h, hs⟩ | ⟨h, hs⟩ | ⟨h, hs⟩ | ⟨h, hs⟩ <;>
      rw [h] at he <;> cases he <;> simpa [Spec.aasd] using hs

/-- a rejected chain raises ValueError (empty chain) or AASConstraintViolation 123/125/126/127/128, nothing else -/
theorem c02_ref_total (ks : List Key) :
    modelRefCheck ks = .ok () ∨ (ks = [] ∧ modelRefCheck ks = .error .valueError) ∨
    ∃ n, n ∈ [123, 125, 126, 127, 128] ∧ modelRefCheck ks = .error (.aascv n) := by
  cases ks with
  | nil => exact Or.inr (Or.inl ⟨rfl, rfl⟩)
  | cons k0 rest =>
    rcases modelRefCheck_spec k0 rest with ⟨h, _⟩ | ⟨h, _⟩ | ⟨h, _⟩ | ⟨h, _⟩ | ⟨h, _⟩ | ⟨h, _⟩
    · exact Or.inl h
    · exact Or.inr (Or.inr ⟨123, by simp, h⟩)
    · exact Or.inr (Or.inr ⟨125, by simp, h⟩)
    · exact Or.inr (Or.inr ⟨126, by simp, h⟩)
    · exact Or.inr (Or.inr ⟨127, by simp, h⟩)
    · exact Or.inr (Or.inr ⟨128, by simp, h⟩)

/-- `ExternalReference.__init__` accepts iff AASd-122 and AASd-124 hold -/
theorem c02_extref_equiv (ks : List Key) : extRefCheck ks = .ok () ↔ Spec.ExtRefOk ks := by
  cases ks with
  | nil =>
    simp only [extRefCheck, reduceCtorEq, false_iff]
    rintro ⟨⟨k, r, h, _⟩, _⟩
    cases h
  | cons k0 rest =>
    rcases extRefCheck_spec k0 rest with ⟨h, hs⟩ | ⟨h, hs⟩ | ⟨h, hs⟩
    · simp [h, hs]
    · rw [h]; simp only [reduceCtorEq, false_iff]; intro hok; exact hs hok.1
    · rw [h]; simp only [reduceCtorEq, false_iff]; intro hok; exact hs hok.2

theorem c02_extref_raises_named (ks : List Key) (n : Nat) : extRefCheck ks = .error (.aascv n) → ¬ Spec.aasd n ks := by
  cases ks with
  | nil => simp [extRefCheck]
  | cons k0 rest =>
    intro he
    rcases extRefCheck_spec k0 rest with ⟨h, hs⟩ | ⟨h, hs⟩ | ⟨h, hs⟩ <;>
      rw [h] at he <;> cases he <;> simpa [Spec.aasd] using hs

/-- AASd-121 is enforced through AASd-122 / AASd-123 -/
theorem c02_ref_aasd121 (ks : List Key) : (modelRefCheck ks = .ok () ∨ extRefCheck ks = .ok ()) → Spec.aasd121 ks := by
  rintro (h | h)
  · obtain ⟨⟨k, r, hk, hm⟩, _⟩ := (c02_ref_equiv ks).1 h
    exact ⟨k, r, hk, by simp only [Spec.globallyIdentifiables, List.mem_append]; exact Or.inr hm⟩
  · obtain ⟨⟨k, r, hk, hm⟩, _⟩ := (c02_extref_equiv ks).1 h
    exact ⟨k, r, hk, by simp only [Spec.globallyIdentifiables, List.mem_append]; exact Or.inl hm⟩

-- non-vacuity: a valid chain of length 6 is accepted; the shortest chain with a non-final fragment key (length 5,
-- beyond any 22^4 enumeration) is rejected with AASd-126; a non-integer list index with AASd-128.
example : modelRefCheck [⟨.SUBMODEL, false⟩, ⟨.SUBMODEL_ELEMENT_LIST, false⟩, ⟨.SUBMODEL_ELEMENT_COLLECTION, true⟩,
    ⟨.PROPERTY, false⟩, ⟨.FILE, false⟩, ⟨.FRAGMENT_REFERENCE, false⟩] = .ok () := by decide
example : modelRefCheck [⟨.SUBMODEL, false⟩, ⟨.FILE, false⟩, ⟨.FRAGMENT_REFERENCE, false⟩, ⟨.BLOB, false⟩,
    ⟨.FRAGMENT_REFERENCE, false⟩] = .error (.aascv 126) := by decide
example : modelRefCheck [⟨.SUBMODEL, false⟩, ⟨.SUBMODEL_ELEMENT_LIST, false⟩, ⟨.PROPERTY, false⟩] = .error (.aascv 128) := by decide
example : extRefCheck [⟨.GLOBAL_REFERENCE, false⟩, ⟨.SUBMODEL, false⟩, ⟨.FRAGMENT_REFERENCE, false⟩] = .ok () := by decide

/-! ## 3a. Entity (AASd-014) -/

def EntityOk (s : Entity) : Prop := Spec.optStr 1 2000 s.gid ∧ Spec.aasd014 s.etype s.gid s.sids

/-- the plain effect of an op: attribute assignment / plain Python list operation, no validation -/
def Entity.effect (s : Entity) : EntityOp → Res Entity
  | .setType t => .ok { s with etype := t }
  | .setGid g => .ok { s with gid := g }
  | .list op => match listEffect s.sids op with | .ok l => .ok { s with sids := l } | .error e => .error e

def Entity.run (s : Entity) : List EntityOp → Entity
  | [] => s
  | op :: r => Entity.run (s.step op).1 r

theorem c02_entity_ctor (t : EntityType) (g : Option Str) (l : List Nat) (s : Entity) :
    Entity.ctor t g l = .ok s → s = ⟨t, g, l⟩ ∧ EntityOk s := by
  unfold Entity.ctor
  simp only [andThen_ok]
  rintro ⟨_, hg, hv, hs⟩
  cases hs
  exact ⟨rfl, (checkOpt_identifier_iff g).1 hg, (aasd014_iff t g l).2 (validate014_ok hv)⟩

theorem c02_entity_sound (s : Entity) (op : EntityOp) (hok : EntityOk s) :
    (s.step op).2 = .ok () → EntityOk (s.step op).1 := by
  cases op with
  | setType t =>
    simp only [Entity.step]
    cases hv : validate014 t s.gid (decide (s.sids.length > 0)) with
    | ok u => intro _; exact ⟨hok.1, (aasd014_iff _ _ _).2 (validate014_ok hv)⟩
    | error e => simp
  | setGid g =>
    simp only [Entity.step]
    cases hv : andThen (checkOpt "identifier" g) (validate014 s.etype g (decide (s.sids.length > 0))) with
    | ok u =>
      cases u
      rw [andThen_ok] at hv
      intro _; exact ⟨(checkOpt_identifier_iff g).1 hv.1, (aasd014_iff _ _ _).2 (validate014_ok hv.2)⟩
    | error e => simp
  | list lop =>
    simp only [Entity.step]
    cases hv : listStep (entityHooks s.etype s.gid) s.sids lop with
    | ok l =>
      intro _
      exact ⟨hok.1, (aasd014_iff _ _ _).2
        (listStep_sound _ _ (entityHooks_sound s.etype s.gid) s.sids lop l ((aasd014_iff _ _ _).1 hok.2) hv)⟩
    | error e => simp

theorem c02_entity_atomic (s : Entity) (op : EntityOp) : (s.step op).2 ≠ .ok () → (s.step op).1 = s := by
  cases op <;> simp only [Entity.step] <;> split <;> simp

/-- an accepted op did exactly the plain assignment / list operation -/
theorem c02_entity_refines (s : Entity) (op : EntityOp) : (s.step op).2 = .ok () → s.effect op = .ok (s.step op).1 := by
  cases op with
  | setType t => simp only [Entity.step, Entity.effect]; split <;> simp
  | setGid g => simp only [Entity.step, Entity.effect]; split <;> simp
  | list lop =>
    simp only [Entity.step, Entity.effect]
    cases hv : listStep (entityHooks s.etype s.gid) s.sids lop with
    | ok l => simp [listStep_refines _ _ _ _ hv]
    | error e => simp

/-- an op whose plain effect would leave the entity violating the specification raises:
    ValueError for a malformed globalAssetId, else AASConstraintViolation 14 -/
theorem c02_entity_complete (s t : Entity) (op : EntityOp) (hok : EntityOk s) (heff : s.effect op = .ok t) (hbad : ¬ EntityOk t) :
    (s.step op).2 = .error .valueError ∨ (s.step op).2 = .error (.aascv 14) := by
  cases op with
  | setType ty =>
    simp only [Entity.effect, Except.ok.injEq] at heff
    subst heff
    have : ¬ P014 ty s.gid (decide (s.sids.length > 0)) := fun h => hbad ⟨hok.1, (aasd014_iff _ _ _).2 h⟩
    simp [Entity.step, validate014_bad this]
  | setGid g =>
    simp only [Entity.effect, Except.ok.injEq] at heff
    subst heff
    simp only [Entity.step]
    cases hc : checkOpt "identifier" g with
    | error e =>
      have := checkOpt_err "identifier" g e (Or.inl rfl) hc
      subst this
      simp [andThen]
    | ok u =>
      have hg := (checkOpt_identifier_iff g).1 (by cases u; exact hc)
      have : ¬ P014 s.etype g (decide (s.sids.length > 0)) := fun h => hbad ⟨hg, (aasd014_iff _ _ _).2 h⟩
      simp [andThen, validate014_bad this]
  | list lop =>
    simp only [Entity.effect] at heff
    cases hl : listEffect s.sids lop with
    | error e => rw [hl] at heff; cases heff
    | ok l =>
      rw [hl] at heff
      simp only [Except.ok.injEq] at heff
      subst heff
      have hb : ¬ P014 s.etype s.gid (decide (l.length > 0)) := fun h => hbad ⟨hok.1, (aasd014_iff _ _ _).2 h⟩
      have := listStep_complete _ _ _ (entityHooks_sound s.etype s.gid) (entityHooks_complete s.etype s.gid) s.sids lop l
        ((aasd014_iff _ _ _).1 hok.2) hl hb
      simp [Entity.step, this]

/-- every op sequence from every constructor-accepted entity keeps the specification -/
theorem c02_entity_run (s : Entity) (hok : EntityOk s) : ∀ ops : List EntityOp, EntityOk (s.run ops) := by
  intro ops
  induction ops generalizing s with
  | nil => exact hok
  | cons op r ih =>
    apply ih
    by_cases h : (s.step op).2 = .ok ()
    · exact c02_entity_sound s op hok h
    · rw [c02_entity_atomic s op h]; exact hok

-- non-vacuity: a self-managed entity with one specific asset id; popping it is refused, adding a global id first makes it legal
example : Entity.ctor .selfManaged none [7] = .ok ⟨.selfManaged, none, [7]⟩ := by decide
example : (Entity.step ⟨.selfManaged, none, [7]⟩ (.list (.pop none))).2 = .error (.aascv 14) := by decide
example : (Entity.run ⟨.selfManaged, none, [7]⟩ [.setGid (some [103]), .list .clear]) = ⟨.selfManaged, some [103], []⟩ := by decide

end Basyx.Constraints
