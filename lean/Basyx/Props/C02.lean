/-
  C02 — No accepted operation yields a constraint-violating metamodel object.
  Property theorems only (helpers: `Basyx/Lemmas/Constraints.lean`; model: `Basyx/Model/Constraints.lean`;
  specification: `Basyx/Spec/Constraints.lean`; regenerated tables: `Basyx/Gen/{StrCons,KeyTypes,IntRanges}.lean`).

  Shape: (1) regenerated tables = specification tables (`decide`, re-checked against the source on every run);
  (2) decision functions ⇔ specification predicates for ALL inputs (key chains of any length by induction);
  (3) per-class state machines: `sound` (accepted op keeps the spec predicate), `atomic` (raising op keeps the state),
      `complete` (an op whose plain effect would break the predicate raises the documented error), lifted to all op
      sequences from every constructor-accepted state.
  Where the code (with fixes/C02-*.patch applied) still has a gap, the full statement is kept in a comment, a
  `_partial` theorem is proved under the hypothesis excluding the gap and the negation is proved on a witness.
-/
import Basyx.Lemmas.Constraints
namespace Basyx.Constraints
open Basyx.Gen

/-! ## 1. regenerated tables = specification tables -/

theorem c02_limits_gen_eq_spec : StrCons.limits = Spec.limits := by decide
theorem c02_lang_limits_gen_eq_spec : StrCons.langLimits = Spec.langLimits := by decide
theorem c02_attrs_gen_eq_spec : StrCons.attrs = Spec.attrs := by decide
theorem c02_calls_gen_eq_spec : StrCons.calls = Spec.calls := by decide
theorem c02_id_short_pattern : StrCons.idShortPattern = "[a-zA-Z0-9_]*" := by decide
theorem c02_int_ranges : IntRanges.ranges = Spec.xsdRanges := by decide

/-- the integer-derived members of `AnyXSDType` are exactly the 13 XSD integer types -/
theorem c02_integer_types :
    (IntRanges.xsdBase.filter (fun e => e.2.1 == "int")).map (·.1) = Spec.integerTypes := by decide

/-- AASd-130: the extracted character class is the constraint's character set (all code points) -/
theorem c02_aasd130_ranges (c : Nat) : inRanges StrCons.aasd130Ranges c = true ↔ Spec.aasd130Char c := inRanges_iff c

/-- the `is_*` properties of `KeyTypes` are the metamodel's key-type enumerations -/
theorem c02_keytype_tables (k : KT) :
    (k.is_aas_identifiable = true ↔ k ∈ Spec.aasIdentifiables) ∧
    (k.is_generic_globally_identifiable = true ↔ k ∈ Spec.genericGloballyIdentifiables) ∧
    (k.is_generic_fragment_key = true ↔ k ∈ Spec.genericFragmentKeys) ∧
    (k.is_aas_submodel_element = true ↔ k ∈ Spec.aasSubmodelElements) ∧
    (k.is_aas_referable_non_identifiable = true ↔ k ∈ Spec.aasReferableNonIdentifiables) ∧
    (k.is_fragment_key_element = true ↔ k ∈ Spec.fragmentKeys) ∧
    (k.is_globally_identifiable = true ↔ k ∈ Spec.globallyIdentifiables) :=
  ⟨kt_identifiable k, kt_ggi k, kt_gfk k, kt_sme k, kt_rni k, kt_fke k, kt_gi k⟩

theorem c02_keytype_members : KT.all.length = 22 ∧ (KT.all.map KT.code).Nodup ∧ ∀ k : KT, k ∈ KT.all := by
  refine ⟨by decide, by decide, ?_⟩
  intro k; cases k <;> decide

/-! ## 2a. constrained strings -/

/-- every extracted string type accepts exactly the strings within its limits, over the AASd-130 characters,
    matching the version pattern where the type has one -/
theorem c02_str_bounds (name : String) (mn mx : Nat) (pat : String) (h : (name, mn, mx, pat) ∈ StrCons.limits) (s : Str) :
    checkNamed name s = .ok () ↔ Spec.StrOk mn mx s ∧ (pat ≠ "" → Spec.VersionPattern s) := by
  simp only [StrCons.limits, List.mem_cons, Prod.mk.injEq, List.not_mem_nil, or_false] at h
  rcases h with h | h | h | h | h | h | h | h | h | h | h <;> obtain ⟨rfl, rfl, rfl, rfl⟩ := h
  all_goals first
    | (rw [show checkNamed _ s = check s _ _ "" from rfl, check_plain_iff]; simp)
    | (rw [show checkNamed _ s = check s _ _ "([0-9]|[1-9][0-9]*)" from rfl, check_version_iff]; simp)

/-- … and raises nothing but ValueError -/
theorem c02_str_raises_value_error (name : String) (s : Str) (e : Err) (h : name ∈ StrCons.limits.map (·.1)) :
    checkNamed name s = .error e → e = .valueError := by
  simp only [StrCons.limits, List.map_cons, List.map_nil, List.mem_cons, List.not_mem_nil, or_false] at h
  rcases h with h | h | h | h | h | h | h | h | h | h | h <;> subst h
  all_goals first
    | exact check_err s _ _ "" e
    | exact check_err s _ _ "([0-9]|[1-9][0-9]*)" e

theorem c02_lang_bounds (cls : String) (mn mx : Nat) (h : (cls, mn, mx) ∈ StrCons.langLimits) (s : Str) :
    checkLang cls s = .ok () ↔ Spec.StrOk mn mx s := by
  simp only [StrCons.langLimits, List.mem_cons, Prod.mk.injEq, List.not_mem_nil, or_false] at h
  rcases h with h | h | h | h | h <;> obtain ⟨rfl, rfl, rfl⟩ := h
  all_goals (rw [show checkLang _ s = check s _ _ "" from rfl, check_plain_iff])

/-- AASd-002: `validate_id_short` accepts exactly the spec's idShorts, raising ValueError (NameType) or AASd-002 -/
theorem c02_id_short (s : Str) :
    (validateIdShort s = .ok () ↔ Spec.IdShortOk s) ∧
    (∀ e, validateIdShort s = .error e → e = .valueError ∨ e = .aascv 2) := by
  have hpat : ∀ c, idShortCharOk c = true ↔ (Spec.letter c ∨ Spec.digit c ∨ c = 95) := by
    intro c
    simp only [idShortCharOk, isDigit, Spec.letter, Spec.digit, Bool.or_eq_true, Bool.and_eq_true, decide_eq_true_eq, beq_iff_eq]
    omega
  have halpha : ∀ c, idShortCharOk c = true → (pyIsAlphaCh c = true ↔ Spec.letter c) := by
    intro c hc
    have hlt : c ≤ 122 := by
      simp only [idShortCharOk, isDigit, Bool.or_eq_true, Bool.and_eq_true, decide_eq_true_eq, beq_iff_eq] at hc
      omega
    simp only [pyIsAlphaCh, pyIsLowerCh, pyIsUpperCh, sampleLower, sampleUpper, sampleUncased, Spec.letter, Bool.or_eq_true,
      Bool.and_eq_true, decide_eq_true_eq, List.contains_cons, List.contains_nil, Bool.or_false, beq_iff_eq]
    omega
  have hm : idShortPatternMatch StrCons.idShortPattern s = s.all idShortCharOk := by
    unfold idShortPatternMatch; rw [if_pos (by decide)]
  unfold validateIdShort
  rw [checkNamed_name, hm]
  cases hc : check s 1 128 "" with
  | error e' =>
    simp only [andThen, reduceCtorEq, false_iff]
    refine ⟨?_, fun e he => by cases he; exact Or.inl (check_err s 1 128 "" e' hc)⟩
    rintro ⟨h, _⟩
    rw [(check_plain_iff s 1 128).2 h] at hc; cases hc
  | ok u =>
    cases u
    have s1 := (check_plain_iff s 1 128).1 hc
    simp only [andThen]
    by_cases h2 : s.all idShortCharOk = true
    · rw [h2]
      simp only [Bool.not_true, Bool.false_eq_true, ↓reduceIte]
      have h2' := List.all_eq_true.1 h2
      cases s with
      | nil => simp [Spec.StrOk] at s1
      | cons c r =>
        have hcc := h2' c (List.mem_cons_self ..)
        dsimp only
        by_cases h3 : pyIsAlphaCh c = true
        · rw [h3]
          simp only [Bool.not_true, Bool.false_eq_true, ↓reduceIte, true_iff, reduceCtorEq, false_imp_iff, implies_true, and_true]
          exact ⟨s1, fun x hx => (hpat x).1 (h2' x hx), c, rfl, (halpha c hcc).1 h3⟩
        · have h3' : pyIsAlphaCh c = false := by simpa using h3
          rw [h3']
          simp only [Bool.not_false, ↓reduceIte, reduceCtorEq, false_iff]
          refine ⟨?_, fun e he => by cases he; exact Or.inr rfl⟩
          rintro ⟨_, _, c', hc', hl⟩
          simp only [List.head?_cons, Option.some.injEq] at hc'
          subst hc'
          exact h3 ((halpha c hcc).2 hl)
    · have h2' : s.all idShortCharOk = false := by simpa using h2
      rw [h2']
      simp only [Bool.not_false, ↓reduceIte, reduceCtorEq, false_iff]
      refine ⟨?_, fun e he => by cases he; exact Or.inr rfl⟩
      rintro ⟨_, hall, _⟩
      exact h2 (List.all_eq_true.2 (fun x hx => (hpat x).2 (hall x hx)))

/-! ## 2b. references — key chains of ANY length -/

/-- `ModelReference.__init__` accepts a key chain iff AASd-123, -125, -126, -127 and -128 hold -/
theorem c02_ref_equiv (ks : List Key) : modelRefCheck ks = .ok () ↔ Spec.ModelRefOk ks := by
  cases ks with
  | nil =>
    simp only [modelRefCheck, reduceCtorEq, false_iff]
    rintro ⟨⟨k, r, h, _⟩, _⟩
    cases h
  | cons k0 rest =>
    rcases modelRefCheck_spec k0 rest with ⟨h, hs⟩ | ⟨h, hs⟩ | ⟨h, hs⟩ | ⟨h, hs⟩ | ⟨h, hs⟩ | ⟨h, hs⟩
    · simp [h, hs]
    all_goals (rw [h]; simp only [reduceCtorEq, false_iff]; intro hok)
    · exact hs hok.1
    · exact hs hok.2.1
    · exact hs hok.2.2.1
    · exact hs hok.2.2.2.1
    · exact hs hok.2.2.2.2

/-- the AASd number carried by the exception names a constraint the chain really violates -/
theorem c02_ref_raises_named (ks : List Key) (n : Nat) : modelRefCheck ks = .error (.aascv n) → ¬ Spec.aasd n ks := by
  cases ks with
  | nil => simp [modelRefCheck]
  | cons k0 rest =>
    intro he
    rcases modelRefCheck_spec k0 rest with ⟨h, hs⟩ | ⟨h, hs⟩ | ⟨h, hs⟩ | ⟨h, hs⟩ | ⟨h, hs⟩ | ⟨h, hs⟩ <;>
      rw [h] at he <;> cases he <;> simpa [Spec.aasd] using hs

/-- a rejected chain raises ValueError (empty chain) or AASConstraintViolation 123/125/126/127/128, nothing else -/
theorem c02_ref_total (ks : List Key) :
    modelRefCheck ks = .ok () ∨ (ks = [] ∧ modelRefCheck ks = .error .valueError) ∨
    ∃ n, n ∈ [123, 125, 126, 127, 128] ∧ modelRefCheck ks = .error (.aascv n) := by
  cases ks with
  | nil => exact Or.inr (Or.inl ⟨rfl, rfl⟩)
  | cons k0 rest =>
    rcases modelRefCheck_spec k0 rest with ⟨h, _⟩ | ⟨h, _⟩ | ⟨h, _⟩ | ⟨h, _⟩ | ⟨h, _⟩ | ⟨h, _⟩
    · exact Or.inl h
    · exact Or.inr (Or.inr ⟨123, by simp, h⟩)
    · exact Or.inr (Or.inr ⟨125, by simp, h⟩)
    · exact Or.inr (Or.inr ⟨126, by simp, h⟩)
    · exact Or.inr (Or.inr ⟨127, by simp, h⟩)
    · exact Or.inr (Or.inr ⟨128, by simp, h⟩)

/-- `ExternalReference.__init__` accepts iff AASd-122 and AASd-124 hold -/
theorem c02_extref_equiv (ks : List Key) : extRefCheck ks = .ok () ↔ Spec.ExtRefOk ks := by
  cases ks with
  | nil =>
    simp only [extRefCheck, reduceCtorEq, false_iff]
    rintro ⟨⟨k, r, h, _⟩, _⟩
    cases h
  | cons k0 rest =>
    rcases extRefCheck_spec k0 rest with ⟨h, hs⟩ | ⟨h, hs⟩ | ⟨h, hs⟩
    · simp [h, hs]
    · rw [h]; simp only [reduceCtorEq, false_iff]; intro hok; exact hs hok.1
    · rw [h]; simp only [reduceCtorEq, false_iff]; intro hok; exact hs hok.2

theorem c02_extref_raises_named (ks : List Key) (n : Nat) : extRefCheck ks = .error (.aascv n) → ¬ Spec.aasd n ks := by
  cases ks with
  | nil => simp [extRefCheck]
  | cons k0 rest =>
    intro he
    rcases extRefCheck_spec k0 rest with ⟨h, hs⟩ | ⟨h, hs⟩ | ⟨h, hs⟩ <;>
      rw [h] at he <;> cases he <;> simpa [Spec.aasd] using hs

/-- AASd-121 is enforced through AASd-122 / AASd-123 -/
theorem c02_ref_aasd121 (ks : List Key) : (modelRefCheck ks = .ok () ∨ extRefCheck ks = .ok ()) → Spec.aasd121 ks := by
  rintro (h | h)
  · obtain ⟨⟨k, r, hk, hm⟩, _⟩ := (c02_ref_equiv ks).1 h
    exact ⟨k, r, hk, by simp only [Spec.globallyIdentifiables, List.mem_append]; exact Or.inr hm⟩
  · obtain ⟨⟨k, r, hk, hm⟩, _⟩ := (c02_extref_equiv ks).1 h
    exact ⟨k, r, hk, by simp only [Spec.globallyIdentifiables, List.mem_append]; exact Or.inl hm⟩

-- non-vacuity: a valid chain of length 6 is accepted; the shortest chain with a non-final fragment key (length 5,
-- beyond any 22^4 enumeration) is rejected with AASd-126; a non-integer list index with AASd-128.
example : modelRefCheck [⟨.SUBMODEL, false⟩, ⟨.SUBMODEL_ELEMENT_LIST, false⟩, ⟨.SUBMODEL_ELEMENT_COLLECTION, true⟩,
    ⟨.PROPERTY, false⟩, ⟨.FILE, false⟩, ⟨.FRAGMENT_REFERENCE, false⟩] = .ok () := by decide
example : modelRefCheck [⟨.SUBMODEL, false⟩, ⟨.FILE, false⟩, ⟨.FRAGMENT_REFERENCE, false⟩, ⟨.BLOB, false⟩,
    ⟨.FRAGMENT_REFERENCE, false⟩] = .error (.aascv 126) := by decide
example : modelRefCheck [⟨.SUBMODEL, false⟩, ⟨.SUBMODEL_ELEMENT_LIST, false⟩, ⟨.PROPERTY, false⟩] = .error (.aascv 128) := by decide
example : extRefCheck [⟨.GLOBAL_REFERENCE, false⟩, ⟨.SUBMODEL, false⟩, ⟨.FRAGMENT_REFERENCE, false⟩] = .ok () := by decide

/-! ## 3a. Entity (AASd-014) -/

def EntityOk (s : Entity) : Prop := Spec.optStr 1 2000 s.gid ∧ Spec.aasd014 s.etype s.gid s.sids

/-- the plain effect of an op: attribute assignment / plain Python list operation, no validation -/
def Entity.effect (s : Entity) : EntityOp → Res Entity
  | .setType t => .ok { s with etype := t }
  | .setGid g => .ok { s with gid := g }
  | .list op => match listEffect s.sids op with | .ok l => .ok { s with sids := l } | .error e => .error e

def Entity.run (s : Entity) : List EntityOp → Entity
  | [] => s
  | op :: r => Entity.run (s.step op).1 r

theorem c02_entity_ctor (t : EntityType) (g : Option Str) (l : List Nat) (s : Entity) :
    Entity.ctor t g l = .ok s → s = ⟨t, g, l⟩ ∧ EntityOk s := by
  unfold Entity.ctor
  simp only [andThen_ok]
  rintro ⟨_, hg, hv, hs⟩
  cases hs
  exact ⟨rfl, (checkOpt_identifier_iff g).1 hg, (aasd014_iff t g l).2 (validate014_ok hv)⟩

theorem c02_entity_sound (s : Entity) (op : EntityOp) (hok : EntityOk s) :
    (s.step op).2 = .ok () → EntityOk (s.step op).1 := by
  cases op with
  | setType t =>
    simp only [Entity.step]
    cases hv : validate014 t s.gid (decide (s.sids.length > 0)) with
    | ok u => intro _; exact ⟨hok.1, (aasd014_iff _ _ _).2 (validate014_ok hv)⟩
    | error e => simp
  | setGid g =>
    simp only [Entity.step]
    cases hv : andThen (checkOpt "identifier" g) (validate014 s.etype g (decide (s.sids.length > 0))) with
    | ok u =>
      cases u
      rw [andThen_ok] at hv
      intro _; exact ⟨(checkOpt_identifier_iff g).1 hv.1, (aasd014_iff _ _ _).2 (validate014_ok hv.2)⟩
    | error e => simp
  | list lop =>
    simp only [Entity.step]
    cases hv : listStep (entityHooks s.etype s.gid) s.sids lop with
    | ok l =>
      intro _
      exact ⟨hok.1, (aasd014_iff _ _ _).2
        (listStep_sound _ _ (entityHooks_sound s.etype s.gid) s.sids lop l ((aasd014_iff _ _ _).1 hok.2) hv)⟩
    | error e => simp

theorem c02_entity_atomic (s : Entity) (op : EntityOp) : (s.step op).2 ≠ .ok () → (s.step op).1 = s := by
  cases op <;> simp only [Entity.step] <;> split <;> simp

/-- an accepted op did exactly the plain assignment / list operation -/
theorem c02_entity_refines (s : Entity) (op : EntityOp) : (s.step op).2 = .ok () → s.effect op = .ok (s.step op).1 := by
  cases op with
  | setType t => simp only [Entity.step, Entity.effect]; split <;> simp
  | setGid g => simp only [Entity.step, Entity.effect]; split <;> simp
  | list lop =>
    simp only [Entity.step, Entity.effect]
    cases hv : listStep (entityHooks s.etype s.gid) s.sids lop with
    | ok l => simp [listStep_refines _ _ _ _ hv]
    | error e => simp

/-- an op whose plain effect would leave the entity violating the specification raises:
    ValueError for a malformed globalAssetId, else AASConstraintViolation 14 -/
theorem c02_entity_complete (s t : Entity) (op : EntityOp) (hok : EntityOk s) (heff : s.effect op = .ok t) (hbad : ¬ EntityOk t) :
    (s.step op).2 = .error .valueError ∨ (s.step op).2 = .error (.aascv 14) := by
  cases op with
  | setType ty =>
    simp only [Entity.effect, Except.ok.injEq] at heff
    subst heff
    have : ¬ P014 ty s.gid (decide (s.sids.length > 0)) := fun h => hbad ⟨hok.1, (aasd014_iff _ _ _).2 h⟩
    simp [Entity.step, validate014_bad this]
  | setGid g =>
    simp only [Entity.effect, Except.ok.injEq] at heff
    subst heff
    simp only [Entity.step]
    cases hc : checkOpt "identifier" g with
    | error e =>
      have := checkOpt_err "identifier" g e (Or.inl rfl) hc
      subst this
      simp [andThen]
    | ok u =>
      have hg := (checkOpt_identifier_iff g).1 (by cases u; exact hc)
      have : ¬ P014 s.etype g (decide (s.sids.length > 0)) := fun h => hbad ⟨hg, (aasd014_iff _ _ _).2 h⟩
      simp [andThen, validate014_bad this]
  | list lop =>
    simp only [Entity.effect] at heff
    cases hl : listEffect s.sids lop with
    | error e => rw [hl] at heff; cases heff
    | ok l =>
      rw [hl] at heff
      simp only [Except.ok.injEq] at heff
      subst heff
      have hb : ¬ P014 s.etype s.gid (decide (l.length > 0)) := fun h => hbad ⟨hok.1, (aasd014_iff _ _ _).2 h⟩
      have := listStep_complete _ _ _ (entityHooks_sound s.etype s.gid) (entityHooks_complete s.etype s.gid) s.sids lop l
        ((aasd014_iff _ _ _).1 hok.2) hl hb
      simp [Entity.step, this]

/-- every op sequence from every constructor-accepted entity keeps the specification -/
theorem c02_entity_run (s : Entity) (hok : EntityOk s) : ∀ ops : List EntityOp, EntityOk (s.run ops) := by
  intro ops
  induction ops generalizing s with
  | nil => exact hok
  | cons op r ih =>
    apply ih
    by_cases h : (s.step op).2 = .ok ()
    · exact c02_entity_sound s op hok h
    · rw [c02_entity_atomic s op h]; exact hok

-- non-vacuity: a self-managed entity with one specific asset id; popping it is refused, adding a global id first makes it legal
example : Entity.ctor .selfManaged none [7] = .ok ⟨.selfManaged, none, [7]⟩ := by decide
example : (Entity.step ⟨.selfManaged, none, [7]⟩ (.list (.pop none))).2 = .error (.aascv 14) := by decide
example : (Entity.run ⟨.selfManaged, none, [7]⟩ [.setGid (some [103]), .list .clear]) = ⟨.selfManaged, some [103], []⟩ := by decide

/-! ## 3b. AssetInformation (AASd-131) -/

def AssetOk (s : Asset) : Prop := Spec.optStr 1 2000 s.gid ∧ Spec.optStr 1 2000 s.assetType ∧ Spec.aasd131 s.gid s.sids

def Asset.effect (s : Asset) : AssetOp → Res Asset
  | .setGid g => .ok { s with gid := g }
  | .setAssetType t => .ok { s with assetType := t }
  | .list op => match listEffect s.sids op with | .ok l => .ok { s with sids := l } | .error e => .error e

def Asset.run (s : Asset) : List AssetOp → Asset
  | [] => s
  | op :: r => Asset.run (s.step op).1 r

theorem c02_asset_ctor (g : Option Str) (l : List Nat) (t : Option Str) (s : Asset) :
    Asset.ctor g l t = .ok s → s = ⟨g, l, t⟩ ∧ AssetOk s := by
  unfold Asset.ctor
  simp only [andThen_ok]
  rintro ⟨ht, hg, hv, hs⟩
  cases hs
  exact ⟨rfl, (checkOpt_identifier_iff g).1 hg, (checkOpt_identifier_iff t).1 ht, (aasd131_iff g l).2 (validate131_ok hv).1⟩

theorem c02_asset_sound (s : Asset) (op : AssetOp) (hok : AssetOk s) : (s.step op).2 = .ok () → AssetOk (s.step op).1 := by
  cases op with
  | setGid g =>
    simp only [Asset.step]
    cases hv : andThen (checkOpt "identifier" g) (validate131 g (decide (s.sids.length > 0))) with
    | ok u =>
      cases u
      rw [andThen_ok] at hv
      intro _; exact ⟨(checkOpt_identifier_iff g).1 hv.1, hok.2.1, (aasd131_iff _ _).2 (validate131_ok hv.2).1⟩
    | error e => simp
  | setAssetType t =>
    simp only [Asset.step]
    cases hv : checkOpt "identifier" t with
    | ok u => cases u; intro _; exact ⟨hok.1, (checkOpt_identifier_iff t).1 hv, hok.2.2⟩
    | error e => simp
  | list lop =>
    simp only [Asset.step]
    cases hv : listStep (assetHooks s.gid) s.sids lop with
    | ok l =>
      intro _
      exact ⟨hok.1, hok.2.1, (aasd131_iff _ _).2
        (listStep_sound _ _ (assetHooks_sound s.gid) s.sids lop l ((aasd131_iff _ _).1 hok.2.2) hv)⟩
    | error e => simp

theorem c02_asset_atomic (s : Asset) (op : AssetOp) : (s.step op).2 ≠ .ok () → (s.step op).1 = s := by
  cases op <;> simp only [Asset.step] <;> split <;> simp

theorem c02_asset_refines (s : Asset) (op : AssetOp) : (s.step op).2 = .ok () → s.effect op = .ok (s.step op).1 := by
  cases op with
  | setGid g => simp only [Asset.step, Asset.effect]; split <;> simp
  | setAssetType t => simp only [Asset.step, Asset.effect]; split <;> simp
  | list lop =>
    simp only [Asset.step, Asset.effect]
    cases hv : listStep (assetHooks s.gid) s.sids lop with
    | ok l => simp [listStep_refines _ _ _ _ hv]
    | error e => simp

theorem c02_asset_complete (s t : Asset) (op : AssetOp) (hok : AssetOk s) (heff : s.effect op = .ok t) (hbad : ¬ AssetOk t) :
    (s.step op).2 = .error .valueError ∨ (s.step op).2 = .error (.aascv 131) := by
  cases op with
  | setGid g =>
    simp only [Asset.effect, Except.ok.injEq] at heff
    subst heff
    simp only [Asset.step]
    cases hc : checkOpt "identifier" g with
    | error e =>
      have := checkOpt_err "identifier" g e (Or.inl rfl) hc
      subst this
      simp [andThen]
    | ok u =>
      have hg := (checkOpt_identifier_iff g).1 (by cases u; exact hc)
      have : ¬ P131 g (decide (s.sids.length > 0)) := fun h => hbad ⟨hg, hok.2.1, (aasd131_iff _ _).2 h⟩
      simp [andThen, validate131_bad this]
  | setAssetType ty =>
    simp only [Asset.effect, Except.ok.injEq] at heff
    subst heff
    simp only [Asset.step]
    cases hc : checkOpt "identifier" ty with
    | error e =>
      have := checkOpt_err "identifier" ty e (Or.inl rfl) hc
      subst this
      simp
    | ok u =>
      exact absurd ⟨hok.1, (checkOpt_identifier_iff ty).1 (by cases u; exact hc), hok.2.2⟩ hbad
  | list lop =>
    simp only [Asset.effect] at heff
    cases hl : listEffect s.sids lop with
    | error e => rw [hl] at heff; cases heff
    | ok l =>
      rw [hl] at heff
      simp only [Except.ok.injEq] at heff
      subst heff
      have hb : ¬ P131 s.gid (decide (l.length > 0)) := fun h => hbad ⟨hok.1, hok.2.1, (aasd131_iff _ _).2 h⟩
      have := listStep_complete _ _ _ (assetHooks_sound s.gid) (assetHooks_complete s.gid hok.1) s.sids lop l
        ((aasd131_iff _ _).1 hok.2.2) hl hb
      simp [Asset.step, this]

theorem c02_asset_run (s : Asset) (hok : AssetOk s) : ∀ ops : List AssetOp, AssetOk (s.run ops) := by
  intro ops
  induction ops generalizing s with
  | nil => exact hok
  | cons op r ih =>
    apply ih
    by_cases h : (s.step op).2 = .ok ()
    · exact c02_asset_sound s op hok h
    · rw [c02_asset_atomic s op h]; exact hok

example : Asset.ctor none [] none = .error (.aascv 131) := by decide
example : (Asset.step ⟨none, [1, 2], none⟩ (.list (.delSlice none none))).2 = .error (.aascv 131) := by decide
example : (Asset.step ⟨none, [1, 2], none⟩ (.list (.delSlice (some 1) none))).1 = ⟨none, [1], none⟩ := by decide

/-! ## 3c. HasSemantics (AASd-118) — add hook, set hook (setter / slice / constructor path), semantic_id setter -/

def SemOk (s : Sem) : Prop := Spec.aasd118 s.sem s.supp

def Sem.effect (s : Sem) : SemOp → Res Sem
  | .setSem r => .ok { s with sem := r }
  | .list op => match listEffect s.supp op with | .ok l => .ok { s with supp := l } | .error e => .error e

def Sem.run (s : Sem) : List SemOp → Sem
  | [] => s
  | op :: r => Sem.run (s.step op).1 r

theorem c02_sem_ctor (r : Option Nat) (l : List Nat) (s : Sem) : Sem.ctor r l = .ok s → s = ⟨r, l⟩ ∧ SemOk s := by
  unfold Sem.ctor
  cases hv : listStep (semHooks r) [] (.assign l) with
  | error e => simp
  | ok l' =>
    simp only [Except.ok.injEq]
    intro hs; subst hs
    have h1 := listStep_refines _ _ _ _ hv
    have h2 : listEffect [] (.assign l) = .ok l := by
      simp [listEffect, listStep, setSliceStep, sliceBounds, andThen, noHooks]
    rw [h2] at h1; cases h1
    exact ⟨rfl, (aasd118_iff _ _).2 (listStep_sound _ _ (semHooks_sound r) [] (.assign l) l (by simp [P118]) hv)⟩

theorem c02_sem_sound (s : Sem) (op : SemOp) (hok : SemOk s) : (s.step op).2 = .ok () → SemOk (s.step op).1 := by
  cases op with
  | setSem r =>
    simp only [Sem.step]
    split
    · simp
    · rename_i h
      intro _
      show Spec.aasd118 r s.supp
      intro hne
      cases r with
      | some v => simp
      | none =>
        have : s.supp.length > 0 := by cases hs : s.supp with | nil => exact absurd hs hne | cons a b => simp
        simp [this] at h
  | list lop =>
    simp only [Sem.step]
    cases hv : listStep (semHooks s.sem) s.supp lop with
    | ok l =>
      intro _
      exact (aasd118_iff _ _).2 (listStep_sound _ _ (semHooks_sound s.sem) s.supp lop l ((aasd118_iff _ _).1 hok) hv)
    | error e => simp

theorem c02_sem_atomic (s : Sem) (op : SemOp) : (s.step op).2 ≠ .ok () → (s.step op).1 = s := by
  cases op <;> simp only [Sem.step] <;> split <;> simp

theorem c02_sem_refines (s : Sem) (op : SemOp) : (s.step op).2 = .ok () → s.effect op = .ok (s.step op).1 := by
  cases op with
  | setSem r => simp only [Sem.step, Sem.effect]; split <;> simp
  | list lop =>
    simp only [Sem.step, Sem.effect]
    cases hv : listStep (semHooks s.sem) s.supp lop with
    | ok l => simp [listStep_refines _ _ _ _ hv]
    | error e => simp

theorem c02_sem_complete (s t : Sem) (op : SemOp) (hok : SemOk s) (heff : s.effect op = .ok t) (hbad : ¬ SemOk t) :
    (s.step op).2 = .error (.aascv 118) := by
  cases op with
  | setSem r =>
    simp only [Sem.effect, Except.ok.injEq] at heff
    subst heff
    simp only [SemOk, Spec.aasd118, ne_eq, Classical.not_imp, Classical.not_not] at hbad
    obtain ⟨h1, h2⟩ := hbad
    have : s.supp.length > 0 := by cases hs : s.supp with | nil => exact absurd hs h1 | cons a b => simp
    simp [Sem.step, h2, this]
  | list lop =>
    simp only [Sem.effect] at heff
    cases hl : listEffect s.supp lop with
    | error e => rw [hl] at heff; cases heff
    | ok l =>
      rw [hl] at heff
      simp only [Except.ok.injEq] at heff
      subst heff
      have hb : ¬ P118 s.sem (decide (l.length > 0)) := fun h => hbad ((aasd118_iff _ _).2 h)
      have := listStep_complete _ _ _ (semHooks_sound s.sem) (semHooks_complete s.sem) s.supp lop l
        ((aasd118_iff _ _).1 hok) hl hb
      simp [Sem.step, this]

theorem c02_sem_run (s : Sem) (hok : SemOk s) : ∀ ops : List SemOp, SemOk (s.run ops) := by
  intro ops
  induction ops generalizing s with
  | nil => exact hok
  | cons op r ih =>
    apply ih
    by_cases h : (s.step op).2 = .ok ()
    · exact c02_sem_sound s op hok h
    · rw [c02_sem_atomic s op h]; exact hok

-- the three entry points that were open on the pinned tree (constructor, attribute setter, slice assignment) now raise
example : Sem.ctor none [1] = .error (.aascv 118) := by decide
example : (Sem.step ⟨none, []⟩ (.list (.assign [1]))).2 = .error (.aascv 118) := by decide
example : (Sem.step ⟨none, []⟩ (.list (.setSlice none none [1]))).2 = .error (.aascv 118) := by decide
example : (Sem.run ⟨none, []⟩ [.setSem (some 0), .list (.assign [1, 2]), .setSem none]) = ⟨some 0, [1, 2]⟩ := by decide

/-! ## 3d. BasicEventElement -/

def EventOk (s : Event) : Prop :=
  Spec.eventDirection s.direction s.maxInterval ∧ Spec.lastUpdateUtc s.lastUpdate ∧ Spec.optStr 1 255 s.topic

def Event.effect (s : Event) : EventOp → Event
  | .setDirection d => { s with direction := d }
  | .setMaxInterval p => { s with maxInterval := p }
  | .setLastUpdate t => { s with lastUpdate := t }
  | .setTopic t => { s with topic := t }

def Event.run (s : Event) : List EventOp → Event
  | [] => s
  | op :: r => Event.run (s.step op).1 r

private theorem stampChk_iff (t : Stamp) : stampChk t = .ok () ↔ Spec.lastUpdateUtc t := by
  unfold stampChk Spec.lastUpdateUtc
  match t with
  | none => simp
  | some none => simp
  | some (some tz) =>
    by_cases h : tz.offset = 0 <;> simp [h]

private theorem stampChk_err (t : Stamp) (e : Err) : stampChk t = .error e → e = .valueError := by
  unfold stampChk
  match t with
  | none => simp
  | some none => intro h; cases h; rfl
  | some (some tz) => by_cases h : tz.offset = 0 <;> simp [h] <;> intro h <;> exact h.symm

theorem c02_event_ctor (d : Direction) (t : Option Str) (lu : Stamp) (mi : Bool) (s : Event) :
    Event.ctor d t lu mi = .ok s → s = ⟨d, mi, lu, t⟩ ∧ EventOk s := by
  unfold Event.ctor
  simp only [andThen_ok]
  rintro ⟨ht, hl, hs⟩
  split at hs
  · cases hs
  · rename_i hc
    cases hs
    refine ⟨rfl, ?_, (stampChk_iff lu).1 hl, (checkOpt_topic_iff t).1 ht⟩
    intro hd; simp only at hd; subst hd
    cases mi <;> simp_all

theorem c02_event_sound (s : Event) (op : EventOp) (hok : EventOk s) : (s.step op).2 = .ok () → EventOk (s.step op).1 := by
  cases op with
  | setDirection d =>
    simp only [Event.step]
    split
    · simp
    · rename_i h
      intro _
      refine ⟨?_, hok.2⟩
      intro hd; simp only at hd; subst hd
      cases hm : s.maxInterval <;> simp_all
  | setMaxInterval p =>
    simp only [Event.step]
    split
    · simp
    · rename_i h
      intro _
      refine ⟨?_, hok.2⟩
      intro hd; simp only at hd
      cases p <;> simp_all
  | setLastUpdate t =>
    simp only [Event.step]
    cases hv : stampChk t with
    | ok u => cases u; intro _; exact ⟨hok.1, (stampChk_iff t).1 hv, hok.2.2⟩
    | error e => simp
  | setTopic t =>
    simp only [Event.step]
    cases hv : checkOpt "message_topic_type" t with
    | ok u => cases u; intro _; exact ⟨hok.1, hok.2.1, (checkOpt_topic_iff t).1 hv⟩
    | error e => simp

theorem c02_event_atomic (s : Event) (op : EventOp) : (s.step op).2 ≠ .ok () → (s.step op).1 = s := by
  cases op <;> simp only [Event.step] <;> split <;> simp

theorem c02_event_refines (s : Event) (op : EventOp) : (s.step op).2 = .ok () → (s.step op).1 = s.effect op := by
  cases op <;> simp only [Event.step, Event.effect] <;> split <;> simp

/-- direction = input with a max_interval, a non-UTC (or naive) last_update, a malformed topic: all raise ValueError -/
theorem c02_event_complete (s : Event) (op : EventOp) (hok : EventOk s) (hbad : ¬ EventOk (s.effect op)) :
    (s.step op).2 = .error .valueError := by
  cases op with
  | setDirection d =>
    simp only [Event.step]
    split
    · rfl
    · rename_i h
      exfalso; apply hbad
      refine ⟨?_, hok.2⟩
      intro hd; simp only [Event.effect] at hd; subst hd
      cases hm : s.maxInterval <;> simp_all [Event.effect]
  | setMaxInterval p =>
    simp only [Event.step]
    split
    · rfl
    · rename_i h
      exfalso; apply hbad
      refine ⟨?_, hok.2⟩
      intro hd; simp only [Event.effect] at hd
      cases p <;> simp_all [Event.effect]
  | setLastUpdate t =>
    simp only [Event.step]
    cases hv : stampChk t with
    | ok u => cases u; exact absurd ⟨hok.1, (stampChk_iff t).1 hv, hok.2.2⟩ hbad
    | error e => have := stampChk_err t e hv; subst this; rfl
  | setTopic t =>
    simp only [Event.step]
    cases hv : checkOpt "message_topic_type" t with
    | ok u => cases u; exact absurd ⟨hok.1, hok.2.1, (checkOpt_topic_iff t).1 hv⟩ hbad
    | error e => have := checkOpt_err _ t e (Or.inr (Or.inl rfl)) hv; subst this; rfl

theorem c02_event_run (s : Event) (hok : EventOk s) : ∀ ops : List EventOp, EventOk (s.run ops) := by
  intro ops
  induction ops generalizing s with
  | nil => exact hok
  | cons op r ih =>
    apply ih
    by_cases h : (s.step op).2 = .ok ()
    · exact c02_event_sound s op hok h
    · rw [c02_event_atomic s op h]; exact hok

-- a +01:00 zone that merely calls itself "UTC" is refused; a zero offset under any name is accepted
example : (Event.step ⟨.output, false, none, none⟩ (.setLastUpdate (some (some ⟨3600, true⟩)))).2 = .error .valueError := by decide
example : (Event.step ⟨.output, false, none, none⟩ (.setLastUpdate (some (some ⟨0, false⟩)))).2 = .ok () := by decide
example : Event.ctor .input none none true = .error .valueError := by decide

/-! ## 3e. AdministrativeInformation (AASd-005) -/

def AdminOk (s : Admin) : Prop :=
  (∀ v, s.version = some v → Spec.StrOk 1 4 v ∧ Spec.VersionPattern v) ∧
  (∀ r, s.revision = some r → Spec.StrOk 1 4 r ∧ Spec.VersionPattern r) ∧
  Spec.optStr 1 2000 s.templateId ∧ Spec.aasd005 s.version s.revision

def Admin.run (s : Admin) : List AdminOp → Admin
  | [] => s
  | op :: r => Admin.run (s.step op).1 r

private theorem checkOpt_version_iff (v : Option Str) :
    checkOpt "version_type" v = .ok () ↔ ∀ s, v = some s → Spec.StrOk 1 4 s ∧ Spec.VersionPattern s := by
  cases v with
  | none => simp [checkOpt]
  | some s => simp [checkOpt, checkNamed_version, check_version_iff]

private theorem checkOpt_revision_iff (v : Option Str) :
    checkOpt "revision_type" v = .ok () ↔ ∀ s, v = some s → Spec.StrOk 1 4 s ∧ Spec.VersionPattern s := by
  cases v with
  | none => simp [checkOpt]
  | some s => simp [checkOpt, checkNamed_revision, check_version_iff]

private theorem revisionChk_ok (version rev : Option Str) :
    revisionChk version rev = .ok () →
      (∀ s, rev = some s → Spec.StrOk 1 4 s ∧ Spec.VersionPattern s) ∧ Spec.aasd005 version rev := by
  unfold revisionChk
  split
  · simp
  · rename_i h
    intro hc
    have hr := (checkOpt_revision_iff rev).1 hc
    refine ⟨hr, ?_⟩
    intro hv; subst hv
    cases rev with
    | none => rfl
    | some r =>
      have := (hr r rfl).1.1
      cases r with
      | nil => simp at this
      | cons a b => simp at h

theorem c02_admin_ctor (v r t : Option Str) (s : Admin) : Admin.ctor v r t = .ok s → s = ⟨v, r, t⟩ ∧ AdminOk s := by
  unfold Admin.ctor
  simp only [andThen_ok]
  rintro ⟨hv, hr, ht, hs⟩
  cases hs
  have := revisionChk_ok v r hr
  exact ⟨rfl, (checkOpt_version_iff v).1 hv, this.1, (checkOpt_identifier_iff t).1 ht, this.2⟩

/-  FULL STATEMENT (false on the current tree — known finding `admin.version:accepted:aasd005`):
      theorem c02_admin_sound (s : Admin) (op : AdminOp) (hok : AdminOk s) :
          (s.step op).2 = .ok () → AdminOk (s.step op).1
    `AdministrativeInformation.version` is a plain `constrain_version_type` property: assigning `None` while a revision
    is set is accepted and leaves a revision without version.  Proved below: the statement for every op except that one,
    and the negation on a witness. -/
theorem c02_admin_sound_partial (s : Admin) (op : AdminOp) (hok : AdminOk s)
    (hgap : op = .setVersion none → s.revision = none) :
    (s.step op).2 = .ok () → AdminOk (s.step op).1 := by
  cases op with
  | setVersion v =>
    simp only [Admin.step]
    cases hv : checkOpt "version_type" v with
    | error e => simp
    | ok u =>
      cases u
      intro _
      refine ⟨(checkOpt_version_iff v).1 hv, hok.2.1, hok.2.2.1, ?_⟩
      intro hn; simp only at hn; subst hn
      exact hgap rfl
  | setRevision r =>
    simp only [Admin.step]
    cases hv : revisionChk s.version r with
    | error e => simp
    | ok u =>
      cases u
      intro _
      have := revisionChk_ok _ _ hv
      exact ⟨hok.1, this.1, hok.2.2.1, this.2⟩
  | setTemplateId t =>
    simp only [Admin.step]
    cases hv : checkOpt "identifier" t with
    | error e => simp
    | ok u => cases u; intro _; exact ⟨hok.1, hok.2.1, (checkOpt_identifier_iff t).1 hv, hok.2.2.2⟩

/-- negation witness of the full statement: version "1", revision "2", then `version = None` -/
theorem c02_admin_version_clear_breaks_005 :
    ∃ s : Admin, AdminOk s ∧ (s.step (.setVersion none)).2 = .ok () ∧ ¬ AdminOk (s.step (.setVersion none)).1 := by
  refine ⟨⟨some [49], some [50], none⟩, ?_, by decide, ?_⟩
  · exact (c02_admin_ctor (some [49]) (some [50]) none _ (by decide)).2
  · intro h
    have := h.2.2.2
    simp [Admin.step, checkOpt, Spec.aasd005] at this

theorem c02_admin_atomic (s : Admin) (op : AdminOp) : (s.step op).2 ≠ .ok () → (s.step op).1 = s := by
  cases op <;> simp only [Admin.step] <;> split <;> simp

/-- AASd-005 through the revision setter: a revision without version raises constraint 5; malformed strings ValueError -/
theorem c02_admin_revision_complete (s : Admin) (r : Option Str) (hbad : ¬ Spec.aasd005 s.version r) :
    (s.step (.setRevision r)).2 = .error (.aascv 5) ∨ (s.step (.setRevision r)).2 = .error .valueError := by
  simp only [Spec.aasd005, Classical.not_imp] at hbad
  obtain ⟨hv, hr⟩ := hbad
  cases r with
  | none => exact absurd rfl hr
  | some r =>
    cases r with
    | nil =>
      right
      simp [Admin.step, revisionChk, hv, checkOpt, checkNamed_revision, check]
    | cons a b =>
      left
      simp [Admin.step, revisionChk, hv]

/-- all op sequences that never clear the version while a revision is set keep the specification -/
theorem c02_admin_run_partial (s : Admin) (hok : AdminOk s) :
    ∀ ops : List AdminOp, (∀ op ∈ ops, op ≠ .setVersion none) → AdminOk (s.run ops) := by
  intro ops
  induction ops generalizing s with
  | nil => intro _; exact hok
  | cons op r ih =>
    intro hn
    apply ih
    · by_cases h : (s.step op).2 = .ok ()
      · exact c02_admin_sound_partial s op hok (fun he => absurd he (hn op (List.mem_cons_self ..))) h
      · rw [c02_admin_atomic s op h]; exact hok
    · intro o ho; exact hn o (List.mem_cons_of_mem _ ho)

example : Admin.ctor none (some [50]) none = .error (.aascv 5) := by decide
example : Admin.ctor (some [49, 48]) (some [48]) none = .ok ⟨some [49, 48], some [48], none⟩ := by decide
example : Admin.ctor (some [48, 49]) none none = .error .valueError := by decide

/-! ## 3f. typed values: XSD integer ranges through `trivial_cast` and the value setters -/

/-- an int offered to a slot of an XSD integer type is stored unchanged, and only if it lies in the type's value space -/
theorem c02_int_cast_sound (t : String) (ht : t ∈ Spec.integerTypes) (n : Int) (w : PyVal) :
    trivialCast (.int n) t = .ok w → w = .int n ∧ Spec.InXsdRange t n := by
  rw [castInt t n ht]
  by_cases h1 : t = "Integer"
  · subst h1
    simp only [↓reduceIte, Except.ok.injEq]
    intro h; exact ⟨h.symm, by simp [Spec.InXsdRange, Spec.xsdRanges]⟩
  · simp only [h1, ↓reduceIte]
    by_cases h2 : inIntRange t n = true
    · simp only [h2, ↓reduceIte, Except.ok.injEq]
      intro h; exact ⟨h.symm, (inIntRange_iff t n ht).1 h2⟩
    · simp [h2]

/-- … and an int outside the value space raises ValueError (all 12 bounded types, both ends, every n) -/
theorem c02_int_cast_complete (t : String) (ht : t ∈ Spec.integerTypes) (n : Int) (hbad : ¬ Spec.InXsdRange t n) :
    trivialCast (.int n) t = .error .valueError := by
  rw [castInt t n ht]
  have h1 : t ≠ "Integer" := by
    intro h; subst h; exact hbad (by simp [Spec.InXsdRange, Spec.xsdRanges])
  have h2 : ¬ inIntRange t n = true := fun h => hbad ((inIntRange_iff t n ht).1 h)
  simp [h1, h2]

def TypedOk (s : Typed) : Prop := ∀ v, s.value = some v → ∃ t, s.valueType = some t ∧ Spec.Conforms v t

theorem c02_typed_atomic (s : Typed) (op : TypedOp) : (s.step op).2 ≠ .ok () → (s.step op).1 = s := by
  cases op with
  | setValue v =>
    cases v with
    | none => simp [Typed.step]
    | some v => simp only [Typed.step]; split <;> (try split) <;> simp
  | setValueType t => simp [Typed.step]

/-- the value setter on an integer-typed slot: accepted ⇒ the stored value is that int and lies in range;
    out of range ⇒ ValueError and the slot is unchanged -/
theorem c02_typed_int_setter (s : Typed) (t : String) (ht : t ∈ Spec.integerTypes) (hs : s.valueType = some t) (n : Int) :
    ((s.step (.setValue (some (.int n)))).2 = .ok () →
        (s.step (.setValue (some (.int n)))).1 = { s with value := some (.int n) } ∧ Spec.Conforms (.int n) t) ∧
    (¬ Spec.InXsdRange t n →
        (s.step (.setValue (some (.int n)))).2 = .error .valueError ∧ (s.step (.setValue (some (.int n)))).1 = s) := by
  simp only [Typed.step, hs]
  constructor
  · cases hc : trivialCast (.int n) t with
    | error e => simp
    | ok w =>
      obtain ⟨rfl, hr⟩ := c02_int_cast_sound t ht n w hc
      intro _; exact ⟨rfl, ht, hr⟩
  · intro hbad
    rw [c02_int_cast_complete t ht n hbad]
    exact ⟨rfl, rfl⟩

/-  FULL STATEMENT (false on the current tree — known findings `<Class>:typed.value_type:accepted:value-type-mismatch`):
      theorem c02_typed_sound (s : Typed) (op : TypedOp) (hok : TypedOk s) : (s.step op).2 = .ok () → TypedOk (s.step op).1
    `value_type` of Property / Range / Qualifier / Extension is a plain attribute; re-assigning it after a value was stored
    leaves a value of the old type under the new type name.  Proved: value_type assignment on an empty slot is harmless
    (`_partial`), and the negation on a witness. -/
theorem c02_typed_value_type_partial (s : Typed) (t : Option String) (hok : TypedOk s) (hempty : s.value = none) :
    TypedOk (s.step (.setValueType t)).1 := by
  intro v hv
  simp [Typed.step, hempty] at hv

theorem c02_typed_value_type_reassign_breaks :
    ∃ s : Typed, TypedOk s ∧ (s.step (.setValueType (some "String"))).2 = .ok () ∧
      ¬ TypedOk (s.step (.setValueType (some "String"))).1 := by
  refine ⟨⟨some "Int", some (.int 1)⟩, ?_, rfl, ?_⟩
  · intro v hv
    simp only [Option.some.injEq] at hv
    subst hv
    exact ⟨"Int", rfl, by simp [Spec.integerTypes], by simp [Spec.InXsdRange, Spec.xsdRanges]⟩
  · intro h
    obtain ⟨t, ht, hc⟩ := h (.int 1) rfl
    simp only [Typed.step, Option.some.injEq] at ht
    subst ht
    simp [Spec.Conforms, Spec.integerTypes] at hc

example : trivialCast (.int 2147483647) "Int" = .ok (.int 2147483647) := by decide
example : trivialCast (.int 2147483648) "Int" = .error .valueError := by decide
example : trivialCast (.int (-1)) "UnsignedLong" = .error .valueError := by decide
example : trivialCast .float "Int" = .error .typeError := by decide
example : trivialCast (.str true) "NormalizedString" = .error .valueError := by decide

/-! ## 3g. LangStringSet family -/

/-- the invariant the class maintains: never empty, every stored tag and text passed its check -/
def LssInv (s : Lss) : Prop := s.d ≠ [] ∧ ∀ e ∈ s.d, tagCheck e.1 = .ok () ∧ textCheck s.cls e.2 = .ok ()

theorem c02_lss_ctor (cls : String) (d : List (Str × Str)) (s : Lss) : Lss.ctor cls d = .ok s → s = ⟨cls, d⟩ ∧ LssInv s := by
  unfold Lss.ctor
  split
  · simp
  · rename_i h1
    split
    · simp
    · rename_i h2
      split
      · simp
      · rename_i h3
        simp only [Except.ok.injEq]
        intro hs; subst hs
        refine ⟨rfl, ?_, ?_⟩
        · intro hd
          have : d = [] := hd
          subst this
          simp at h1
        · intro e he
          have h2' : (d.any fun e => tagCheck e.fst != Except.ok ()) = false := by simpa using h2
          have h3' : (d.any fun e => textCheck cls e.snd != Except.ok ()) = false := by simpa using h3
          have a := List.any_eq_false.1 h2' e he
          have b := List.any_eq_false.1 h3' e he
          simp only [bne_iff_ne, ne_eq, Classical.not_not] at a b
          exact ⟨a, b⟩

private theorem mem_dictSet (k v : Str) (d : List (Str × Str)) (e : Str × Str) : e ∈ dictSet k v d → e = (k, v) ∨ e ∈ d := by
  unfold dictSet
  split
  · intro h
    obtain ⟨x, hx, rfl⟩ := List.mem_map.1 h
    by_cases hk : (x.1 == k) = true
    · simp [hk]
    · simp only [hk, Bool.false_eq_true, ↓reduceIte]; exact Or.inr hx
  · intro h
    rcases List.mem_append.1 h with h | h
    · exact Or.inr h
    · simp only [List.mem_singleton] at h; exact Or.inl h

private theorem dictSet_ne_nil (k v : Str) (d : List (Str × Str)) : dictSet k v d ≠ [] := by
  unfold dictSet
  split
  · rename_i h
    intro hm
    have : d = [] := by simpa using hm
    subst this
    simp [dictHas] at h
  · simp

/-- `__setitem__`: accepted ⇒ tag and text passed their checks and the invariant is kept; rejected ⇒ ValueError, unchanged -/
theorem c02_lss_setitem (s : Lss) (k v : Str) (hinv : LssInv s) :
    ((s.setItem k v).2 = .ok () → tagCheck k = .ok () ∧ textCheck s.cls v = .ok () ∧ LssInv (s.setItem k v).1) ∧
    ((s.setItem k v).2 ≠ .ok () → (s.setItem k v).1 = s) := by
  unfold Lss.setItem
  cases hc : andThen (textCheck s.cls v) (tagCheck k) with
  | error e => simp
  | ok u =>
    cases u
    rw [andThen_ok] at hc
    simp only [forall_const, ne_eq, not_true_eq_false, false_imp_iff, and_true]
    refine ⟨hc.2, hc.1, dictSet_ne_nil k v s.d, ?_⟩
    intro e he
    rcases mem_dictSet k v s.d e he with rfl | h
    · exact ⟨hc.2, hc.1⟩
    · exact hinv.2 e h

/-- texts of the constrained classes are within the documented limits whenever `__setitem__` / the constructor accept them -/
theorem c02_lss_text_limits (cls : String) (mn mx : Nat) (h : (cls, mn, mx) ∈ StrCons.langLimits) (text : Str) :
    textCheck cls text = .ok () ↔ Spec.StrOk mn mx text := by
  have hne : (cls == "LangStringSet") = false := by
    simp only [StrCons.langLimits, List.mem_cons, Prod.mk.injEq, List.not_mem_nil, or_false] at h
    rcases h with h | h | h | h | h <;> obtain ⟨rfl, _, _⟩ := h <;> decide
  unfold textCheck
  rw [hne]
  simp only [Bool.false_eq_true, ↓reduceIte]
  exact c02_lang_bounds cls mn mx h text

/-- non-emptiness can never be lost: `clear` always raises, deleting the last entry raises, both leave the set unchanged -/
theorem c02_lss_nonempty_guard (s : Lss) (k : Str) :
    (s.step .clear) = (s, .error .keyError) ∧
    (s.d.length = 1 → s.step (.delItem k) = (s, .error .keyError) ∧ s.step (.pop k) = (s, .error .keyError) ∧
        s.step .popItem = (s, .error .keyError)) := by
  refine ⟨rfl, fun h1 => ?_⟩
  have hd : ∀ k', s.delItem k' = (s, .error .keyError) := by intro k'; simp [Lss.delItem, h1]
  refine ⟨hd k, ?_, ?_⟩
  · simp only [Lss.step]; split <;> simp [hd]
  · simp only [Lss.step]
    cases hs : s.d with
    | nil => rfl
    | cons e r => obtain ⟨a, b⟩ := e; exact hd a

/-- every single-key op is atomic -/
theorem c02_lss_atomic_partial (s : Lss) (op : LssOp) (hnu : ∀ kvs, op ≠ .update kvs) :
    (s.step op).2 ≠ .ok () → (s.step op).1 = s := by
  have hset : ∀ k v, (s.setItem k v).2 ≠ .ok () → (s.setItem k v).1 = s := by
    intro k v; unfold Lss.setItem; split <;> simp
  have hdel : ∀ k, (s.delItem k).2 ≠ .ok () → (s.delItem k).1 = s := by
    intro k; unfold Lss.delItem; split <;> (try split) <;> simp
  cases op with
  | setItem k v => exact hset k v
  | delItem k => exact hdel k
  | clear => simp [Lss.step]
  | update kvs => exact absurd rfl (hnu kvs)
  | setDefault k v => simp only [Lss.step]; split <;> first | exact hset k v | simp
  | pop k => simp only [Lss.step]; split <;> first | exact hdel k | simp
  | popItem =>
    simp only [Lss.step]
    split
    · simp
    · exact hdel _

/-  FULL STATEMENT (false — known finding `lss.update:raised:not-atomic`):
      theorem c02_lss_atomic (s : Lss) (op : LssOp) : (s.step op).2 ≠ .ok () → (s.step op).1 = s
    `MutableMapping.update` assigns key by key; the keys before the first rejected one stay set. -/
theorem c02_lss_update_not_atomic :
    ∃ (s : Lss) (kvs : List (Str × Str)), LssInv s ∧ (s.step (.update kvs)).2 = .error .valueError ∧ (s.step (.update kvs)).1 ≠ s := by
  refine ⟨⟨"LangStringSet", [([101, 110], [97])]⟩, [([100, 101], [120]), ([69], [121])], ?_, by decide, by decide⟩
  exact (c02_lss_ctor "LangStringSet" [([101, 110], [97])] _ (by decide)).2

/-- `update` is nevertheless sound: whatever prefix it applied, the invariant holds afterwards -/
theorem c02_lss_update_sound (s : Lss) (hinv : LssInv s) : ∀ kvs, LssInv (s.update kvs).1 := by
  intro kvs
  induction kvs generalizing s with
  | nil => exact hinv
  | cons e r ih =>
    obtain ⟨k, v⟩ := e
    simp only [Lss.update]
    have hs := c02_lss_setitem s k v hinv
    cases hr : (s.setItem k v).2 with
    | ok u =>
      have h1 := (hs.1 (by rw [hr])).2.2
      have : s.setItem k v = ((s.setItem k v).1, .ok u) := by rw [← hr]
      rw [this]
      exact ih _ h1
    | error e' =>
      have h1 := hs.2 (by rw [hr]; simp)
      have : s.setItem k v = ((s.setItem k v).1, .error e') := by rw [← hr]
      rw [this, h1]
      exact hinv

example : Lss.ctor "MultiLanguageNameType" [] = .error .valueError := by decide
example : Lss.ctor "MultiLanguageNameType" [([69, 78], [97])] = .error .valueError := by decide
example : (Lss.step ⟨"ShortNameTypeIEC61360", [([101, 110], [97])]⟩ (.setItem [100, 101] (List.replicate 19 97))).2 = .error .valueError := by
  decide

/-! ## 3g'. the caller's dict and two language string sets built from it (aliasing of the constructor argument) -/

/-- every stored entry passed the tag check and the text check of the object's OWN class -/
def LssEntries (s : Lss) : Prop := ∀ e ∈ s.d, tagCheck e.1 = .ok () ∧ textCheck s.cls e.2 = .ok ()

private theorem lss_setItem_entries (s : Lss) (k v : Str) (h : LssEntries s) :
    (s.setItem k v).1.cls = s.cls ∧ LssEntries (s.setItem k v).1 := by
  unfold Lss.setItem
  cases hc : andThen (textCheck s.cls v) (tagCheck k) with
  | error e => exact ⟨rfl, h⟩
  | ok u =>
    cases u
    rw [andThen_ok] at hc
    refine ⟨rfl, ?_⟩
    intro e he
    rcases mem_dictSet k v s.d e he with rfl | h'
    · exact ⟨hc.2, hc.1⟩
    · exact h e h'

private theorem lss_delItem_entries (s : Lss) (k : Str) (h : LssEntries s) :
    (s.delItem k).1.cls = s.cls ∧ LssEntries (s.delItem k).1 := by
  unfold Lss.delItem
  split
  · exact ⟨rfl, h⟩
  · split
    · exact ⟨rfl, h⟩
    · refine ⟨rfl, ?_⟩
      intro e he
      exact h e (List.mem_filter.1 he).1

private theorem lss_update_entries : ∀ (kvs : List (Str × Str)) (s : Lss), LssEntries s →
    (s.update kvs).1.cls = s.cls ∧ LssEntries (s.update kvs).1
  | [], s, h => ⟨rfl, h⟩
  | (k, v) :: r, s, h => by
    simp only [Lss.update]
    have hs := lss_setItem_entries s k v h
    cases hr : s.setItem k v with
    | mk s' res =>
      rw [hr] at hs
      cases res with
      | ok u =>
        have := lss_update_entries r s' hs.2
        exact ⟨this.1.trans hs.1, this.2⟩
      | error e => exact hs

/-- every operation of a language string set — accepted or raised, `update` included — keeps its class and keeps every
    stored entry within the limits of that class -/
theorem c02_lss_step_entries (s : Lss) (op : LssOp) (h : LssEntries s) : (s.step op).1.cls = s.cls ∧ LssEntries (s.step op).1 := by
  cases op with
  | setItem k v => exact lss_setItem_entries s k v h
  | delItem k => exact lss_delItem_entries s k h
  | clear => exact ⟨rfl, h⟩
  | update kvs => exact lss_update_entries kvs s h
  | setDefault k v => simp only [Lss.step]; split; exact ⟨rfl, h⟩; exact lss_setItem_entries s k v h
  | pop k => simp only [Lss.step]; split; exact ⟨rfl, h⟩; exact lss_delItem_entries s k h
  | popItem =>
    simp only [Lss.step]
    split
    · exact ⟨rfl, h⟩
    · exact lss_delItem_entries s _ h

/-- both objects of the world conform to their own class -/
def LssWOk (w : LssW) : Prop := LssEntries w.a ∧ ∀ b, w.b = some b → LssEntries b

theorem c02_lssw_ctor (cls : String) (d : List (Str × Str)) (w : LssW) :
    LssW.ctor cls d = .ok w → w.src = d ∧ w.a = ⟨cls, d⟩ ∧ w.b = none ∧ LssWOk w := by
  unfold LssW.ctor
  cases h : Lss.ctor cls d with
  | error e => simp
  | ok a =>
    simp only [Except.ok.injEq]
    intro hw; subst hw
    have := c02_lss_ctor cls d a h
    exact ⟨rfl, this.1, rfl, this.2.2, by simp⟩

/-- SOUNDNESS over the three aliases: whatever is done to the caller's dict, to the first or to the second object —
    including constructing the second object from the same dict or from the first object — BOTH objects keep every entry
    within the limits of their own class. -/
theorem c02_lssw_sound (w : LssW) (op : LssWOp) (hok : LssWOk w) : LssWOk (w.step op).1 := by
  obtain ⟨ha, hb⟩ := hok
  cases op with
  | onA o => exact ⟨(c02_lss_step_entries w.a o ha).2, hb⟩
  | onB o =>
    simp only [LssW.step]
    cases hw : w.b with
    | none => exact ⟨ha, by simp [hw]⟩
    | some b =>
      refine ⟨ha, ?_⟩
      intro b' hb'
      simp only [Option.some.injEq] at hb'
      subst hb'
      exact (c02_lss_step_entries b o (hb b hw)).2
  | srcSet k v => exact ⟨ha, hb⟩
  | srcDel k => exact ⟨ha, hb⟩
  | srcClear => exact ⟨ha, hb⟩
  | newB cls f =>
    simp only [LssW.step]
    cases hc : Lss.ctor cls (if f = true then w.a.d else w.src) with
    | error e => exact ⟨ha, hb⟩
    | ok b =>
      refine ⟨ha, ?_⟩
      intro b' hb'
      simp only [Option.some.injEq] at hb'
      subst hb'
      exact (c02_lss_ctor cls _ b hc).2.2

/-- FRAME: an operation touches exactly one of the three — the constructor COPIED what it was given. -/
theorem c02_lssw_frame (w : LssW) (op : LssWOp) :
    (∀ o, op = .onA o → (w.step op).1.b = w.b ∧ (w.step op).1.src = w.src) ∧
    (∀ o, op = .onB o → (w.step op).1.a = w.a ∧ (w.step op).1.src = w.src) ∧
    (∀ c f, op = .newB c f → (w.step op).1.a = w.a ∧ (w.step op).1.src = w.src) ∧
    ((∀ o, op ≠ .onA o) → (∀ o, op ≠ .onB o) → (∀ c f, op ≠ .newB c f) → (w.step op).1.a = w.a ∧ (w.step op).1.b = w.b) := by
  refine ⟨?_, ?_, ?_, ?_⟩
  · intro o h; subst h; exact ⟨rfl, rfl⟩
  · intro o h; subst h
    simp only [LssW.step]
    cases w.b <;> exact ⟨rfl, rfl⟩
  · intro c f h; subst h
    simp only [LssW.step]
    cases Lss.ctor c (if f = true then w.a.d else w.src) <;> exact ⟨rfl, rfl⟩
  · intro h1 h2 h3
    cases op with
    | onA o => exact absurd rfl (h1 o)
    | onB o => exact absurd rfl (h2 o)
    | newB c f => exact absurd rfl (h3 c f)
    | srcSet k v => exact ⟨rfl, rfl⟩
    | srcDel k => exact ⟨rfl, rfl⟩
    | srcClear => exact ⟨rfl, rfl⟩

def LssW.run (w : LssW) : List LssWOp → LssW
  | [] => w
  | op :: r => ((w.step op).1).run r

theorem c02_lssw_run (w : LssW) (hok : LssWOk w) : ∀ ops : List LssWOp, LssWOk (w.run ops) := by
  intro ops
  induction ops generalizing w with
  | nil => exact hok
  | cons op r ih => exact ih _ (c02_lssw_sound w op hok)

/-- the scenario of the shared dict: a name (≤ 64) and a text (≤ 1023) built from one dict; a 65-character text put into the
    text object is accepted and the name still holds only what it held -/
example :
    let w : LssW := ⟨[([101, 110], [97])], ⟨"MultiLanguageNameType", [([101, 110], [97])]⟩, none⟩
    let w1 := (w.step (.newB "MultiLanguageTextType" false)).1
    let w2 := (w1.step (.onB (.setItem [100, 101] (List.replicate 65 97))))
    w2.2 = .ok () ∧ w2.1.a = w.a ∧ (w.step (.onA (.setItem [100, 101] (List.replicate 65 97)))).2 = .error .valueError := by
  decide

/-! ## 3h. SubmodelElementList: what `_check_constraints` + the id hook let in (AASd-107/108/109/114/120) -/

def SmlListOk (c : SmlCfg) (l : List SmlElem) : Prop :=
  (∀ e ∈ l, e.hasIdShort = false) ∧                                                            -- AASd-120
  (∀ e ∈ l, e.cls = c.typeValue) ∧                                                              -- AASd-108
  (∀ e ∈ l, ∀ si, c.semIdList = some si → ∀ se, e.semId = some se → se = si) ∧                 -- AASd-107
  ((c.typeValue = "Property" ∨ c.typeValue = "Range") → ∀ e ∈ l, e.valueType = c.valueType) ∧   -- AASd-109
  (∀ a ∈ l, ∀ b ∈ l, ∀ x y, a.semId = some x → b.semId = some y → x = y)                       -- AASd-114

theorem c02_sml_add_sound (c : SmlCfg) (new : SmlElem) (l : List SmlElem) (hok : SmlListOk c l) :
    smlAddChk c new l = .ok () → SmlListOk c (l ++ [new]) := by
  unfold smlAddChk
  split
  · simp
  · rename_i h120
    split
    · simp
    · rename_i h108
      split
      · simp
      · rename_i h107
        split
        · simp
        · rename_i h109
          split
          · simp
          · rename_i h114
            intro _
            simp only [Bool.not_eq_true] at h120
            simp only [bne_iff_ne, ne_eq, Classical.not_not] at h108
            obtain ⟨o1, o2, o3, o4, o5⟩ := hok
            refine ⟨?_, ?_, ?_, ?_, ?_⟩
            · intro e he
              rcases List.mem_append.1 he with he | he
              · exact o1 e he
              · simp only [List.mem_singleton] at he; subst he; exact h120
            · intro e he
              rcases List.mem_append.1 he with he | he
              · exact o2 e he
              · simp only [List.mem_singleton] at he; subst he; exact h108
            · intro e he si hsi se hse
              rcases List.mem_append.1 he with he | he
              · exact o3 e he si hsi se hse
              · simp only [List.mem_singleton] at he; subst he
                simp only [hsi, Option.isSome_some, hse, Bool.true_and, bne_iff_ne, ne_eq, Option.some.injEq, Classical.not_not] at h107
                exact h107
            · intro ht e he
              rcases List.mem_append.1 he with he | he
              · exact o4 ht e he
              · simp only [List.mem_singleton] at he; subst he
                have : (c.typeValue == "Property" || c.typeValue == "Range") = true := by
                  rcases ht with ht | ht <;> simp [ht]
                simp only [this, Bool.true_and, bne_iff_ne, ne_eq, Classical.not_not] at h109
                exact h109
            · -- AASd-114: all present semantic ids agree
              have hnew : ∀ b ∈ l, ∀ x y, new.semId = some x → b.semId = some y → x = y := by
                intro b hb x y hx hy
                cases hs : c.semIdList with
                | some si =>
                  have := o3 b hb si hs y hy
                  simp only [hs, Option.isSome_some, hx, Bool.true_and, bne_iff_ne, ne_eq, Option.some.injEq, Classical.not_not] at h107
                  rw [h107, this]
                | none =>
                  simp only [hx, Option.isSome_some, hs, Option.isNone_none, Bool.true_and, Bool.not_eq_true] at h114
                  have := List.any_eq_false.1 h114 b hb
                  simp only [hy, Option.isSome_some, Bool.true_and, bne_iff_ne, ne_eq, Option.some.injEq, Classical.not_not] at this
                  exact this
              intro a ha b hb x y hx hy
              rcases List.mem_append.1 ha with ha' | ha' <;> rcases List.mem_append.1 hb with hb' | hb'
              · exact o5 a ha' b hb' x y hx hy
              · simp only [List.mem_singleton] at hb'; subst hb'; exact (hnew a ha' y x hy hx).symm
              · simp only [List.mem_singleton] at ha'; subst ha'; exact hnew b hb' x y hx hy
              · simp only [List.mem_singleton] at ha' hb'; subst ha'; subst hb'; rw [hx] at hy; exact Option.some.inj hy

/-- the number raised names the violated rule (completeness of the add check) -/
theorem c02_sml_add_complete (c : SmlCfg) (new : SmlElem) (l : List SmlElem) (hok : SmlListOk c l)
    (hbad : ¬ SmlListOk c (l ++ [new])) : ∃ n, n ∈ [120, 108, 107, 109, 114] ∧ smlAddChk c new l = .error (.aascv n) := by
  cases h : smlAddChk c new l with
  | ok u => cases u; exact absurd (c02_sml_add_sound c new l hok h) hbad
  | error e =>
    unfold smlAddChk at h
    split at h
    · cases h; exact ⟨120, by simp, rfl⟩
    · split at h
      · cases h; exact ⟨108, by simp, rfl⟩
      · split at h
        · cases h; exact ⟨107, by simp, rfl⟩
        · split at h
          · cases h; exact ⟨109, by simp, rfl⟩
          · split at h
            · cases h; exact ⟨114, by simp, rfl⟩
            · cases h

/-- every list built by successive accepted adds satisfies the five rules -/
theorem c02_sml_adds (c : SmlCfg) : ∀ (news : List SmlElem) (l : List SmlElem), SmlListOk c l →
    SmlListOk c (news.foldl (fun acc e => if smlAddChk c e acc = .ok () then acc ++ [e] else acc) l) := by
  intro news
  induction news with
  | nil => intro l h; exact h
  | cons e r ih =>
    intro l h
    simp only [List.foldl_cons]
    apply ih
    by_cases hc : smlAddChk c e l = .ok ()
    · rw [if_pos hc]; exact c02_sml_add_sound c e l h hc
    · rw [if_neg hc]; exact h

example : smlCtorChk ⟨"Property", none, none⟩ = .error (.aascv 109) := by decide
example : smlAddChk ⟨"Property", none, some "Int"⟩ ⟨"Property", some 1, some "Int", false⟩ [⟨"Property", some 0, some "Int", false⟩]
    = .error (.aascv 114) := by decide
example : SmlListOk ⟨"Capability", none, none⟩ [] := by simp [SmlListOk]

/-! ## 3i. SubmodelElementList as a machine: children modified while they are contained -/

/-- the five list rules on the children that are in the list -/
def SmlMOk (s : SmlM) : Prop := SmlListOk s.cfg s.items

private theorem smlListOk_of_subset (c : SmlCfg) (l l' : List SmlElem) (hsub : ∀ e ∈ l', e ∈ l) (hok : SmlListOk c l) : SmlListOk c l' := by
  obtain ⟨o1, o2, o3, o4, o5⟩ := hok
  exact ⟨fun e he => o1 e (hsub e he), fun e he => o2 e (hsub e he), fun e he => o3 e (hsub e he),
    fun ht e he => o4 ht e (hsub e he), fun a ha b hb => o5 a (hsub a ha) b (hsub b hb)⟩

private theorem dropTag_items_subset (t : Nat) (l : List (Nat × SmlElem)) : ∀ e ∈ (dropTag t l).map (·.2), e ∈ l.map (·.2) := by
  intro e he
  obtain ⟨p, hp, rfl⟩ := List.mem_map.1 he
  exact List.mem_map.2 ⟨p, (List.mem_filter.1 hp).1, rfl⟩

private theorem smlFill_ok (c : SmlCfg) : ∀ (es : List SmlElem) (acc o : List (Nat × SmlElem)),
    SmlListOk c (acc.map (·.2)) → smlFill c es acc = .ok o → SmlListOk c (o.map (·.2)) := by
  intro es
  induction es with
  | nil => intro acc o h hf; simp only [smlFill, Except.ok.injEq] at hf; subst hf; exact h
  | cons e r ih =>
    intro acc o h hf
    simp only [smlFill] at hf
    cases hc : smlAddChk c e (acc.map (·.2)) with
    | error err => rw [hc] at hf; cases hf
    | ok u =>
      cases u
      rw [hc] at hf
      refine ih _ o ?_ hf
      have := c02_sml_add_sound c e _ h hc
      simpa using this

/-- the constructor: accepted ⇒ the initial children satisfy the five rules (and AASd-109 of the list itself was checked) -/
theorem c02_smlm_ctor (c : SmlCfg) (es : List SmlElem) (s : SmlM) :
    SmlM.ctor c es = .ok s → s.cfg = c ∧ s.detached = [] ∧ smlCtorChk c = .ok () ∧ SmlMOk s := by
  unfold SmlM.ctor
  intro h
  rw [andThen_ok] at h
  obtain ⟨h1, h2⟩ := h
  cases hf : smlFill c es [] with
  | error e => rw [hf] at h2; cases h2
  | ok o =>
    rw [hf] at h2
    simp only [Except.ok.injEq] at h2
    subst h2
    refine ⟨rfl, rfl, h1, ?_⟩
    exact smlFill_ok c es [] o (by simp [SmlListOk]) hf

/-- SOUNDNESS for every operation except the plain attribute `value_type`: whatever the operation does — accepted or
    raised, on a contained or on a detached child — the children that are in the list afterwards satisfy
    AASd-107/108/109/114/120.  In particular `child.semantic_id = r` on a CONTAINED child re-evaluates 107 and 114. -/
theorem c02_smlm_sound_partial (s : SmlM) (op : SmlOp) (hok : SmlMOk s) (hvt : ∀ t v, op ≠ .setVt t v) :
    SmlMOk (s.step op).1 := by
  unfold SmlMOk at *
  cases op with
  | add e =>
    simp only [SmlM.step]
    cases hc : smlAddChk s.cfg e s.items with
    | error err => exact hok
    | ok u =>
      cases u
      have := c02_sml_add_sound s.cfg e s.items hok hc
      simpa [SmlM.items] using this
  | readd t =>
    simp only [SmlM.step]
    split
    · exact hok
    · rename_i e _ _
      cases hc : smlAddChk s.cfg e s.items with
      | error err => exact hok
      | ok u =>
        cases u
        have := c02_sml_add_sound s.cfg e s.items hok hc
        simpa [SmlM.items] using this
    · exact hok
  | setSem t r =>
    simp only [SmlM.step]
    split
    · rename_i e _
      have hrest : SmlListOk s.cfg ((dropTag t s.order).map (·.2)) :=
        smlListOk_of_subset s.cfg s.items _ (dropTag_items_subset t s.order) hok
      cases hc : smlAddChk s.cfg { e with semId := r, hasIdShort := false } ((dropTag t s.order).map (·.2)) with
      | error err => exact hrest
      | ok u =>
        cases u
        have := c02_sml_add_sound s.cfg _ _ hrest hc
        simpa [SmlM.items] using this
    · exact hok
    · exact hok
  | setVt t v => exact absurd rfl (hvt t v)
  | setId t u =>
    simp only [SmlM.step]
    split <;> exact hok
  | remove t =>
    simp only [SmlM.step]
    split
    · exact smlListOk_of_subset s.cfg s.items _ (dropTag_items_subset t s.order) hok
    · exact hok
    · exact hok

def SmlM.run (s : SmlM) : List SmlOp → SmlM
  | [] => s
  | op :: r => ((s.step op).1).run r

/-- every history of adds, removals, re-adds, `semantic_id` and `id_short` assignments on contained or detached children -/
theorem c02_smlm_run_partial (s : SmlM) (hok : SmlMOk s) :
    ∀ ops : List SmlOp, (∀ op ∈ ops, ∀ t v, op ≠ .setVt t v) → SmlMOk (s.run ops) := by
  intro ops
  induction ops generalizing s with
  | nil => intro _; exact hok
  | cons op r ih =>
    intro h
    simp only [SmlM.run]
    exact ih _ (c02_smlm_sound_partial s op hok (h op (by simp))) (fun o ho => h o (by simp [ho]))

/-- COMPLETENESS of the `semantic_id` setter on a contained child: if the child with the new id would break a rule of the
    list formed by the other children, the assignment raises AASConstraintViolation with the number of a list rule. -/
theorem c02_smlm_setsem_complete (s : SmlM) (t : Nat) (r : Option Nat) (e : SmlElem) (hok : SmlMOk s)
    (hin : lookupTag t s.order = some e)
    (hbad : ¬ SmlListOk s.cfg ((dropTag t s.order).map (·.2) ++ [{ e with semId := r, hasIdShort := false }])) :
    ∃ n, n ∈ [120, 108, 107, 109, 114] ∧ (s.step (.setSem t r)).2 = .error (.aascv n) := by
  have hrest : SmlListOk s.cfg ((dropTag t s.order).map (·.2)) :=
    smlListOk_of_subset s.cfg s.items _ (dropTag_items_subset t s.order) hok
  obtain ⟨n, hn, hc⟩ := c02_sml_add_complete s.cfg _ _ hrest hbad
  refine ⟨n, hn, ?_⟩
  simp only [SmlM.step, hin, hc]

/-  FULL STATEMENT (false — known finding `smlm.setvt:accepted:aasd109`):
      theorem c02_smlm_sound (s : SmlM) (op : SmlOp) (hok : SmlMOk s) : SmlMOk (s.step op).1
    `value_type` of Property / Range is a plain attribute: assigning it to a contained child re-validates nothing. -/
theorem c02_smlm_setvt_breaks_109 :
    ∃ (s : SmlM) (t : Nat) (v : Option String), SmlMOk s ∧ (s.step (.setVt t v)).2 = .ok () ∧ ¬ SmlMOk (s.step (.setVt t v)).1 := by
  refine ⟨⟨⟨"Property", none, some "Int"⟩, [(0, ⟨"Property", none, some "Int", false⟩)], []⟩, 0, some "String", ?_, rfl, ?_⟩
  · exact (c02_smlm_ctor ⟨"Property", none, some "Int"⟩ [⟨"Property", none, some "Int", false⟩] _ (by decide)).2.2.2
  · intro h
    have := h.2.2.2.1 (Or.inl rfl) ⟨"Property", none, some "String", false⟩ (by decide)
    exact absurd this (by decide)

/-- … but on a child that is not in the list `value_type` cannot hurt the list -/
theorem c02_smlm_setvt_detached (s : SmlM) (t : Nat) (v : Option String) (hok : SmlMOk s) (hout : lookupTag t s.order = none) :
    SmlMOk (s.step (.setVt t v)).1 := by
  have hid : mapTag t (setVtOf v) s.order = s.order := by
    unfold mapTag
    have : ∀ p ∈ s.order, (p.1 == t) = false := by
      intro p hp
      unfold lookupTag at hout
      simp only [Option.map_eq_none_iff] at hout
      have := List.find?_eq_none.1 hout p hp
      simpa using this
    calc List.map (fun p => if (p.1 == t) = true then (p.1, setVtOf v p.2) else p) s.order
        = List.map id s.order := List.map_congr_left (fun p hp => by simp [this p hp])
      _ = s.order := List.map_id _
  unfold SmlMOk at *
  simp only [SmlM.step, SmlM.items, hid]
  exact hok

/-- ATOMICITY of everything except the `semantic_id` setter: a raising call leaves the list as it was; apart from `add`
    (which lists its new, still detached child) it leaves the whole state as it was. -/
theorem c02_smlm_atomic_partial (s : SmlM) (op : SmlOp) (hns : ∀ t r, op ≠ .setSem t r) :
    (s.step op).2 ≠ .ok () → (s.step op).1.order = s.order ∧ ((∀ e, op ≠ .add e) → (s.step op).1 = s) := by
  cases op with
  | add e =>
    simp only [SmlM.step]
    cases smlAddChk s.cfg e s.items with
    | error err => intro _; exact ⟨rfl, fun h => absurd rfl (h e)⟩
    | ok u => cases u; simp
  | readd t =>
    simp only [SmlM.step]
    split
    · simp
    · rename_i e _ _
      cases smlAddChk s.cfg e s.items with
      | error err => simp
      | ok u => cases u; simp
    · simp
  | setSem t r => exact absurd rfl (hns t r)
  | setVt t v => simp [SmlM.step]
  | setId t u => simp only [SmlM.step]; split <;> simp
  | remove t => simp only [SmlM.step]; split <;> simp

/-  FULL STATEMENT (false — known finding `smlm.setsem:raised:not-atomic`):
      theorem c02_smlm_atomic (s : SmlM) (op : SmlOp) : (s.step op).2 ≠ .ok () → (s.step op).1.order = s.order
    A rejected `semantic_id` assignment leaves the child removed from the list, carrying the rejected id. -/
theorem c02_smlm_setsem_not_atomic :
    ∃ (s : SmlM) (t : Nat) (r : Option Nat), SmlMOk s ∧ (s.step (.setSem t r)).2 = .error (.aascv 114) ∧
      (s.step (.setSem t r)).1.order ≠ s.order ∧
      lookupTag t (s.step (.setSem t r)).1.detached = some ⟨"Property", r, some "Int", false⟩ := by
  refine ⟨⟨⟨"Property", none, some "Int"⟩, [(0, ⟨"Property", none, some "Int", false⟩), (1, ⟨"Property", some 0, some "Int", false⟩)], []⟩,
    0, some 1, ?_, by decide, by decide, by decide⟩
  exact (c02_smlm_ctor ⟨"Property", none, some "Int"⟩ [⟨"Property", none, some "Int", false⟩, ⟨"Property", some 0, some "Int", false⟩] _
    (by decide)).2.2.2

example : (SmlM.step ⟨⟨"Property", some 0, some "Int"⟩, [(0, ⟨"Property", none, some "Int", false⟩)], []⟩ (.setSem 0 (some 1))).2
    = .error (.aascv 107) := by decide
example : ((SmlM.step ⟨⟨"Property", none, some "Int"⟩, [(0, ⟨"Property", none, some "Int", false⟩), (1, ⟨"Property", some 0, some "Int", false⟩)], []⟩
    (.setSem 0 (some 0))).1.order.map (·.1)) = [1, 0] := by decide
example : (SmlM.step ⟨⟨"Capability", none, none⟩, [(0, ⟨"Capability", none, none, false⟩)], []⟩ (.setId 0 true)).2 = .error (.aascv 120) := by
  decide

end Basyx.Constraints
