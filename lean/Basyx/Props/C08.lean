/-
  C08 — AASX packages return the objects and files that were put in.
  Model: `Basyx/Model/Aasx.lean` on top of the file container model of C19 (whose refinement theorem is reused).
  The traversal's descend rule is regenerated from util/traversal.py (`Basyx/Gen/Aasx.lean`).
-/
import Basyx.Model.Aasx
import Basyx.Props.C19
import Basyx.Gen.Aasx
import Basyx.Lemmas.AasxMulti
namespace Basyx.Aasx
open Basyx.Files (Name Content CT)

/-- **The traversal reaches every File element**: `walk_submodel` descends into every kind of element that can
    contain elements (re-checked against the source on every run). -/
theorem c08_walk_complete : ∀ b : Box, Gen.Aasx.descends b = true := by
  intro b; cases b <;> decide

/-- what the reader promises per File element, relative to the receiving container `G'` (through its meaning `abs`) -/
def FilesOk (d : Descends) (parts : List Part) (G' : Files.St) : List FileEl → List FileEl → Prop
  | [], [] => True
  | f :: r, f' :: r' =>
    f'.boxes = f.boxes ∧
    (match f.value with
     | some v =>
       if reachable d f && isLocal v then
         match findPart parts (realpath v) with
         | some p => ∃ n, f'.value = some n ∧ AList.get n (Files.abs G') = some (p.content, p.ctype)
         | none => f' = f
       else f' = f
     | none => f' = f) ∧
    FilesOk d parts G' r r'
  | _, _ => False

private theorem addFile_out (G : Files.St) (name : Name) (c : Content) (ct : CT) :
    ∃ n, (Files.addFile G name c ct).2 = .name n := by
  unfold Files.addFile
  simp only []
  by_cases hs : AList.has (Files.hash c) G.store <;> simp only [hs, Bool.false_eq_true, ↓reduceIte] <;> split <;>
    first
      | (rename_i hf; exact absurd hf (Files.findSlot_not_exhausted _ _ _))
      | exact ⟨_, rfl⟩

private theorem add_binding (G : Files.St) (hI : Files.Inv G) (name : Name) (c : Content) (ct : CT) :
    Files.Inv (Files.addFile G name c ct).1 ∧
    (∀ n, (Files.addFile G name c ct).2 = .name n → AList.get n (Files.abs (Files.addFile G name c ct).1) = some (c, ct)) ∧
    (∀ k x, AList.get k (Files.abs G) = some x → AList.get k (Files.abs (Files.addFile G name c ct).1) = some x) := by
  have hstep := Files.c19_refines_step G (.add name c ct) hI
  have hI' := Files.c19_inv_step G (.add name c ct) hI
  simp only [Files.step] at hstep hI'
  refine ⟨hI', ?_, ?_⟩
  · intro n hn
    have h1 : (Files.specStep (Files.abs G) (.add name c ct)).2 = .name n := by rw [hstep]; exact hn
    have := (Files.c19_add_yields_supplied (Files.abs G) name c ct n h1).1
    rwa [hstep] at this
  · intro k x hk
    obtain ⟨n, hn⟩ := addFile_out G name c ct
    have h1 : (Files.specStep (Files.abs G) (.add name c ct)).2 = .name n := by rw [hstep]; exact hn
    have hsup := Files.c19_add_yields_supplied (Files.abs G) name c ct n h1
    rw [hstep] at hsup
    by_cases hkn : k = n
    · -- the returned name was already bound: then it was bound to exactly the supplied content
      subst hkn
      simp only [Files.specStep, Files.specFind] at h1
      split at h1 <;> rename_i hf
      · injection h1 with h1; subst h1
        have := (Files.findSlot_fresh hf).1
        rw [this] at hk; cases hk
      · injection h1 with h1; subst h1
        have := Files.findSlot_same hf
        rw [this] at hk; injection hk with hk; subst hk
        exact hsup.1
      · cases h1
    · rw [hsup.2 k hkn]; exact hk

/-- **Files** — for EVERY receiving container `G` (also one that already holds other files under the same names) and
    every list of File elements: after reading, each element that named a file of the package names a file of the
    container with exactly that content and content type; everything that was in the container before is still
    there, unchanged. -/
theorem c08_files (d : Descends) (parts : List Part) : ∀ (fs : List FileEl) (G : Files.St), Files.Inv G →
    Files.Inv (collectFiles d parts G fs).1 ∧
    FilesOk d parts (collectFiles d parts G fs).1 fs (collectFiles d parts G fs).2 ∧
    (∀ k x, AList.get k (Files.abs G) = some x → AList.get k (Files.abs (collectFiles d parts G fs).1) = some x)
  | [], G, hI => ⟨hI, trivial, fun _ _ h => h⟩
  | f :: r, G, hI => by
    simp only [collectFiles]
    cases hv : f.value with
    | none =>
      have ih := c08_files d parts r G hI
      refine ⟨ih.1, ?_, ih.2.2⟩
      simp [FilesOk, hv, ih.2.1]
    | some v =>
      simp only
      by_cases hl : (reachable d f && isLocal v) = true
      · simp only [hl, if_true]
        cases hp : findPart parts (realpath v) with
        | none =>
          have ih := c08_files d parts r G hI
          refine ⟨ih.1, ?_, ih.2.2⟩
          simp [FilesOk, hv, hl, hp, ih.2.1]
        | some p =>
          simp only
          have hadd := add_binding G hI (realpath v) p.content p.ctype
          cases ho : (Files.addFile G (realpath v) p.content p.ctype) with
          | mk G1 out =>
            rw [ho] at hadd
            have ih := c08_files d parts r G1 hadd.1
            cases out with
            | name n =>
              refine ⟨ih.1, ?_, fun k x hk => ih.2.2 k x (hadd.2.2 k x hk)⟩
              have hb := ih.2.2 n _ (hadd.2.1 n rfl)
              simp only [FilesOk, hv, hl, if_true, hp]
              exact ⟨trivial, ⟨n, rfl, hb⟩, ih.2.1⟩
            | _ =>
              exfalso
              obtain ⟨n, hn⟩ := addFile_out G (realpath v) p.content p.ctype
              rw [ho] at hn; cases hn
      · have hl' : (reachable d f && isLocal v) = false := by simpa using hl
        have ih := c08_files d parts r G hI
        simp only [hl', Bool.false_eq_true, if_false]
        refine ⟨ih.1, ?_, ih.2.2⟩
        simp [FilesOk, hv, hl', ih.2.1]

/-! ### objects already present in the receiving store -/

/-- an object whose identifier is already stored is skipped unless overriding is requested … -/
theorem c08_existing_kept (d : Descends) (parts : List Part) (st : RState) (o : Obj)
    (hp : st.store.any (fun x => x.id = o.id) = true) (hr : st.readIds.contains o.id = false) :
    readObj d parts false st o = st := by
  have hr' : o.id ∉ st.readIds := by simpa using hr
  simp only [readObj, List.contains_eq_mem, hr', decide_false, Bool.false_eq_true, if_false, hp, Bool.not_false, Bool.and_self, if_true]

/-- … and replaced (the old object removed, the new one stored, its files collected) when it is. -/
theorem c08_existing_replaced (d : Descends) (parts : List Part) (st : RState) (o : Obj)
    (hp : st.store.any (fun x => x.id = o.id) = true) (hr : st.readIds.contains o.id = false) :
    (readObj d parts true st o).store =
      st.store.filter (fun x => x.id ≠ o.id) ++
        [{ o with files := (if o.kind = .submodel then collectFiles d parts st.files o.files else (st.files, o.files)).2 }] ∧
    (readObj d parts true st o).readIds = st.readIds ++ [o.id] := by
  have hr' : o.id ∉ st.readIds := by simpa using hr
  simp only [readObj, List.contains_eq_mem, hr', decide_false, Bool.false_eq_true, if_false, hp, Bool.not_true, Bool.and_false,
    if_true, replaceObj]
  simp

/-- an object read twice from one package is stored once -/
theorem c08_duplicate_skipped (d : Descends) (parts : List Part) (ov : Bool) (st : RState) (o : Obj)
    (hr : st.readIds.contains o.id = true) : readObj d parts ov st o = st := by
  simp only [readObj, hr, if_true]

/-! ### the writing side, and write-then-read -/

/-- what a part carries is what the source container holds under that name -/
def PartOk (F : Files.St) (p : Part) : Prop := AList.get p.name F.names = some (p.content, p.ctype)

private theorem getters_iff (F : Files.St) (hI : Files.Inv F) (v : Name) (c : Content) (ct : CT) :
    (Files.getContentType F v = .ctype ct ∧ Files.writeFile F v = .content c) ↔ AList.get v F.names = some (c, ct) := by
  constructor
  · rintro ⟨h1, h2⟩
    unfold Files.getContentType at h1
    unfold Files.writeFile at h2
    cases hn : AList.get v F.names with
    | none => simp [hn] at h1
    | some e =>
      obtain ⟨h, ct'⟩ := e
      simp only [hn] at h1 h2
      injection h1 with h1; subst h1
      cases hs : AList.get h F.store with
      | none => simp [hs] at h2
      | some c' =>
        simp only [hs] at h2
        injection h2 with h2; subst h2
        have := hI.storeVal h c' hs
        simp only [Files.hash] at this
        rw [this]
  · intro hn
    have hst := hI.nameStored v c ct hn
    cases hs : AList.get c F.store with
    | none => simp [hs] at hst
    | some c' =>
      have := hI.storeVal c c' hs
      simp only [Files.hash] at this
      subst this
      simp [Files.getContentType, Files.writeFile, hn, hs]

private theorem findPart_append_of_some {acc : List Part} {v : Name} {p : Part} (q : Part) (h : findPart acc v = some p) :
    findPart (acc ++ [q]) v = some p := by
  unfold findPart at h ⊢
  rw [List.find?_append, h]; rfl

private theorem collectParts_mono (d : Descends) (F : Files.St) : ∀ (fs : List FileEl) (acc : List Part) (v : Name) (p : Part),
    findPart acc v = some p → findPart (collectParts d F fs acc) v = some p
  | [], acc, v, p, h => h
  | f :: r, acc, v, p, h => by
    simp only [collectParts]
    split
    · split
      · split
        · split
          · exact collectParts_mono d F r acc v p h
          · exact collectParts_mono d F r _ v p (findPart_append_of_some _ h)
        · exact collectParts_mono d F r acc v p h
      · exact collectParts_mono d F r acc v p h
    · exact collectParts_mono d F r acc v p h


/-- **Writer, soundness**: every packaged part is a file of the source container, with its content and type. -/
theorem c08_writer_sound (d : Descends) (F : Files.St) (hI : Files.Inv F) : ∀ (fs : List FileEl) (acc : List Part),
    (∀ p ∈ acc, PartOk F p) → ∀ p ∈ collectParts d F fs acc, PartOk F p
  | [], acc, h => h
  | f :: r, acc, h => by
    simp only [collectParts]
    split
    · rename_i v hv
      split
      · split
        · rename_i ct c hct hc
          split
          · exact c08_writer_sound d F hI r acc h
          · apply c08_writer_sound d F hI r
            intro p hp
            rcases List.mem_append.1 hp with hp | hp
            · exact h p hp
            · simp only [List.mem_singleton] at hp; subst hp
              exact (getters_iff F hI v c ct).1 ⟨hct, hc⟩
        · exact c08_writer_sound d F hI r acc h
      · exact c08_writer_sound d F hI r acc h
    · exact c08_writer_sound d F hI r acc h

private theorem findPart_name {acc : List Part} {v : Name} {p : Part} (h : findPart acc v = some p) : p.name = v ∧ p ∈ acc := by
  unfold findPart at h
  exact ⟨by simpa using List.find?_some h, List.mem_of_find?_eq_some h⟩

/-- **Writer, completeness**: every reachable File element whose value is a local name held by the source container is
    packaged, under that name, with the container's content and content type. -/
theorem c08_writer_complete (d : Descends) (F : Files.St) (hI : Files.Inv F) : ∀ (fs : List FileEl) (acc : List Part),
    (∀ p ∈ acc, PartOk F p) →
    ∀ f ∈ fs, ∀ v c ct, f.value = some v → (reachable d f && isLocal v) = true → AList.get v F.names = some (c, ct) →
      findPart (collectParts d F fs acc) v = some ⟨v, c, ct⟩
  | [], _, _, f, hf => by cases hf
  | g :: r, acc, hacc, f, hf => by
    intro v c ct hv hl hn
    have hget := (getters_iff F hI v c ct).2 hn
    rcases List.mem_cons.1 hf with rfl | hf'
    · -- the element itself
      simp only [collectParts, hv, hl, if_true, hget.1, hget.2]
      split
      · rename_i hany
        -- a part of that name is already there: it carries the same content
        obtain ⟨q, hq, hqn⟩ := List.any_eq_true.1 hany
        have hqn' : q.name = v := by simpa using hqn
        cases hfp : findPart acc v with
        | none =>
          exfalso
          unfold findPart at hfp
          have := List.find?_eq_none.1 hfp q hq
          simp [hqn'] at this
        | some p =>
          obtain ⟨hpn, hpm⟩ := findPart_name hfp
          have hpo := hacc p hpm
          unfold PartOk at hpo
          rw [hpn, hn] at hpo
          have : p = ⟨v, c, ct⟩ := by
            cases p; simp only [Part.mk.injEq]; simp only at hpn hpo
            injection hpo with hpo; injection hpo with h1 h2
            exact ⟨hpn, h1.symm, h2.symm⟩
          rw [← this]
          exact collectParts_mono d F r acc v p hfp
      · rename_i hany
        apply collectParts_mono d F r
        unfold findPart
        rw [List.find?_append]
        have : List.find? (fun p => decide (p.name = v)) acc = none := by
          apply List.find?_eq_none.2
          intro q hq hqn
          apply hany
          exact List.any_eq_true.2 ⟨q, hq, by simpa using hqn⟩
        rw [this]
        simp
    · -- an element further down the list
      have hacc' : ∀ acc', (∀ p ∈ acc', PartOk F p) →
          findPart (collectParts d F r acc') v = some ⟨v, c, ct⟩ :=
        fun acc' h' => c08_writer_complete d F hI r acc' h' f hf' v c ct hv hl hn
      simp only [collectParts]
      split
      · rename_i w hw
        split
        · split
          · rename_i ct' c' hct hc
            split
            · exact hacc' acc hacc
            · apply hacc'
              intro p hp
              rcases List.mem_append.1 hp with hp | hp
              · exact hacc p hp
              · simp only [List.mem_singleton] at hp; subst hp
                exact (getters_iff F hI w c' ct').1 ⟨hct, hc⟩
          · exact hacc' acc hacc
        · exact hacc' acc hacc
      · exact hacc' acc hacc


private theorem filesOk_get (d : Descends) (parts : List Part) (G' : Files.St) : ∀ (fs fs' : List FileEl), FilesOk d parts G' fs fs' →
    ∀ (i : Nat) (f : FileEl), fs[i]? = some f → ∃ f', fs'[i]? = some f' ∧ FilesOk d parts G' [f] [f']
  | [], [], _, i, f, h => by simp at h
  | [], _ :: _, h, _, _, _ => by simp [FilesOk] at h
  | _ :: _, [], h, _, _, _ => by simp [FilesOk] at h
  | g :: r, g' :: r', h, i, f, hi => by
    simp only [FilesOk] at h
    cases i with
    | zero =>
      simp only [List.getElem?_cons_zero, Option.some.injEq] at hi; subst hi
      exact ⟨g', by simp, by simp only [FilesOk]; exact ⟨h.1, h.2.1, trivial⟩⟩
    | succ j =>
      simp only [List.getElem?_cons_succ] at hi
      obtain ⟨f', hf', hok⟩ := filesOk_get d parts G' r r' h.2.2 j f hi
      exact ⟨f', by simpa using hf', hok⟩

/-- **Package round trip for the files**: write the File elements `fs` of the payload from a source container `F`, read
    the package into ANY receiving container `G` (empty or not).  Every File element that the traversal reaches and that
    named a file of `F` by an absolute local name then names a file of the receiving container with exactly the
    bytes and content type `F` held. -/
theorem c08_package_files_roundtrip (d : Descends) (F G : Files.St) (hF : Files.Inv F) (hG : Files.Inv G) (fs : List FileEl)
    (i : Nat) (f : FileEl) (hi : fs[i]? = some f) (v : Name) (c : Content) (ct : CT) (hv : f.value = some v)
    (hl : (reachable d f && isLocal v) = true) (habs : realpath v = v)
    (hc : AList.get v (Files.abs F) = some (c, ct)) :
    ∃ f' n, (collectFiles d (collectParts d F fs []) G fs).2[i]? = some f' ∧ f'.value = some n ∧
      AList.get n (Files.abs (collectFiles d (collectParts d F fs []) G fs).1) = some (c, ct) := by
  rw [Files.abs_eq_names F hF] at hc
  have hmem : f ∈ fs := List.mem_of_getElem? hi
  have hpart := c08_writer_complete d F hF fs [] (by simp) f hmem v c ct hv hl hc
  obtain ⟨_, hok, _⟩ := c08_files d (collectParts d F fs []) fs G hG
  obtain ⟨f', hf', hone⟩ := filesOk_get d _ _ fs _ hok i f hi
  simp only [FilesOk, hv, hl, if_true, habs, hpart] at hone
  obtain ⟨_, ⟨n, hn, hb⟩, _⟩ := hone
  exact ⟨f', n, hf', hn, hb⟩

/-! ### packages with several AAS parts (round 8) -/

/-- **Writing part by part and reading part by part is writing and reading the concatenation**: the supplementary parts of a
    package written with one writer call per AAS part are those of one call over all File elements, and reading the parts
    (and the submodels in them) one after the other leaves the container, and renames the File elements, exactly as one
    pass over all of them does - for any number of parts and submodels. -/
theorem c08_multipart_is_flat (d : Descends) (F G : Files.St) (parts : List Part) (fss : List (List FileEl)) :
    collectPartsSeq d F fss [] = collectParts d F fss.flatten [] ∧
    (collectFilesSeq d parts G fss).1 = (collectFiles d parts G fss.flatten).1 ∧
    (collectFilesSeq d parts G fss).2.flatten = (collectFiles d parts G fss.flatten).2 :=
  ⟨collectPartsSeq_flatten d F fss [], collectFilesSeq_flatten d parts fss G⟩

/-- **Round trip for every File element of every AAS part**: a package written part by part from `F` and read part by part
    into ANY receiving container `G`: the File element at (flat) position `i` - whatever part and submodel it sits in, and
    whether or not an earlier part already brought its file along - that named a file of `F` names a file of the receiving
    container with exactly the bytes and content type `F` held. -/
theorem c08_multipart_files_roundtrip (d : Descends) (F G : Files.St) (hF : Files.Inv F) (hG : Files.Inv G)
    (fss : List (List FileEl)) (i : Nat) (f : FileEl) (hi : fss.flatten[i]? = some f) (v : Name) (c : Content) (ct : CT)
    (hv : f.value = some v) (hl : (reachable d f && isLocal v) = true) (habs : realpath v = v)
    (hc : AList.get v (Files.abs F) = some (c, ct)) :
    ∃ f' n, (collectFilesSeq d (collectPartsSeq d F fss []) G fss).2.flatten[i]? = some f' ∧ f'.value = some n ∧
      AList.get n (Files.abs (collectFilesSeq d (collectPartsSeq d F fss []) G fss).1) = some (c, ct) := by
  obtain ⟨h1, h2, h3⟩ := c08_multipart_is_flat d F G (collectPartsSeq d F fss []) fss
  rw [h2, h3, h1]
  exact c08_package_files_roundtrip d F G hF hG fss.flatten i f hi v c ct hv hl habs hc

/-! ### non-vacuity: a container that already holds another file under the package's file name -/

def demoG : Files.St := (Files.addFile Files.init "/aasx/files/a.pdf".toList "OLD".toList "text/plain".toList).1
def demoParts : List Part := [⟨"/aasx/files/a.pdf".toList, "NEW".toList, "application/pdf".toList⟩]
def demoFiles : List FileEl := [⟨[.entity], some "/aasx/files/a.pdf".toList⟩, ⟨[], some "https://x/y".toList⟩]

/-- write-then-read on a concrete pair of containers: the source holds NEW under the name the receiver uses for OLD -/
def demoF : Files.St := (Files.addFile Files.init "/aasx/files/a.pdf".toList "NEW".toList "application/pdf".toList).1
example : collectParts Gen.Aasx.descends demoF demoFiles [] = demoParts := by decide

example : (collectFiles Gen.Aasx.descends demoParts demoG demoFiles).2 =
    [⟨[.entity], some "/aasx/files/a_0001.pdf".toList⟩, ⟨[], some "https://x/y".toList⟩] := by decide

def demoEl : FileEl := ⟨[.entity], some "/aasx/files/a.pdf".toList⟩

/-- two AAS parts whose File elements name the same stored file, read into a container that holds OTHER bytes under that
    name: both elements are renamed to the one new entry (the situation of seeded change C08-r8-1) -/
example : (collectFilesSeq Gen.Aasx.descends (collectPartsSeq Gen.Aasx.descends demoF [[demoEl], [demoEl]] []) demoG
            [[demoEl], [demoEl]]).2 =
    [[⟨[.entity], some "/aasx/files/a_0001.pdf".toList⟩], [⟨[.entity], some "/aasx/files/a_0001.pdf".toList⟩]] := by decide

end Basyx.Aasx
