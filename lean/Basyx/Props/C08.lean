/-
  C08 — AASX packages return the objects and files that were put in.
  Model: `Basyx/Model/Aasx.lean` on top of the file container model of C19 (whose refinement theorem is reused).
  The traversal's descend rule is regenerated from util/traversal.py (`Basyx/Gen/Aasx.lean`).
-/
import Basyx.Model.Aasx
import Basyx.Props.C19
import Basyx.Gen.Aasx
namespace Basyx.Aasx
open Basyx.Files (Name Content CT)

/-- **The traversal reaches every File element**: `walk_submodel` descends into every kind of element that can
    contain elements (re-checked against the source on every run). -/
theorem c08_walk_complete : ∀ b : Box, Gen.Aasx.descends b = true := by
  intro b; cases b <;> decide

/-- what the reader promises per File element, relative to the receiving container `G'` (through its meaning `abs`) -/
def FilesOk (d : Descends) (parts : List Part) (G' : Files.St) : List FileEl → List FileEl → Prop
  | [], [] => True
  | f :: r, f' :: r' =>
    f'.boxes = f.boxes ∧
    (match f.value with
     | some v =>
       if reachable d f && isLocal v then
         match findPart parts (realpath v) with
         | some p => ∃ n, f'.value = some n ∧ AList.get n (Files.abs G') = some (p.content, p.ctype)
         | none => f' = f
       else f' = f
     | none => f' = f) ∧
    FilesOk d parts G' r r'
  | _, _ => False

private theorem addFile_out (G : Files.St) (name : Name) (c : Content) (ct : CT) :
    ∃ n, (Files.addFile G name c ct).2 = .name n := by
  unfold Files.addFile
  simp only []
  by_cases hs : AList.has (Files.hash c) G.store <;> simp only [hs, Bool.false_eq_true, ↓reduceIte] <;> split <;>
    first
      | (rename_i hf; exact absurd hf (Files.findSlot_not_exhausted _ _ _))
      | exact ⟨_, rfl⟩

private theorem add_binding (G : Files.St) (hI : Files.Inv G) (name : Name) (c : Content) (ct : CT) :
    Files.Inv (Files.addFile G name c ct).1 ∧
    (∀ n, (Files.addFile G name c ct).2 = .name n → AList.get n (Files.abs (Files.addFile G name c ct).1) = some (c, ct)) ∧
    (∀ k x, AList.get k (Files.abs G) = some x → AList.get k (Files.abs (Files.addFile G name c ct).1) = some x) := by
  have hstep := Files.c19_refines_step G (.add name c ct) hI
  have hI' := Files.c19_inv_step G (.add name c ct) hI
  simp only [Files.step] at hstep hI'
  refine ⟨hI', ?_, ?_⟩
  · intro n hn
    have h1 : (Files.specStep (Files.abs G) (.add name c ct)).2 = .name n := by rw [hstep]; exact hn
    have := (Files.c19_add_yields_supplied (Files.abs G) name c ct n h1).1
    rwa [hstep] at this
  · intro k x hk
    obtain ⟨n, hn⟩ := addFile_out G name c ct
    have h1 : (Files.specStep (Files.abs G) (.add name c ct)).2 = .name n := by rw [hstep]; exact hn
    have hsup := Files.c19_add_yields_supplied (Files.abs G) name c ct n h1
    rw [hstep] at hsup
    by_cases hkn : k = n
    · -- the returned name was already bound: then it was bound to exactly the supplied content
      subst hkn
      simp only [Files.specStep, Files.specFind] at h1
      split at h1 <;> rename_i hf
      · injection h1 with h1; subst h1
        have := (Files.findSlot_fresh hf).1
        rw [this] at hk; cases hk
      · injection h1 with h1; subst h1
        have := Files.findSlot_same hf
        rw [this] at hk; injection hk with hk; subst hk
        exact hsup.1
      · cases h1
    · rw [hsup.2 k hkn]; exact hk

/-- **Files** — for EVERY receiving container `G` (also one that already holds other files under the same names) and
    every list of File elements: after reading, each element that named a file of the package names a file of the
    container with exactly that content and content type; everything that was in the container before is still
    there, unchanged. -/
theorem c08_files (d : Descends) (parts : List Part) : ∀ (fs : List FileEl) (G : Files.St), Files.Inv G →
    Files.Inv (collectFiles d parts G fs).1 ∧
    FilesOk d parts (collectFiles d parts G fs).1 fs (collectFiles d parts G fs).2 ∧
    (∀ k x, AList.get k (Files.abs G) = some x → AList.get k (Files.abs (collectFiles d parts G fs).1) = some x)
  | [], G, hI => ⟨hI, trivial, fun _ _ h => h⟩
  | f :: r, G, hI => by
    simp only [collectFiles]
    cases hv : f.value with
    | none =>
      have ih := c08_files d parts r G hI
      refine ⟨ih.1, ?_, ih.2.2⟩
      simp [FilesOk, hv, ih.2.1]
    | some v =>
      simp only
      by_cases hl : (reachable d f && isLocal v) = true
      · simp only [hl, if_true]
        cases hp : findPart parts (realpath v) with
        | none =>
          have ih := c08_files d parts r G hI
          refine ⟨ih.1, ?_, ih.2.2⟩
          simp [FilesOk, hv, hl, hp, ih.2.1]
        | some p =>
          simp only
          have hadd := add_binding G hI (realpath v) p.content p.ctype
          cases ho : (Files.addFile G (realpath v) p.content p.ctype) with
          | mk G1 out =>
            rw [ho] at hadd
            have ih := c08_files d parts r G1 hadd.1
            cases out with
            | name n =>
              refine ⟨ih.1, ?_, fun k x hk => ih.2.2 k x (hadd.2.2 k x hk)⟩
              have hb := ih.2.2 n _ (hadd.2.1 n rfl)
              simp only [FilesOk, hv, hl, if_true, hp]
              exact ⟨trivial, ⟨n, rfl, hb⟩, ih.2.1⟩
            | _ =>
              exfalso
              obtain ⟨n, hn⟩ := addFile_out G (realpath v) p.content p.ctype
              rw [ho] at hn; cases hn
      · have hl' : (reachable d f && isLocal v) = false := by simpa using hl
        have ih := c08_files d parts r G hI
        simp only [hl', Bool.false_eq_true, if_false]
        refine ⟨ih.1, ?_, ih.2.2⟩
        simp [FilesOk, hv, hl', ih.2.1]

/-! ### objects already present in the receiving store -/

/-- an object whose identifier is already stored is skipped unless overriding is requested … -/
theorem c08_existing_kept (d : Descends) (parts : List Part) (st : RState) (o : Obj)
    (hp : st.store.any (fun x => x.id = o.id) = true) (hr : st.readIds.contains o.id = false) :
    readObj d parts false st o = st := by
  have hr' : o.id ∉ st.readIds := by simpa using hr
  simp only [readObj, List.contains_eq_mem, hr', decide_false, Bool.false_eq_true, if_false, hp, Bool.not_false, Bool.and_self, if_true]

/-- … and replaced (the old object removed, the new one stored, its files collected) when it is. -/
theorem c08_existing_replaced (d : Descends) (parts : List Part) (st : RState) (o : Obj)
    (hp : st.store.any (fun x => x.id = o.id) = true) (hr : st.readIds.contains o.id = false) :
    (readObj d parts true st o).store =
      st.store.filter (fun x => x.id ≠ o.id) ++
        [{ o with files := (if o.kind = .submodel then collectFiles d parts st.files o.files else (st.files, o.files)).2 }] ∧
    (readObj d parts true st o).readIds = st.readIds ++ [o.id] := by
  have hr' : o.id ∉ st.readIds := by simpa using hr
  simp only [readObj, List.contains_eq_mem, hr', decide_false, Bool.false_eq_true, if_false, hp, Bool.not_true, Bool.and_false,
    if_true, replaceObj]
  simp

/-- an object read twice from one package is stored once -/
theorem c08_duplicate_skipped (d : Descends) (parts : List Part) (ov : Bool) (st : RState) (o : Obj)
    (hr : st.readIds.contains o.id = true) : readObj d parts ov st o = st := by
  simp only [readObj, hr, if_true]

/-! ### non-vacuity: a container that already holds another file under the package's file name -/

def demoG : Files.St := (Files.addFile Files.init "/aasx/files/a.pdf".toList "OLD".toList "text/plain".toList).1
def demoParts : List Part := [⟨"/aasx/files/a.pdf".toList, "NEW".toList, "application/pdf".toList⟩]
def demoFiles : List FileEl := [⟨[.entity], some "/aasx/files/a.pdf".toList⟩, ⟨[], some "https://x/y".toList⟩]

example : (collectFiles Gen.Aasx.descends demoParts demoG demoFiles).2 =
    [⟨[.entity], some "/aasx/files/a_0001.pdf".toList⟩, ⟨[], some "https://x/y".toList⟩] := by decide

end Basyx.Aasx
