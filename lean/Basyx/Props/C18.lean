/-
  C18 — Stripped (core-level) rendering removes exactly the detachable parts.
  Tables regenerated from the source (`Basyx/Gen/JsonTable.lean`: the `not cls.stripped` guards of the JSON writer
  and reader; the XML reader's flags are added by `Basyx/Gen/XmlTable.lean`, see `Props/C04.lean`), SPEC side =
  `specDetachable` from py/vf/meta.py.
-/
import Basyx.Lemmas.Codec
import Basyx.Gen.JsonTable
import Basyx.Gen.XmlTable
import Basyx.Model.Select
namespace Basyx.C18
open Basyx.Codec Basyx.Gen.Json

def sameSet (a b : List String) : Bool := a.all (b.contains ·) && b.all (a.contains ·)

def specOf (c : String) : List String :=
  match specDetachable.find? (fun e => e.1 = c) with
  | some e => e.2
  | none => []

/-- Writer, reader and specification agree on WHICH members are detachable, class by class. -/
theorem c18_sets_agree :
    jsonTable.all (fun ct =>
      sameSet ((ct.rows.filter (·.encStrip)).map (·.member)) (specOf ct.cls) &&
      sameSet ((ct.rows.filter (·.decStrip)).map (·.member)) (specOf ct.cls)) = true := by decide

theorem c18_tables_wf : wfTableB jsonTable = true := by decide

def xmlSpecOf (c : String) : List String :=
  match Basyx.Gen.Xml.specDetachable.find? (fun e => e.1 = c) with
  | some e => e.2
  | none => []

/-- The XML reader's `not cls.stripped` guards (regenerated from xml_deserialization.py) cover exactly the
    specification's detachable members as well — so the JSON writer, the JSON reader and the XML reader agree. -/
theorem c18_xml_reader_flags_agree :
    Basyx.Gen.Xml.xmlTable.all (fun ct =>
      sameSet ((ct.rows.filter (·.decStrip)).map (·.member)) (xmlSpecOf ct.cls)) = true := by decide

theorem c18_xml_tables_wf : wfTableB Basyx.Gen.Xml.xmlTable = true := by decide

/-- Reading any XML document the writer produces with the stripped XML reader yields the value with exactly the
    detachable parts removed, at every depth. -/
theorem c18_xml_stripped_reader (k : Kind) (v : Val) (h : ConfV Basyx.Gen.Xml.xmlTable k v) :
    dec Basyx.Gen.Xml.xmlTable true k (enc Basyx.Gen.Xml.xmlTable false v) = .ok (strip Basyx.Gen.Xml.xmlTable true v) := by
  have := rt_val Basyx.Gen.Xml.xmlTable false true (wf_of_wfTableB _ c18_xml_tables_wf) k v h
  rwa [Bool.false_or] at this

/-- **Writer.**  The stripped rendering of any conforming value equals its full rendering minus exactly the
    detachable members — at every nesting depth (objects nested inside kept members are treated alike). -/
theorem c18_stripped_rendering (k : Kind) (v : Val) (h : ConfV jsonTable k v) :
    enc jsonTable true v = stripW jsonTable k (enc jsonTable false v) :=
  enc_strip_val jsonTable (wf_of_wfTableB _ c18_tables_wf) k v h

/-- **Readers.**  Whatever form the document has (full `se = false` or stripped `se = true`), the stripped reader
    yields the value with exactly the detachable parts removed, and the full reader yields it with the parts the
    writer removed — so writer and readers agree on what "stripped" means. -/
theorem c18_readers (k : Kind) (v : Val) (h : ConfV jsonTable k v) (se : Bool) :
    dec jsonTable true k (enc jsonTable se v) = .ok (strip jsonTable true v) ∧
    dec jsonTable false k (enc jsonTable se v) = .ok (strip jsonTable se v) := by
  have hWF := wf_of_wfTableB _ c18_tables_wf
  constructor
  · have := rt_val jsonTable se true hWF k v h
    rwa [Bool.or_true] at this
  · have := rt_val jsonTable se false hWF k v h
    rwa [Bool.or_false] at this

/-- `strip` keeps every non-detachable attribute (only recursing into it) and resets exactly the detachable ones to
    the reader's default. -/
theorem c18_strip_exact (c : String) (r : Row) (rows : List Row) (v : Val) (fs : List Val) :
    stripFields jsonTable true (r :: rows) (v :: fs) =
      (if r.encStrip then r.dflt else strip jsonTable true v) :: stripFields jsonTable true rows fs := by
  simp [stripFields]

/-- non-vacuity: a Submodel with one element and one qualifier loses both members when stripped, keeps `id` -/
def demoSm : Val :=
  .node "Submodel" [.list [], .list [], .none, .none, .none, .none, .tok "urn:sm" false, .none, .none, .list [],
    .tok "Instance" false,
    .list [.node "Qualifier" [.none, .list [], .tok "0" true, .none, .tok "ConceptQualifier" false,
                              .tok "xs:int" false, .tok "q" false]],
    .list [.node "Capability" [.list [], .list [], .tok "c" false, .none, .none, .none, .none, .list [], .list []]]]

example : enc jsonTable true demoSm = .obj (some "Submodel") [("id", .tok "urn:sm" false)] := by rfl
example : (match enc jsonTable false demoSm with | .obj _ ms => ms.map (·.1) | _ => []) =
    ["id", "qualifiers", "submodelElements"] := by rfl

/-! ### `stripped=` reaches the writer / reader that has this mode

The strip theorems are about an encoder / decoder *with* the stripped flag.  Which class the file-level functions
(`write_aas_json_file`, `object_store_to_json`, `read_aas_json_file[_into]`, `read_aas_xml_file[_into]`,
`read_aas_xml_element`) use for `stripped=s` is decided by `_select_encoder` / `_select_decoder`; table and class flags are
regenerated from the source on every run (`Gen/Select.lean`). -/

/-- every row of the three selection functions returns a class whose `stripped` attribute (looked up along its method
    resolution order) is the argument, for both values of the argument -/
theorem c18_mode_selection :
    Gen.Select.select.all (fun r => Select.flag false r.1 r.2.2.2 == some r.2.2.1) = true ∧ Select.selectTotal = true := by decide

/-- in particular: the JSON writer functions render stripped exactly when asked to -/
theorem c18_encoder_selected (s : Bool) :
    ∃ c, ("json-enc", none, s, c) ∈ Gen.Select.select ∧ Select.flag false "json-enc" c = some s := by
  cases s
  · exact ⟨"AASToJsonEncoder", by decide, by decide⟩
  · exact ⟨"StrippedAASToJsonEncoder", by decide, by decide⟩

end Basyx.C18
