/-
  C09 — Readers isolate damaged input: failsafe never raises, strict as documented.
  Model: `Basyx/Model/Failsafe.lean` (documents with damaged positions, exception propagation, recover points).
  Regenerated from the source on every run: the member tables (as C03/C04), the general catch tuples
  (`object_hook`, `_failsafe_construct`), the per-item handlers' tuples and the recover points of both readers.
-/
import Basyx.Lemmas.Failsafe
import Basyx.Gen.JsonTable
import Basyx.Gen.XmlTable
import Basyx.Model.Select
namespace Basyx.C09
open Basyx.Codec

def kindOfName : String → Option EKind
  | "KeyError" => some .key
  | "TypeError" => some .type
  | "ValueError" => some .value
  | "model.AASConstraintViolation" => some .aascv
  | _ => none

def kinds (l : List String) : List EKind := l.filterMap kindOfName

def points (p : List (String × List (String × Bool × Bool × List String))) : List RecClass :=
  p.map (fun (c, rows) => ⟨c, rows.map (fun (m, r, ir, ic) => ⟨m, r, ir, kinds ic⟩)⟩)

def jsonCfg (failsafe : Bool) : Cfg := ⟨failsafe, kinds Gen.Json.objectHookCatch, Gen.Json.hookClasses, points Gen.Json.recPoints⟩
def xmlCfg (failsafe : Bool) : Cfg := ⟨failsafe, kinds Gen.Xml.objectHookCatch, [], points Gen.Xml.recPoints⟩

/-- SPEC: the kinds of exception that turning a JSON / XML value into a model object can raise (missing member or
    unknown literal: KeyError; wrong JSON type or value without type: TypeError; malformed or out-of-range literal,
    string constraint: ValueError; metamodel constraint: AASConstraintViolation). -/
def raisable : List EKind := [.key, .type, .value, .aascv]

/-- **Catch coverage, JSON** (re-checked against the `except` tuple of `object_hook` on every run). -/
theorem c09_json_catch_covers : raisable.all (fun k => (jsonCfg true).caught.contains k) = true := by decide

/-- **Catch coverage, XML** (re-checked against the `except` tuple of `_failsafe_construct` on every run). -/
theorem c09_xml_catch_covers : raisable.all (fun k => (xmlCfg true).caught.contains k) = true := by decide

private theorem allCaught_of (cfg : Cfg) (hf : cfg.failsafe = true)
    (h : raisable.all (fun k => cfg.caught.contains k) = true) : allCaught cfg := by
  refine ⟨hf, fun e => ?_⟩
  simp only [raisable, List.all_cons, List.all_nil, Bool.and_true, Bool.and_eq_true] at h
  intro hne
  cases e
  · exact h.1
  · exact h.2.1
  · exact h.2.2.1
  · exact h.2.2.2
  · exact absurd rfl hne

/-- **Failsafe never raises** — for EVERY document (any nesting, any number and kind of damaged positions) whose damaged
    positions raise documented kinds (`noOtherL`: the SPEC assumption `raisable` about the conversions of `datatypes` and the
    model constructors; the correspondence run reports a conversion that raises anything else as a broken tie): the JSON
    reader returns a result, namely the identifiables that can be read, each decoded on its own. -/
theorem c09_json_failsafe_total (items : List DWire) (hdoc : noOtherL items = true) :
    decTop Gen.Json.jsonTable (jsonCfg true) items = .ok (survivors Gen.Json.jsonTable (jsonCfg true) items) :=
  decTop_eq_survivors _ _ (allCaught_of _ rfl c09_json_catch_covers) items hdoc

theorem c09_xml_failsafe_total (items : List DWire) (hdoc : noOtherL items = true) :
    decTop Gen.Xml.xmlTable (xmlCfg true) items = .ok (survivors Gen.Xml.xmlTable (xmlCfg true) items) :=
  decTop_eq_survivors _ _ (allCaught_of _ rfl c09_xml_catch_covers) items hdoc

/-- The readers add no undocumented exception of their own: whatever leaves the reading of a document in which every
    damaged position raises a documented kind, is a documented kind — in failsafe AND in strict mode. -/
theorem c09_errors_documented (T : Table) (cfg : Cfg) (s : Bool) (ir : Bool × List EKind) (k : Kind) (w : DWire) (e : EKind)
    (hdoc : noOther w = true) (h : decD T cfg s ir k w = .error e) : e ≠ .other :=
  decD_err T cfg s ir k w e hdoc h

/-- … and the hypothesis is needed: an undocumented exception at a damaged position is caught by no handler and leaves
    even the failsafe reader (the model exhibits the escape that the oracle looks for). -/
theorem c09_undocumented_escapes :
    decTop Gen.Json.jsonTable (jsonCfg true) [.obj (some "Submodel") [("id", .bad .other)]] = .error .other := by
  rfl

/-- **Isolation**: what is returned for the other identifiables does not depend on a damaged one — the result of a
    document is the concatenation of the results of its items. -/
theorem c09_isolation (T : Table) (cfg : Cfg) (a b : List DWire) (x : DWire) :
    survivors T cfg (a ++ x :: b) = survivors T cfg a ++ survivors T cfg [x] ++ survivors T cfg b := by
  rw [survivors_append, show x :: b = [x] ++ b from rfl, survivors_append, List.append_assoc]

/-- An item that fails is dropped and nothing else changes. -/
theorem c09_damaged_dropped (T : Table) (cfg : Cfg) (a b : List DWire) (x : DWire) (e : EKind)
    (h : decD T cfg false (false, []) (.poly idKindsD) x = .error e) :
    survivors T cfg (a ++ x :: b) = survivors T cfg (a ++ b) := by
  rw [c09_isolation, survivors_append]
  simp [survivors, h]

/-- **Undamaged identifiables are returned unchanged**, in failsafe and in strict mode alike: for every conforming
    value, reading the (embedded) document the writer produced yields the value. -/
theorem c09_json_undamaged_unchanged (cfg : Cfg) (k : Kind) (v : Val) (h : ConfV Gen.Json.jsonTable k v)
    (hwf : wfTableB Gen.Json.jsonTable = true) (ir : Bool × List EKind) :
    decD Gen.Json.jsonTable cfg false ir k (embed (enc Gen.Json.jsonTable false v)) = .ok v := by
  apply decD_embed
  have := rt_val Gen.Json.jsonTable false false (wf_of_wfTableB _ hwf) k v h
  rwa [Bool.or_false, strip_false] at this

theorem c09_xml_undamaged_unchanged (cfg : Cfg) (k : Kind) (v : Val) (h : ConfV Gen.Xml.xmlTable k v)
    (hwf : wfTableB Gen.Xml.xmlTable = true) (ir : Bool × List EKind) :
    decD Gen.Xml.xmlTable cfg false ir k (embed (enc Gen.Xml.xmlTable false v)) = .ok v := by
  apply decD_embed
  have := rt_val Gen.Xml.xmlTable false false (wf_of_wfTableB _ hwf) k v h
  rwa [Bool.or_false, strip_false] at this

/-- **Strict refines failsafe**: whenever strict reading of a (possibly damaged) document succeeds, failsafe
    reading returns the same value; otherwise strict reading ends in one of the four documented exception kinds
    (`EKind`), by the type of `decD`. -/
theorem c09_strict_refines_failsafe (T : Table) (cfg : Cfg) (s : Bool) (ir : Bool × List EKind) (k : Kind) (w : DWire)
    (v : Val) (h : decD T (strictOf cfg) s ir k w = .ok v) : decD T cfg s ir k w = .ok v :=
  decD_strict_ok T cfg s ir k w v h

/-! non-vacuity: a document with two submodels, the first with a damaged id (ValueError), is read as the second -/
def good : DWire := .obj (some "Submodel") [("id", .tok "urn:b" false)]
def damaged : DWire := .obj (some "Submodel") [("id", .bad .value)]

example : survivors Gen.Json.jsonTable (jsonCfg true) [damaged, good] = survivors Gen.Json.jsonTable (jsonCfg true) [good] := by
  rfl
example : (survivors Gen.Json.jsonTable (jsonCfg true) [good]).length = 1 := by rfl

/-! ### Mode selection: `failsafe=` / `stripped=` reach the reader that has these modes

The theorems above are about a reader *configuration* `Cfg` with a `failsafe` flag.  Which configuration the file-level
functions (`read_aas_json_file[_into]`, `read_aas_xml_file[_into]`, `read_aas_xml_element`) run with is decided by
`_select_decoder(failsafe, stripped, decoder)`; its decision table and the class-level flags of the decoder classes are
regenerated from the source on every run (`Gen/Select.lean`). -/

/-- **Mode selection** (re-checked against `_select_decoder` / `_select_encoder` and the class bodies on every run): for every
    combination of the parameters a class is returned, and the class returned for (failsafe, stripped) has - by attribute lookup
    along its method resolution order - exactly `failsafe = failsafe` and `stripped = stripped`. -/
theorem c09_mode_selection : Select.selectOk = true ∧ Select.selectTotal = true := by decide

/-- ... stated for the single row: whatever `_select_decoder` returns for the arguments has the modes asked for -/
theorem c09_selected_has_mode {m : String} {f : Option Bool} {s : Bool} {c : String}
    (hm : (m, f, s, c) ∈ Gen.Select.select) :
    Select.flag false m c = some s ∧ ∀ b, f = some b → Select.flag true m c = some b := by
  have := (List.all_eq_true.1 c09_mode_selection.1) _ hm
  simp only [Bool.and_eq_true, beq_iff_eq] at this
  refine ⟨this.1, ?_⟩
  intro b hb; subst hb; simpa using this.2

example : ("xml-dec", some false, true, "StrictStrippedAASFromXmlDecoder") ∈ Gen.Select.select := by decide
example : Select.flag true "xml-dec" "StrictStrippedAASFromXmlDecoder" = some false ∧
    Select.flag false "xml-dec" "StrictStrippedAASFromXmlDecoder" = some true := by decide

end Basyx.C09
