/-
  C20 — Compliance checks always deliver a verdict, and the verdict tracks the data.
  Model: `Basyx/Model/Compliance.lean`.  Regenerated from the source on every run (`Basyx/Gen/Compliance.lean`): the phases of
  the check functions with the exception classes their `try` blocks catch, and the coverage table of `AASDataChecker`.
-/
import Basyx.Lemmas.Compliance
import Basyx.Lemmas.Keyed
import Basyx.Gen.Compliance
namespace Basyx.C20
open Basyx.Compliance Basyx.Codec Basyx.Keyed

/-- **Overall status = worst step status** (order of the `Status` IntEnum), for every list of steps: no step is
    worse than the overall status, and the overall status is the status of some step (or SUCCESS for no steps). -/
theorem c20_status_worst (steps : List Status) :
    (∀ s ∈ steps, s.rank ≤ (overall steps).rank) ∧
    (steps = [] → overall steps = .success) ∧
    (steps ≠ [] → overall steps ∈ steps ∨ overall steps = .success) :=
  ⟨overall_ge steps, fun h => by subst h; rfl, overall_mem steps⟩

/-- **Catch coverage of the check functions** (re-checked against the source on every run): at every external call that
    depends on the input file, every exception the call can raise on an arbitrary input is caught by an enclosing `try`. -/
theorem c20_calls_covered :
    Gen.Compliance.scripts.all (fun s => s.2.all (fun p => p.raisable.all (fun e => catches p.caught e))) = true := by decide

private theorem covered_of (name : String) (ps : List Phase) (h : (name, ps) ∈ Gen.Compliance.scripts) : Covered ps := by
  have := c20_calls_covered
  simp only [List.all_eq_true] at this
  intro p hp e he
  exact this (name, ps) h p hp e he

/-- **A report, never an exception** — for every check function, every input file (i.e. every possible outcome of each
    external call) yields a complete step list: one entry per phase, the phase that failed marked FAILED and the ones
    after it NOT_EXECUTED. -/
theorem c20_report_total (name : String) (ps : List Phase) (h : (name, ps) ∈ Gen.Compliance.scripts)
    (os : List Outcome) (hk : Consistent ps os) : ∃ r, runScript ps os = .ok r ∧ r.length = ps.length :=
  runScript_total ps os (covered_of name ps h) hk

/-- **Coverage of the data checker** (re-checked on every run): every metamodel attribute of every class is compared
    with the expected object's — by `==` or by a recursive comparison of the children. -/
theorem c20_cover_complete : complete Gen.Compliance.cover = true := by decide

/-- **The verdict tracks the data**: if the comparison of two values (of any class, depth and width) passes, the values
    are identical — so two files that differ in the value of any single attribute at any depth fail the comparison. -/
theorem c20_detects (v w : Val) (h : checkEq Gen.Compliance.cover v w = true) : v = w :=
  checkEq_sound Gen.Compliance.cover c20_cover_complete v w h

theorem c20_differs_fails (v w : Val) (h : v ≠ w) : checkEq Gen.Compliance.cover v w = false := by
  cases hc : checkEq Gen.Compliance.cover v w
  · rfl
  · exact absurd (c20_detects v w hc) h

/-- leaves compare equal to themselves (the converse direction at leaf level; for objects it needs the fields to be
    aligned with the table, which the correspondence run establishes) -/
theorem c20_equal_leaf_passes (s : String) (f : Bool) : checkEq Gen.Compliance.cover (.tok s f) (.tok s f) = true := by
  simp [checkEq, beqVal]

/-- **No false failure**: a value whose objects carry exactly the attributes of the coverage table (what the harness
    produces from real objects; the correspondence run confirms it on every generated pair) compares equal to itself. -/
theorem c20_identical_pass (v : Val) (h : shaped Gen.Compliance.cover v = true) : checkEq Gen.Compliance.cover v v = true :=
  checkEq_refl Gen.Compliance.cover v h

/-- **The verdict is exactly equality of the data** on such values. -/
theorem c20_verdict_iff (v w : Val) (h : shaped Gen.Compliance.cover v = true) :
    checkEq Gen.Compliance.cover v w = true ↔ v = w :=
  ⟨c20_detects v w, fun e => e ▸ c20_identical_pass v h⟩

/-! ### collections without order: members matched by their key (`Basyx/Model/Keyed.lean`)

Qualifiers (by `type`), extensions (by `name`), the members of submodels, collections, entities and annotated
relationships (by `id_short`) and the identifiables of the two files (by `id`) are matched by key, not by position.  That
keys are unique inside one collection is property C01's invariant (namespace sets) resp. C13's (object stores). -/

/-- **In whatever element order**: rearranging the members of either collection — in either file — never changes the
    verdict, whatever the member comparison is and whatever the two collections hold. -/
theorem c20_element_order_irrelevant {κ α : Type} [DecidableEq κ] (lenCheck : Bool) (cmp : α → α → Bool)
    {act act' exp exp' : List (κ × α)} (ha : act.Perm act') (he : exp.Perm exp') (hn : (keys act).Nodup) :
    checkKeyed lenCheck cmp act exp = checkKeyed lenCheck cmp act' exp' :=
  checkKeyed_perm lenCheck cmp ha he hn

/-- what a passing keyed comparison establishes: every expected member is present under its key and compares equal,
    and the checked collection has no member under a key the expected one lacks -/
theorem c20_keyed_pass_means {κ α : Type} [DecidableEq κ] (lenCheck : Bool) (cmp : α → α → Bool) (act exp : List (κ × α))
    (hn : (keys act).Nodup) :
    checkKeyed lenCheck cmp act exp = true ↔
      (lenCheck = true → act.length = exp.length) ∧
      (∀ e ∈ exp, ∃ a, (e.1, a) ∈ act ∧ cmp a e.2 = true) ∧
      (∀ a ∈ act, a.1 ∈ keys exp) :=
  checkKeyed_iff lenCheck cmp act exp hn

/-- **Same data in any order passes, anything else fails**: with the member comparison of the coverage model, two keyed
    collections of any size compare equal iff one is a rearrangement of the other — a missing member, an extra member,
    a member filed under another key or a member that differs in any attribute at any depth fails the comparison. -/
theorem c20_unordered_verdict (lenCheck : Bool) (act exp : List (String × Val))
    (hna : (keys act).Nodup) (hne : (keys exp).Nodup) (hsh : ∀ e ∈ exp, shaped Gen.Compliance.cover e.2 = true) :
    checkKeyed lenCheck (checkEq Gen.Compliance.cover) act exp = true ↔ act.Perm exp :=
  checkKeyed_true_iff_perm lenCheck _ act exp hna hne (c20_detects) (fun e he => c20_identical_pass e.2 (hsh e he))

/-- the hypothesis "keys unique in the checked collection" is needed: with two members under one key the first one
    shadows the second, and the verdict depends on the order (kernel-checked witness; real namespace sets and stores
    cannot hold such a collection — C01, C13) -/
theorem c20_duplicate_keys_order_matters :
    checkKeyed false (fun (a b : Nat) => a == b) [("k", 1), ("k", 2)] [("k", 1)] = true ∧
    checkKeyed false (fun (a b : Nat) => a == b) [("k", 2), ("k", 1)] [("k", 1)] = false := by decide

/-- **Known finding, kernel-checked witness** (`checker:eds-shared-reference`): embedded data specifications are matched by
    their `data_specification` reference, which the metamodel does NOT make unique inside one list.  With two members under
    one key, a collection does not even compare equal to ITSELF (the second expected member is compared with the first given
    one), while a collection that differs passes - the full statement `c20_unordered_verdict` needs `keys … Nodup`, and for
    this one attribute the code does not have it. -/
theorem c20_shared_key_identical_fails_differing_passes :
    checkKeyed true (fun (a b : Nat) => a == b) [("urn:d", 1), ("urn:d", 2)] [("urn:d", 1), ("urn:d", 2)] = false ∧
    checkKeyed true (fun (a b : Nat) => a == b) [("urn:d", 1), ("urn:d", 2)] [("urn:d", 1), ("urn:d", 1)] = true := by decide

/-! non-vacuity -/
example : shaped Gen.Compliance.cover (.node "Resource" [.tok "p" false, .tok "image/png" false]) = true := by decide
example : overall [.success, .failed, .success] = .failed := by decide
example : checkKeyed true (checkEq Gen.Compliance.cover) [("a", .tok "1" false), ("b", .tok "2" false)] [("b", .tok "2" false), ("a", .tok "1" false)] = true := by decide
example : (keys [("a", Val.tok "1" false), ("b", .tok "2" false)]).Nodup := by decide
example : runScript [⟨"open", "open", ["IOError"], ["IOError"], false⟩, ⟨"read", "json.load", ["JSONDecodeError"], ["JSONDecodeError"], false⟩]
    [.ok false, .raises "JSONDecodeError"] = .ok [("open", .success), ("read", .failed)] := by rfl

end Basyx.C20
