import Basyx.Model.FileStore
namespace Basyx.FileStore
theorem c14_placeholder : True := trivial
end Basyx.FileStore
