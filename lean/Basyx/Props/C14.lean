/-
  C14 — Local-file store persists, refreshes and shares objects coherently.
  Model: `Basyx/Model/FileStore.lean`, part A (sequential world: directory, heap, one weak cache per store instance)
  and part C (two threads of one instance at the lock/cache yield points).  Helper lemmas and the representation
  invariant `Inv` are in `Basyx/Lemmas/FileStore.lean`.

  Shape of the sequential claim: refinement.  Every concrete call is mapped to an abstract event (what was asked of
  the store and what the caller saw, object identities erased, contents read off the returned objects) and the
  sequence of events of EVERY history is a run of the abstract map `Id → Option Ver`.  Identity is a separate
  invariant (`Pinned`) over histories.
-/
import Basyx.Model.FileStore
import Basyx.Lemmas.FileStore
import Basyx.Gen.Backends
namespace Basyx.FileStore

/-! ## The specification: a persistent map from identifier to document -/

abbrev M := Id → Option Ver
def upd (m : M) (i : Id) (v : Option Ver) : M := fun j => if j = i then v else m j
def abs (w : W) : M := fun i => AList.get i w.disk

/-- `l` enumerates the map: every stored document exactly once -/
def Enumerates (l : List (Id × Ver)) (m : M) : Prop :=
  (AList.keys l).Nodup ∧ ∀ i v, (i, v) ∈ l ↔ m i = some v

/-- What a call asked of the store and what the caller saw, with object identities erased:
    contents are those of the returned / refreshed objects *after* the call. -/
inductive Ev where
  | add (i : Id) (v : Ver) (ok : Bool)       -- add of an object with id i and content v; ok = false: KeyError
  | commit (i : Id) (v : Ver)                -- commit of a stored object
  | read (i : Id) (res : Option Ver)         -- retrieval: content of the returned object; none: KeyError
  | refresh (i : Id) (res : Option Ver)      -- update() of a stored object: its content afterwards; none: document gone
  | discard (i : Id) (ok : Bool)
  | contains (i : Id) (b : Bool)
  | len (n : Nat)
  | iter (l : List (Id × Ver))               -- identifiers and contents of the objects iteration yielded
  | internal                                 -- nothing asked of the store (object construction, local edit, drop, gc, …)
  | failed                                   -- an outcome the specification has no room for
deriving Repr, DecidableEq

/-- The reference behaviour of a persistent map (one step). -/
inductive SpecRel : M → Ev → M → Prop
  | addOk (m i v) : m i = none → SpecRel m (.add i v true) (upd m i (some v))
  | addDup (m i v) : m i ≠ none → SpecRel m (.add i v false) m
  | commit (m i v) : SpecRel m (.commit i v) (upd m i (some v))
  | read (m i) : SpecRel m (.read i (m i)) m
  | refresh (m i) : SpecRel m (.refresh i (m i)) m
  | discardOk (m i) : m i ≠ none → SpecRel m (.discard i true) (upd m i none)
  | discardMissing (m i) : m i = none → SpecRel m (.discard i false) m
  | contains (m i) : SpecRel m (.contains i (m i).isSome) m
  | len (m l) : Enumerates l m → SpecRel m (.len l.length) m
  | iter (m l) : Enumerates l m → SpecRel m (.iter l) m
  | internal (m) : SpecRel m .internal m

inductive SpecRuns : M → List Ev → Prop
  | nil (m) : SpecRuns m []
  | cons (m e m' es) : SpecRel m e m' → SpecRuns m' es → SpecRuns m (e :: es)

def verOf (w : W) (r : Ref) : Option Ver := (w.heap[r]?).map (·.ver)

/-- The abstract event of one concrete call, read off its arguments, its output and the post-state. -/
def event (w : W) (op : Op) : Ev :=
  let w' := (step w op).1
  match op, (step w op).2 with
  | .add _ r, .unit => match w.heap[r]? with | some x => .add x.id x.ver true | none => .failed
  | .add _ r, .keyError => match w.heap[r]? with | some x => .add x.id x.ver false | none => .failed
  | .get _ i, .obj r => .read i (verOf w' r)
  | .get _ i, .keyError => .read i none
  | .discard _ r, .unit => match w.heap[r]? with | some x => .discard x.id true | none => .failed
  | .discard _ r, .keyError => match w.heap[r]? with | some x => .discard x.id false | none => .failed
  | .commit r, .unit => match w.heap[r]? with
    | some x => if x.bound then .commit x.id x.ver else .internal
    | none => .failed
  | .update r, .unit => match w.heap[r]? with
    | some x => if x.bound then .refresh x.id (verOf w' r) else .internal
    | none => .failed
  | .update r, .fileNotFound => match w.heap[r]? with | some x => .refresh x.id none | none => .failed
  | .containsId _ i, .bool b => .contains i b
  | .containsObj _ r, .bool b => match w.heap[r]? with | some x => .contains x.id b | none => .failed
  | .len _, .nat n => .len n
  | .iter _, .objs rs => .iter (rs.filterMap (pairOf w'))
  | .new _ _, .obj _ => .internal
  | .setver _ _, .unit => .internal
  | .drop _, .unit => .internal
  | .gc, .unit => .internal
  | _, .badRef => .internal      -- the caller named an object it does not hold: not a call (no state change)
  | _, _ => .failed

def trace (w : W) : List Op → List Ev
  | [] => []
  | op :: r => event w op :: trace (step w op).1 r


private theorem abs_set (w : W) (i : Id) (v : Ver) : (fun j => AList.get j (AList.set i v w.disk)) = upd (abs w) i (some v) := by
  funext j
  by_cases h : j = i
  · subst h; simp [upd]
  · simp [abs, upd, h, AList.get_set_other _ _ h]

private theorem abs_erase (w : W) (hI : Inv w) (i : Id) :
    (fun j => AList.get j (AList.erase i w.disk)) = upd (abs w) i none := by
  funext j
  by_cases h : j = i
  · subst h; simp [upd, AList.get_erase_same_of_nodup hI.diskNodup]
  · simp [abs, upd, h, AList.get_erase_other _ h]

private theorem get_of_mem {l : List (Id × Ver)} (hn : (AList.keys l).Nodup) {i : Id} {u : Ver} (he : (i, u) ∈ l) :
    AList.get i l = some u := by
  induction l with
  | nil => cases he
  | cons hd t ih =>
    obtain ⟨k, v⟩ := hd
    have hn' : k ∉ AList.keys t ∧ (AList.keys t).Nodup := by
      simpa [AList.keys, List.nodup_cons] using hn
    rcases List.mem_cons.1 he with h | he'
    · cases h; simp [AList.get]
    · have hk : k ≠ i := by
        intro h; apply hn'.1; rw [h]; exact AList.mem_keys_of_get (ih hn'.2 he')
      simp [AList.get, hk, ih hn'.2 he']

private theorem mem_of_get {l : List (Id × Ver)} {i : Id} {u : Ver} (h : AList.get i l = some u) : (i, u) ∈ l := by
  induction l with
  | nil => simp [AList.get] at h
  | cons hd t ih =>
    obtain ⟨k, v⟩ := hd
    by_cases hk : k = i
    · simp [AList.get, hk] at h; simp [hk, h]
    · simp [AList.get, hk] at h; exact List.mem_cons_of_mem _ (ih h)

private theorem enumerates_disk (w : W) (hI : Inv w) : Enumerates w.disk (abs w) :=
  ⟨hI.diskNodup, fun _ _ => ⟨fun h => get_of_mem hI.diskNodup h, fun h => mem_of_get h⟩⟩

private theorem iter_post (w : W) (k : Nat) (hI : Inv w) :
    ∃ w' rs, iter w k = (w', .objs rs) ∧ w'.disk = w.disk ∧ Inv w' ∧ rs.filterMap (pairOf w') = w.disk ∧
      (∀ k0 i0 r0, Pinned w k0 i0 r0 → Pinned w' k0 i0 r0) := by
  have hall : ∀ i ∈ AList.keys w.disk, (AList.get i w.disk).isSome := fun i hi => AList.get_isSome_iff_mem_keys.2 hi
  obtain ⟨w', rs, hit, hd, hI', ha, _, hp⟩ := iterIds_post k (AList.keys w.disk) w hI hall
  refine ⟨w', rs, by simp [iter, hit], hd, hI', ?_, hp⟩
  rw [allHold_pairs ha, hd]
  exact keys_pairs_self w.disk hI.diskNodup

/-- **The representation invariant holds in every reachable state.** -/
theorem c14_inv_step (w : W) (op : Op) (hI : Inv w) : Inv (step w op).1 := by
  cases op with
  | new i v => exact inv_alloc _ hI
  | setver r v =>
    simp only [step]
    cases h : liveObj w r with
    | none => exact hI
    | some o => exact inv_modObj hI (liveObj_some h).1 rfl
  | drop r =>
    simp only [step]
    cases h : liveObj w r with
    | none => exact hI
    | some o => exact inv_modObj hI (liveObj_some h).1 rfl
  | gc => exact inv_gc hI
  | add k r =>
    simp only [step, add]
    cases h : liveObj w r with
    | none => exact hI
    | some o =>
      simp only []
      split
      · exact hI
      · have h1 : Inv { w with disk := AList.set o.id o.ver w.disk } := inv_disk hI (AList.nodup_keys_set hI.diskNodup)
        have ho : ({ w with disk := AList.set o.id o.ver w.disk } : W).heap[r]? = some o := (liveObj_some h).1
        have h2 := inv_modObj (o' := { o with bound := true }) h1 ho rfl
        have ho2 : (modObj { w with disk := AList.set o.id o.ver w.disk } r { o with bound := true }).heap[r]? =
            some { o with bound := true } := by rw [heap_modObj_get _ r r o _ ho]; simp
        exact inv_cache_set (k := k) h2 ho2 rfl
  | get k i => exact (get_post w k i hI).inv
  | discard k r =>
    simp only [step, discard]
    cases h : liveObj w r with
    | none => exact hI
    | some o =>
      simp only []
      split
      · have h1 : Inv { w with disk := AList.erase o.id w.disk } := inv_disk hI (AList.nodup_keys_erase hI.diskNodup)
        have ho : ({ w with disk := AList.erase o.id w.disk } : W).heap[r]? = some o := (liveObj_some h).1
        have h2 := inv_modObj (o' := { o with bound := false }) h1 ho rfl
        exact inv_cache_erase (k := k) (i := o.id) h2
      · exact hI
  | commit r =>
    simp only [step, commit]
    cases h : liveObj w r with
    | none => exact hI
    | some o =>
      simp only []
      split
      · exact inv_disk hI (AList.nodup_keys_set hI.diskNodup)
      · exact hI
  | update r =>
    simp only [step, update]
    cases h : liveObj w r with
    | none => exact hI
    | some o =>
      simp only []
      split
      · split
        · exact hI
        · exact inv_modObj hI (liveObj_some h).1 rfl
      · exact hI
  | containsId k i => exact hI
  | containsObj k r => simp only [step]; split <;> exact hI
  | len k => exact hI
  | iter k =>
    obtain ⟨w', rs, hit, _, hI', _, _⟩ := iter_post w k hI
    simp only [step, hit]; exact hI'


/-- **One call of any store instance = one step of the persistent map.**  (`abs` looks at the directory only,
    so the claim is about every instance, whatever its cache holds, including instances never used before.) -/
theorem c14_step_refines (w : W) (op : Op) (hI : Inv w) : SpecRel (abs w) (event w op) (abs (step w op).1) := by
  cases op with
  | new i v => exact SpecRel.internal _
  | setver r v =>
    simp only [event, step]
    cases h : liveObj w r <;> exact SpecRel.internal _
  | drop r =>
    simp only [event, step]
    cases h : liveObj w r <;> exact SpecRel.internal _
  | gc => exact SpecRel.internal _
  | add k r =>
    simp only [event, step, add]
    cases h : liveObj w r with
    | none => exact SpecRel.internal _
    | some o =>
      have ho := (liveObj_some h).1
      simp only []
      cases hd : AList.has o.id w.disk with
      | true =>
        simp only [if_true, ho]
        refine SpecRel.addDup _ _ _ ?_
        simp only [AList.has, Option.isSome_iff_ne_none] at hd; exact hd
      | false =>
        simp only [Bool.false_eq_true, if_false, ho]
        have : abs w o.id = none := by simpa [AList.has, abs] using hd
        show SpecRel (abs w) _ (fun j => AList.get j (AList.set o.id o.ver w.disk))
        rw [abs_set w o.id o.ver]
        exact SpecRel.addOk (abs w) o.id o.ver this
  | get k i =>
    have P := get_post w k i hI
    simp only [event, step]
    cases hv : AList.get i w.disk with
    | none =>
      obtain ⟨h1, h2⟩ := P.miss hv
      rw [h2, h1]
      have : (none : Option Ver) = abs w i := by simp [abs, hv]
      rw [this]; exact SpecRel.read _ _
    | some v =>
      obtain ⟨r, o, hout, ho, _, hver, _, _, _⟩ := P.hit v hv
      rw [hout]
      simp only [verOf, ho, Option.map_some, hver]
      have : some v = abs w i := by simp [abs, hv]
      have hd : abs (get w k i).1 = abs w := by funext j; simp [abs, P.disk]
      rw [this, hd]; exact SpecRel.read _ _
  | discard k r =>
    simp only [event, step, discard]
    cases h : liveObj w r with
    | none => exact SpecRel.internal _
    | some o =>
      have ho := (liveObj_some h).1
      simp only []
      cases hd : AList.has o.id w.disk with
      | true =>
        simp only [if_true, ho]
        show SpecRel (abs w) _ (fun j => AList.get j (AList.erase o.id w.disk))
        rw [abs_erase w hI o.id]
        refine SpecRel.discardOk (abs w) o.id ?_
        simp only [AList.has, Option.isSome_iff_ne_none] at hd; exact hd
      | false =>
        simp only [Bool.false_eq_true, if_false, ho]
        exact SpecRel.discardMissing _ _ (by simpa [AList.has, abs] using hd)
  | commit r =>
    simp only [event, step, commit]
    cases h : liveObj w r with
    | none => exact SpecRel.internal _
    | some o =>
      have ho := (liveObj_some h).1
      simp only []
      cases hb : o.bound with
      | true =>
        simp only [if_true, ho, hb]
        show SpecRel (abs w) _ (fun j => AList.get j (AList.set o.id o.ver w.disk))
        rw [abs_set w o.id o.ver]
        exact SpecRel.commit (abs w) o.id o.ver
      | false => simp only [Bool.false_eq_true, if_false, ho, hb]; exact SpecRel.internal _
  | update r =>
    simp only [event, step, update]
    cases h : liveObj w r with
    | none => exact SpecRel.internal _
    | some o =>
      have ho := (liveObj_some h).1
      simp only []
      cases hb : o.bound with
      | false => simp only [Bool.false_eq_true, if_false, ho, hb]; exact SpecRel.internal _
      | true =>
        simp only [if_true]
        cases hv : AList.get o.id w.disk with
        | none =>
          simp only [ho]
          have : (none : Option Ver) = abs w o.id := by simp [abs, hv]
          rw [this]; exact SpecRel.refresh _ _
        | some v =>
          simp only [ho, hb, if_true, verOf]
          have hh : ∀ o' : Obj, (w.heap.set r o')[r]? = some o' := by
            intro o'
            have := heap_modObj_get w r r o o' ho
            simpa [modObj] using this
          rw [hh]
          show SpecRel (abs w) _ (abs w)
          have : some v = abs w o.id := by simp [abs, hv]
          simp only [Option.map_some]
          rw [this]; exact SpecRel.refresh _ _
  | containsId k i => exact SpecRel.contains _ _
  | containsObj k r =>
    simp only [event, step]
    cases h : liveObj w r with
    | none => exact SpecRel.internal _
    | some o =>
      have ho := (liveObj_some h).1
      simp only [ho]; exact SpecRel.contains _ _
  | len k => exact SpecRel.len _ _ (enumerates_disk w hI)
  | iter k =>
    obtain ⟨w', rs, hit, hd, _, hp, _⟩ := iter_post w k hI
    simp only [event, step, hit, hp]
    have : abs w' = abs w := by funext j; simp [abs, hd]
    rw [this]; exact SpecRel.iter _ _ (enumerates_disk w hI)

/-- **Refinement, all histories.**  Every finite sequence of calls — add, commit, update, retrieval, discard, membership,
    length, iteration, interleaved with object construction, local edits, dropped references and garbage collections,
    through any number of store instances — is a run of the persistent map: what was added or last committed is what any
    instance reads back; duplicates are rejected; missing identifiers raise KeyError; update() delivers the stored content. -/
theorem c14_refines_persistent_map (ops : List Op) : SpecRuns (fun _ => none) (trace init ops) := by
  suffices h : ∀ w, Inv w → SpecRuns (abs w) (trace w ops) by
    have := h init inv_init
    have e : abs init = fun _ => none := by funext i; rfl
    rw [e] at this; exact this
  induction ops with
  | nil => intro w _; exact SpecRuns.nil _
  | cons op r ih =>
    intro w hI
    exact SpecRuns.cons _ _ _ _ (c14_step_refines w op hI) (ih _ (c14_inv_step w op hI))


/-- The specification really is a map: a successful add or a commit makes the identifier hold exactly that content, a
    successful discard empties it, every other identifier and every other kind of call leaves the map alone, and
    retrievals report precisely the map's value. -/
theorem c14_spec_is_a_map (m m' : M) (e : Ev) (h : SpecRel m e m') :
    (∀ i v, e = .add i v true → m i = none ∧ m' = upd m i (some v)) ∧
    (∀ i v, e = .add i v false → m i ≠ none ∧ m' = m) ∧
    (∀ i v, e = .commit i v → m' = upd m i (some v)) ∧
    (∀ i res, e = .read i res → res = m i ∧ m' = m) ∧
    (∀ i res, e = .refresh i res → res = m i ∧ m' = m) ∧
    (∀ i, e = .discard i true → m i ≠ none ∧ m' = upd m i none) ∧
    (∀ i, e = .discard i false → m i = none ∧ m' = m) ∧
    (∀ i b, e = .contains i b → b = (m i).isSome ∧ m' = m) ∧
    e ≠ .failed := by
  cases h <;> simp_all

/-! ### Identity of live replicas -/

private theorem pinned_modObj {w : W} {k0 : Nat} {i0 : Id} {r0 r : Ref} {o o' : Obj} (hp : Pinned w k0 i0 r0)
    (h : w.heap[r]? = some o) (hid : o'.id = o.id) (hkeep : r = r0 → o'.bound = o.bound ∧ o'.live = o.live) :
    Pinned (modObj w r o') k0 i0 r0 := by
  obtain ⟨hc, ⟨x, hx, hxi, hxb, hxl⟩, hd⟩ := hp
  refine ⟨hc, ?_, hd⟩
  rw [heap_modObj_get w r r0 o o' h]
  by_cases e : r0 = r
  · subst e; rw [hx] at h; injection h with h; subst h
    obtain ⟨h1, h2⟩ := hkeep rfl
    exact ⟨o', by simp, by rw [hid, hxi], by rw [h1, hxb], by rw [h2, hxl]⟩
  · exact ⟨x, by simp [e, hx], hxi, hxb, hxl⟩

private theorem pinned_disk {w : W} {k0 : Nat} {i0 : Id} {r0 : Ref} (d : List (Id × Ver)) (hp : Pinned w k0 i0 r0)
    (hd : (AList.get i0 d).isSome) : Pinned { w with disk := d } k0 i0 r0 :=
  ⟨hp.1, hp.2.1, hd⟩

private theorem pinned_modCache {w : W} {k0 : Nat} {i0 : Id} {r0 : Ref} (k : Nat) (c : List (Id × Ref)) (hp : Pinned w k0 i0 r0)
    (hc : k = k0 → AList.get i0 c = some r0) : Pinned (modCache w k c) k0 i0 r0 := by
  refine ⟨?_, hp.2.1, hp.2.2⟩
  by_cases e : k0 = k
  · subst e; rw [cacheOf_modCache_same]; exact hc rfl
  · rw [cacheOf_modCache_other _ _ e]; exact hp.1

/-- the calls that end the life of replica `r` of identifier `i`: the application drops it, or the identifier is
    discarded (through any instance) -/
def touches (w : W) (i : Id) (r : Ref) : Op → Bool
  | .drop r' => r' == r
  | .discard _ x => match w.heap[x]? with
    | some o => o.id == i
    | none => false
  | _ => false

private theorem pinned_step (w : W) (op : Op) (k0 : Nat) (i0 : Id) (r0 : Ref) (hI : Inv w) (hp : Pinned w k0 i0 r0)
    (hq : touches w i0 r0 op = false) : Pinned (step w op).1 k0 i0 r0 := by
  have hp' := hp
  obtain ⟨hc, ⟨x, hx, hxi, hxb, hxl⟩, hd⟩ := hp'
  cases op with
  | new i v =>
    exact ⟨hc, ⟨x, heap_alloc_get w _ r0 x hx, hxi, hxb, hxl⟩, hd⟩
  | setver r v =>
    simp only [step]
    cases h : liveObj w r with
    | none => exact hp
    | some o => exact pinned_modObj hp (liveObj_some h).1 rfl (fun _ => ⟨rfl, rfl⟩)
  | drop r =>
    simp only [step]
    cases h : liveObj w r with
    | none => exact hp
    | some o =>
      refine pinned_modObj hp (liveObj_some h).1 rfl (fun e => ?_)
      simp [touches, e] at hq
  | gc =>
    refine ⟨?_, ⟨x, hx, hxi, hxb, hxl⟩, hd⟩
    show AList.get i0 (cacheOf (gc w) k0) = some r0
    rw [cacheOf_gc]
    refine get_filter_of_nodup _ (hI.cacheNodup k0) hc ?_
    simp [isLive, liveObj, hx, hxl]
  | add k r =>
    simp only [step, add]
    cases h : liveObj w r with
    | none => exact hp
    | some o =>
      have ho := (liveObj_some h).1
      simp only []
      cases hh : AList.has o.id w.disk with
      | true => simpa using hp
      | false =>
        simp only [Bool.false_eq_true, if_false]
        have hne : i0 ≠ o.id := by
          intro e; rw [← e] at hh; simp [AList.has] at hh; rw [hh] at hd; cases hd
        have h1 : Pinned { w with disk := AList.set o.id o.ver w.disk } k0 i0 r0 :=
          pinned_disk _ hp (by rw [AList.get_set_other _ _ hne]; exact hd)
        have ho1 : ({ w with disk := AList.set o.id o.ver w.disk } : W).heap[r]? = some o := ho
        have h2 := pinned_modObj (o' := { o with bound := true }) h1 ho1 rfl (by
          intro e; subst e; rw [hx] at ho; injection ho with ho; subst ho; exact ⟨hxb.symm, rfl⟩)
        refine pinned_modCache k _ h2 ?_
        intro e; subst e
        show AList.get i0 (AList.set o.id r (cacheOf w k)) = some r0
        rw [AList.get_set_other _ _ hne]; exact hc
  | get k i => exact get_pinned k i hI hp
  | discard k r =>
    simp only [step, discard]
    cases h : liveObj w r with
    | none => exact hp
    | some o =>
      have ho := (liveObj_some h).1
      have hne : i0 ≠ o.id := by
        intro e; simp [touches, ho, e] at hq
      simp only []
      cases hh : AList.has o.id w.disk with
      | false => simpa using hp
      | true =>
        simp only [if_true]
        have h1 : Pinned { w with disk := AList.erase o.id w.disk } k0 i0 r0 :=
          pinned_disk _ hp (by rw [AList.get_erase_other _ hne]; exact hd)
        have ho1 : ({ w with disk := AList.erase o.id w.disk } : W).heap[r]? = some o := ho
        have h2 := pinned_modObj (o' := { o with bound := false }) h1 ho1 rfl (by
          intro e; subst e; rw [hx] at ho; injection ho with ho; subst ho; exact absurd hxi.symm hne)
        refine pinned_modCache k _ h2 ?_
        intro e; subst e
        show AList.get i0 (AList.erase o.id (cacheOf w k)) = some r0
        rw [AList.get_erase_other _ hne]; exact hc
  | commit r =>
    simp only [step, commit]
    cases h : liveObj w r with
    | none => exact hp
    | some o =>
      simp only []
      split
      · refine pinned_disk _ hp ?_
        by_cases e : i0 = o.id
        · rw [e]; simp
        · rw [AList.get_set_other _ _ e]; exact hd
      · exact hp
  | update r =>
    simp only [step, update]
    cases h : liveObj w r with
    | none => exact hp
    | some o =>
      simp only []
      split
      · split
        · exact hp
        · exact pinned_modObj hp (liveObj_some h).1 rfl (fun _ => ⟨rfl, rfl⟩)
      · exact hp
  | containsId k i => exact hp
  | containsObj k r => simp only [step]; split <;> exact hp
  | len k => exact hp
  | iter k =>
    obtain ⟨w', rs, hit, _, _, _, hpin⟩ := iter_post w k hI
    simp only [step, hit]; exact hpin _ _ _ hp

/-- no call of the history ends the life of replica `r` of identifier `i` -/
def Quiet (i : Id) (r : Ref) : W → List Op → Prop
  | _, [] => True
  | w, op :: rest => touches w i r op = false ∧ Quiet i r (step w op).1 rest

/-- the invariant holds after every history -/
theorem c14_inv_reachable (w : W) (ops : List Op) (hI : Inv w) : Inv (run w ops) := by
  induction ops generalizing w with
  | nil => exact hI
  | cons op r ih => exact ih _ (c14_inv_step w op hI)

private theorem pinned_run (w : W) (ops : List Op) (k0 : Nat) (i0 : Id) (r0 : Ref) (hI : Inv w) (hp : Pinned w k0 i0 r0)
    (hq : Quiet i0 r0 w ops) : Pinned (run w ops) k0 i0 r0 := by
  induction ops generalizing w with
  | nil => exact hp
  | cons op r ih => exact ih _ (c14_inv_step w op hI) (pinned_step w op k0 i0 r0 hI hp hq.1) hq.2

/-- a successful retrieval pins the returned object -/
private theorem pinned_of_get (w : W) (k : Nat) (i : Id) (r : Ref) (hI : Inv w) (h : (get w k i).2 = .obj r) :
    Pinned (get w k i).1 k i r := by
  have P := get_post w k i hI
  cases hv : AList.get i w.disk with
  | none => rw [(P.miss hv).2] at h; cases h
  | some v =>
    obtain ⟨r', o, hout, ho, hid, _, hb, hl, hc⟩ := P.hit v hv
    rw [hout] at h; injection h with h; subst h
    exact ⟨hc, ⟨o, ho, hid, hb, hl⟩, by rw [P.disk, hv]; rfl⟩

/-- **Same object, refreshed.**  Once instance `k` has returned object `r` for identifier `i`, then after ANY further
    history — through this and other instances, with local edits, commits by others, garbage collections — in which the
    application does not drop `r` and nobody discards `i`, retrieving `i` through `k` returns that same object `r`
    (never a second copy), and `r` then holds the stored content. -/
theorem c14_same_object (w : W) (k : Nat) (i : Id) (r : Ref) (ops : List Op) (hI : Inv w)
    (hget : (step w (.get k i)).2 = .obj r) (hq : Quiet i r (step w (.get k i)).1 ops) :
    let w2 := run (step w (.get k i)).1 ops
    (step w2 (.get k i)).2 = .obj r ∧
    ∃ o, (step w2 (.get k i)).1.heap[r]? = some o ∧ o.id = i ∧ abs w2 i = some o.ver := by
  intro w2
  have hI1 : Inv (step w (.get k i)).1 := c14_inv_step w _ hI
  have hI2 : Inv w2 := c14_inv_reachable _ ops hI1
  have hp2 : Pinned w2 k i r := pinned_run _ ops k i r hI1 (pinned_of_get w k i r hI hget) hq
  have P := get_post w2 k i hI2
  obtain ⟨hc, ⟨x, hx, hxi, hxb, hxl⟩, hd⟩ := hp2
  have hout := P.same r hc ⟨x, hx, hxb⟩ hd
  refine ⟨hout, ?_⟩
  cases hv : AList.get i w2.disk with
  | none => rw [hv] at hd; cases hd
  | some v =>
    obtain ⟨r', o, hout', ho, hid, hver, _, _, _⟩ := P.hit v hv
    have : (get w2 k i).2 = .obj r := hout
    rw [hout'] at this; injection this with this; subst this
    exact ⟨o, ho, hid, by simp [abs, hv, hver]⟩


/-! ### Corollaries in the words of the property -/

/-- **Any instance reads back the stored document** — whatever its cache holds, also an instance never used before
    (`k` beyond every instance used so far): an object with that identifier and the stored content; `KeyError` (and no
    change at all) when there is no document. -/
theorem c14_read_back_any_instance (w : W) (k : Nat) (i : Id) (hI : Inv w) :
    match abs w i with
    | some v => ∃ r o, (step w (.get k i)).2 = .obj r ∧ (step w (.get k i)).1.heap[r]? = some o ∧ o.id = i ∧ o.ver = v
    | none => step w (.get k i) = (w, .keyError) := by
  have P := get_post w k i hI
  cases hv : AList.get i w.disk with
  | none =>
    have : abs w i = none := hv
    rw [this]
    obtain ⟨h1, h2⟩ := P.miss hv
    exact Prod.ext h1 h2
  | some v =>
    have : abs w i = some v := hv
    rw [this]
    obtain ⟨r, o, hout, ho, hid, hver, _⟩ := P.hit v hv
    exact ⟨r, o, hout, ho, hid, hver⟩

/-- What was added is stored: a successful add puts exactly the object's content under its identifier
    (so, by `c14_read_back_any_instance`, every instance reads it back). -/
theorem c14_add_stores (w : W) (k : Nat) (r : Ref) (h : (step w (.add k r)).2 = .unit) :
    ∃ o, w.heap[r]? = some o ∧ abs w o.id = none ∧ abs (step w (.add k r)).1 o.id = some o.ver := by
  simp only [step, add] at h ⊢
  cases hl : liveObj w r with
  | none => simp [hl] at h
  | some o =>
    simp only [hl] at h ⊢
    cases hh : AList.has o.id w.disk with
    | true => simp [hh] at h
    | false =>
      simp only [Bool.false_eq_true, if_false]
      exact ⟨o, (liveObj_some hl).1, by simpa [AList.has, abs] using hh, by simp [abs]⟩

/-- What was committed is stored. -/
theorem c14_commit_stores (w : W) (r : Ref) (o : Obj) (hl : liveObj w r = some o) (hb : o.bound = true) :
    (step w (.commit r)).2 = .unit ∧ abs (step w (.commit r)).1 o.id = some o.ver := by
  simp [step, commit, hl, hb, abs]

/-- Duplicates are rejected, and nothing changes. -/
theorem c14_duplicate_rejected (w : W) (k : Nat) (r : Ref) (o : Obj) (hl : liveObj w r = some o)
    (hs : abs w o.id ≠ none) : step w (.add k r) = (w, .keyError) := by
  have : AList.has o.id w.disk = true := by
    simp only [AList.has, Option.isSome_iff_ne_none]; exact hs
  simp [step, add, hl, this]

/-- Discarding an identifier that is not stored raises `KeyError`, and nothing changes. -/
theorem c14_discard_missing (w : W) (k : Nat) (r : Ref) (o : Obj) (hl : liveObj w r = some o)
    (hs : abs w o.id = none) : step w (.discard k r) = (w, .keyError) := by
  have : AList.has o.id w.disk = false := by simpa [AList.has, abs] using hs
  simp [step, discard, hl, this]

/-- Discarding a stored identifier succeeds through ANY instance — also one that never fetched the object: the
    document is gone and the object's source is cleared.  (On the pinned tree the file was removed and `KeyError`
    raised afterwards, leaving the source set.) -/
theorem c14_discard_through_any_instance (w : W) (k : Nat) (r : Ref) (o : Obj) (hI : Inv w)
    (hl : liveObj w r = some o) (hs : abs w o.id ≠ none) :
    (step w (.discard k r)).2 = .unit ∧ abs (step w (.discard k r)).1 o.id = none ∧
    (step w (.discard k r)).1.heap[r]? = some { o with bound := false } := by
  have hh : AList.has o.id w.disk = true := by
    simp only [AList.has, Option.isSome_iff_ne_none]; exact hs
  have ho := (liveObj_some hl).1
  simp only [step, discard, hl, hh, if_true, abs, true_and]
  refine ⟨AList.get_erase_same_of_nodup hI.diskNodup, ?_⟩
  have := heap_modObj_get w r r o { o with bound := false } ho
  simpa [modObj] using this

/-- **update() brings a stale live object to the stored state.** -/
theorem c14_update_refreshes (w : W) (r : Ref) (o : Obj) (v : Ver) (hl : liveObj w r = some o) (hb : o.bound = true)
    (hs : abs w o.id = some v) :
    (step w (.update r)).2 = .unit ∧ (step w (.update r)).1.heap[r]? = some { o with ver := v } ∧
    abs (step w (.update r)).1 = abs w := by
  have ho := (liveObj_some hl).1
  have hs' : AList.get o.id w.disk = some v := hs
  simp only [step, update, hl, hb, if_true, hs', true_and]
  refine ⟨?_, rfl⟩
  have := heap_modObj_get w r r o { o with ver := v } ho
  simpa [modObj, hb] using this

/-- Iteration never fails and yields every stored document exactly once, with the stored content; `len` agrees. -/
theorem c14_iter_total (w : W) (k : Nat) (hI : Inv w) :
    ∃ rs, (step w (.iter k)).2 = .objs rs ∧ rs.filterMap (pairOf (step w (.iter k)).1) = w.disk ∧
      rs.length = w.disk.length ∧ abs (step w (.iter k)).1 = abs w := by
  obtain ⟨w', rs, hit, hd, _, hp, _⟩ := iter_post w k hI
  have habs : abs w' = abs w := by funext j; simp [abs, hd]
  refine ⟨rs, by simp [step, hit], by simp [step, hit, hp], ?_, by simp [step, hit, habs]⟩
  have hl := congrArg List.length hp
  have hle : (rs.filterMap (pairOf w')).length ≤ rs.length := List.length_filterMap_le _ _
  -- every returned object exists, so nothing is filtered out
  obtain ⟨w'', rs', hit', _, _, ha, _, _⟩ := iterIds_post k (AList.keys w.disk) w hI
    (fun i hi => AList.get_isSome_iff_mem_keys.2 hi)
  have e : rs' = rs := by
    have : iter w k = (w'', .objs rs') := by simp [iter, hit']
    rw [hit] at this; injection this with _ this; injection this with this; exact this.symm
  subst e
  have hlen : ∀ {l : List Id} {rs : List Ref}, AllHold w'' l rs → rs.length = l.length := by
    intro l rs a; induction a with
    | nil => rfl
    | cons _ _ ih => simp [ih]
  rw [hlen ha]; simp [AList.keys]


/-- the bulk insertion `store.update(iterable)` is a history of `add`s (`c15_bulk_insertion_reports_first_failure`): it
    keeps the invariant, hence everything above holds after it as well -/
theorem c14_bulk_insertion_inv (w : W) (k : Nat) (rs : List Ref) (hI : Inv w) : Inv (addMany w k rs).1 := by
  rcases addMany_spec k rs w with ⟨_, h⟩ | ⟨p, _, _, _, _, h, _, _⟩
  · rw [h]; exact c14_inv_reachable w _ hI
  · rw [h]; exact c14_inv_reachable w _ hI

/-! ### Non-vacuity -/

/-- two instances, a stale replica, update(), a dropped and collected replica, an instance opened later -/
def demo : List Op :=
  [.new ['a'] 1, .add 0 0, .get 1 ['a'], .setver 1 5, .commit 1, .get 0 ['a'], .update 0, .add 1 1,
   .drop 0, .gc, .get 0 ['a'], .get 0 ['a'], .iter 2, .discard 2 1, .get 0 ['a'], .len 0]

example : trace init demo =
    [.internal, .add ['a'] 1 true, .read ['a'] (some 1), .internal, .commit ['a'] 5, .read ['a'] (some 5),
     .refresh ['a'] (some 5), .add ['a'] 5 false, .internal, .internal, .read ['a'] (some 5), .read ['a'] (some 5),
     .iter [(['a'], 5)], .discard ['a'] true, .read ['a'] none, .len 0] := by decide

-- the outputs: object 0 is returned while alive; after drop + gc a new object 2 is made and then returned again
example : (step (run init (demo.take 5)) (.get 0 ['a'])).2 = .obj 0 := by decide
example : (step (run init (demo.take 10)) (.get 0 ['a'])).2 = .obj 2 := by decide
example : (step (run init (demo.take 11)) (.get 0 ['a'])).2 = .obj 2 := by decide
example : Quiet ['a'] 2 (step (run init (demo.take 10)) (.get 0 ['a'])).1 [.get 1 ['a'], .gc, .setver 1 9, .commit 1] :=
  ⟨rfl, rfl, rfl, rfl, trivial⟩
example : Inv (run init demo) := c14_inv_reachable _ _ inv_init

end Basyx.FileStore

namespace Basyx.FileStore.Conc

def bfs (v : Variant) : Nat → List S → List S → List S
  | 0, _, seen => seen
  | _ + 1, [], seen => seen
  | f + 1, s :: front, seen =>
    let n0 := stepT v s false
    let n1 := stepT v s true
    let fs0 := if seen.contains n0 then (front, seen) else (n0 :: front, n0 :: seen)
    let fs1 := if fs0.2.contains n1 then fs0 else (n1 :: fs0.1, n1 :: fs0.2)
    bfs v f fs1.1 fs1.2

/-- when both calls are retrievals of a stored identifier, both return an object and it is the same one -/
def twoGets (init s : S) : Bool :=
  !(init.file && init.t0.prog == .get && init.t1.prog == .get) ||
  (match s.t0.res, s.t1.res with
   | .ref a, .ref b => a == b
   | _, _ => false)

/-- the states reachable from `init` under any schedule (computed; that it is closed is checked, not assumed) -/
def reach (v : Variant) (init : S) : List S := bfs v 400 [init] [init]

def closedB (v : Variant) (R : List S) : Bool :=
  R.all (fun s => R.contains (stepT v s false) && R.contains (stepT v s true))

/-- `R` contains the start state, is closed under both threads' steps, and from each of its states running the two
    threads to completion ends with both calls finished and coherent results -/
def goodB (v : Variant) (init : S) (R : List S) : Bool :=
  R.contains init && closedB v R &&
  R.all (fun s => bothDone (finish v s) && coherent init (finish v s) && twoGets init (finish v s) && addedLive (finish v s))

private theorem run_mem_of_closed {v : Variant} {R : List S} (hc : closedB v R = true) :
    ∀ (sched : List Bool) (s : S), s ∈ R → runS v s sched ∈ R := by
  intro sched
  induction sched with
  | nil => intro s h; exact h
  | cons t rest ih =>
    intro s h
    apply ih
    have := (List.all_eq_true.1 hc) s h
    simp only [Bool.and_eq_true, List.contains_iff_mem] at this
    cases t
    · exact this.1
    · exact this.2

set_option maxRecDepth 100000 in
/-- Kernel-evaluated model checking: for each of the 40 start configurations the computed state set contains the
    start state, is closed under a step of either thread, and every state in it completes coherently. -/
theorem c14_reachable_sets_closed : inits.all (fun i => goodB .fixed i (reach .fixed i)) = true := by decide +kernel

/-- **All schedules.**  Two threads of one store instance each retrieve or add the same identifier (every start
    configuration of `inits`); they advance between the lock/cache yield points in ANY order (`sched` is an arbitrary
    list of thread numbers, blocked threads stutter), then run to completion.  Both calls finish; whatever a retrieval
    returned is the single replica the instance's cache holds afterwards — so two retrievals returned the SAME object —
    refreshed; and a retrieval of an existing document does not raise. -/
theorem c14_two_threads (init : S) (hi : init ∈ inits) (sched : List Bool) :
    bothDone (finish .fixed (runS .fixed init sched)) = true ∧
    coherent init (finish .fixed (runS .fixed init sched)) = true ∧
    twoGets init (finish .fixed (runS .fixed init sched)) = true := by
  have hg := (List.all_eq_true.1 c14_reachable_sets_closed) init hi
  simp only [goodB, Bool.and_eq_true, List.contains_iff_mem] at hg
  obtain ⟨⟨hmem, hclosed⟩, hall⟩ := hg
  have := (List.all_eq_true.1 hall) _ (run_mem_of_closed hclosed sched init hmem)
  simp only [Bool.and_eq_true] at this
  exact ⟨this.1.1.1, this.1.1.2, this.1.2⟩

/-- **An added object stays THE live object, under every schedule.**  If an `add()` of one of the two threads returned
    normally, then afterwards the instance's cache holds exactly the object that was added, that object is bound to the
    store, and a retrieval by the other thread that returned an object returned that very object - never a second copy. -/
theorem c14_added_object_stays_live (init : S) (hi : init ∈ inits) (sched : List Bool) :
    addedLive (finish .fixed (runS .fixed init sched)) = true := by
  have hg := (List.all_eq_true.1 c14_reachable_sets_closed) init hi
  simp only [goodB, Bool.and_eq_true, List.contains_iff_mem] at hg
  obtain ⟨⟨hmem, hclosed⟩, hall⟩ := hg
  have := (List.all_eq_true.1 hall) _ (run_mem_of_closed hclosed sched init hmem)
  simp only [Bool.and_eq_true] at this
  exact this.2

/-- the protocol of the code (source bound under the lock) is what `stepT .fixed` runs -/
theorem c14_add_proto_is_fixed (s : S) (sched : List Bool) : runA .sourceUnderLock s sched = runS .fixed s sched := by
  induction sched generalizing s with
  | nil => rfl
  | cons t r ih => simp only [runA, runS, stepA]; exact ih _

/-- **Why the source is bound inside the `with` block**: with that one statement behind the block, on the schedule
    add₀: start acquire insert release | get₁: start acquire contains getitem insert release | add₀: bind
    the retrieval finds the added object cached but not yet bound, takes it for another store's, returns a fresh copy and
    overwrites the cache entry - `add()` returns normally and there are two live replicas.  (The oracle's finer scheduler
    replays exactly this against the code.) -/
theorem c14_source_after_release_two_copies :
    let s := runA .sourceAfterRelease (mk false none false false .add .get)
      [false, false, false, false, true, true, true, true, true, true, false]
    s.t0.res = .unit ∧ s.t1.res = .ref .l1 ∧ s.cache = some .l1 ∧ addedLive s = false := by
  decide

/-- In the words of the property: two threads retrieve a stored identifier through one instance — whatever the cache
    held before, under any schedule both get an object, and it is the same object. -/
theorem c14_two_gets_same_object (init : S) (hi : init ∈ inits) (hf : init.file = true)
    (h0 : init.t0.prog = .get) (h1 : init.t1.prog = .get) (sched : List Bool) :
    ∃ r, (finish .fixed (runS .fixed init sched)).t0.res = .ref r ∧
         (finish .fixed (runS .fixed init sched)).t1.res = .ref r := by
  have := (c14_two_threads init hi sched).2.2
  simp only [twoGets, hf, h0, h1, beq_self_eq_true, Bool.and_self, Bool.not_true, Bool.false_or] at this
  generalize (finish .fixed (runS .fixed init sched)) = s at this
  cases ha : s.t0.res <;> cases hb : s.t1.res <;> simp [ha, hb] at this
  subst this
  exact ⟨_, rfl, rfl⟩

/-- **The pinned protocol (cache insert after releasing the lock) is not coherent**: on the schedule
    load₀ load₁ acquire₀ check₀ release₀ acquire₁ check₁ release₁ insert₀ insert₁ both threads miss the cache and each
    returns its own copy — two live replicas of one identifier.  (Replay of the finding.) -/
theorem c14_race_two_copies :
    let s := finish .pinned (runS .pinned (mk true none false false .get .get)
      [false, true, false, false, false, true, true, true, false, true])
    s.t0.res = .ref .l0 ∧ s.t1.res = .ref .l1 ∧ coherent (mk true none false false .get .get) s = false := by
  decide


/-! ### Non-vacuity -/

example : inits.length = 40 := by decide
example : mk true none false false .get .get ∈ inits := by decide
-- on the schedule that breaks the pinned protocol the repaired one makes thread 1 wait and return thread 0's object
example : (finish .fixed (runS .fixed (mk true none false false .get .get)
    [false, true, false, false, false, true, true, true, false, true])).t1.res = .ref .l0 := by decide
-- add ‖ get: the retrieval either fails (document not yet there) or returns the added object itself
example : (finish .fixed (runS .fixed (mk false none false false .add .get) [false, false, true, true])).t1.res = .ref .x0 := by
  decide
example : (finish .fixed (runS .fixed (mk false none false false .add .get) [true, false])).t1.res = .keyError := by decide
-- the schedule that breaks the late-source protocol, under the protocol of the code: the retrieval waits and gets the added object
example : (runA .sourceUnderLock (mk false none false false .add .get)
    [false, false, false, false, true, true, true, true, true, true, false]).t1.res = .ref .x0 := by decide
example : addedLive (finish .fixed (runS .fixed (mk false none false false .add .get) [false, false, true, true])) = true := by decide

/-! ### Documents are keyed by the identifier itself

The model files a document under its identifier (`disk : AList Id Ver`): two identifiers share a document only if they are equal.
The code names the file `sha256(identifier.encode("utf-8")).hexdigest()`; that this is exactly what `_transform_id` computes - no
normalisation, case folding or stripping of the identifier before hashing - is regenerated from the source (`Gen/Backends.lean`);
the injectivity of sha256 on the identifiers used is the stated assumption. -/

theorem c14_document_name_is_hash_of_identifier :
    Gen.Backends.localTransform = "sha256-utf8" ∧ Gen.Backends.unrecognised = [] := by decide

end Basyx.FileStore.Conc
