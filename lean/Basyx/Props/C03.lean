/-
  C03 — JSON serialisation round-trips every model without loss.

  The member tables of the JSON writer and reader are REGENERATED from /repo on every run
  (`Basyx/Gen/JsonTable.lean`, translator `py/translate/json_tables.py`); the generic interpreter `enc`/`dec`
  (`Basyx/Model/Codec.lean`) is tied to the real adapters by the correspondence run.  The obligation that is
  re-checked against the code on every run is `c03_tables_wf` (by `decide`, in the kernel); the unbounded statement
  `c03_roundtrip` is its corollary through the generic theorem `Basyx.Codec.rt_val` (structural induction over values
  of any depth and width).
-/
import Basyx.Lemmas.Codec
import Basyx.Gen.JsonTable
import Basyx.Lemmas.Dispatch
namespace Basyx.C03
open Basyx.Codec Basyx.Gen.Json

/-- Every statement of the writer and the reader had one of the shapes the translator understands. -/
theorem c03_translator_complete : unrecognised = [] := by decide

/-- **The table obligation** (re-checked on every run): per class, member names are distinct, the reader reads
    every member the writer writes, insists only on members the writer always writes, every writer guard is
    lossless on the attribute's SPEC domain (`truthy` only where the domain has no falsy member), writer and reader
    agree on what is stripped, and the `modelType` dispatch is one-to-one. -/
theorem c03_tables_wf : wfTableB jsonTable = true := by decide

/-- **Round trip, all values.**  For every value `v` that conforms to the metamodel table — any class, any nesting
    depth, any width, any falsy leaf — strict reading of what the writer produced returns exactly `v`. -/
theorem c03_roundtrip (k : Kind) (v : Val) (h : ConfV jsonTable k v) :
    dec jsonTable false k (enc jsonTable false v) = .ok v := by
  have := rt_val jsonTable false false (wf_of_wfTableB _ c03_tables_wf) k v h
  rwa [Bool.or_false, strip_false] at this

/-- The enum ↔ string tables are one-to-one in both directions (so the inverse tables the reader builds by
    comprehension are total inverses and identifying members with their wire strings loses nothing). -/
theorem c03_enums_injective :
    enumTables.all (fun t => nodupB (t.2.map Prod.snd) && nodupB (t.2.map Prod.fst)) = true := by decide

/-! #### the document level: three lists by kind -/

def idKinds : List String := ["AssetAdministrationShell", "Submodel", "ConceptDescription"]

def clsOf : Val → String
  | .node c _ => c
  | _ => ""

def ofKind (c : String) (objs : List Val) : List Val := objs.filter (fun o => clsOf o = c)

def section_ (T : Table) (name : String) (xs : List Val) : List (String × List Wire) :=
  match xs with
  | [] => []
  | _ :: _ => [(name, encList T false xs)]

/-- `_create_dict`: identifiables separated by kind, a list is only written when non-empty -/
def encStore (T : Table) (objs : List Val) : List (String × List Wire) :=
  section_ T "assetAdministrationShells" (ofKind "AssetAdministrationShell" objs) ++
  (section_ T "submodels" (ofKind "Submodel" objs) ++
   section_ T "conceptDescriptions" (ofKind "ConceptDescription" objs))

def decSection (T : Table) (doc : List (String × List Wire)) (name : String) : Except Err (List Val) :=
  match doc.find? (fun e => e.1 = name) with
  | none => .ok []
  | some (_, ws) => decList T false (.poly idKinds) ws

/-- `read_aas_json_file_into` on an empty store, strict mode (duplicate-id handling is C09's) -/
def decStore (T : Table) (doc : List (String × List Wire)) : Except Err (List Val) :=
  match decSection T doc "assetAdministrationShells", decSection T doc "submodels",
        decSection T doc "conceptDescriptions" with
  | .ok a, .ok b, .ok c => .ok (a ++ b ++ c)
  | .error e, _, _ => .error e
  | _, .error e, _ => .error e
  | _, _, .error e => .error e

/-- Stores: reading back a written store yields exactly its identifiables, grouped by kind (same objects, same
    kinds; the store itself is unordered). -/
theorem c03_store_roundtrip (objs : List Val) (h : ConfL jsonTable (.poly idKinds) objs) :
    decStore jsonTable (encStore jsonTable objs) =
      .ok (ofKind "AssetAdministrationShell" objs ++ ofKind "Submodel" objs ++ ofKind "ConceptDescription" objs) := by
  have hWF := wf_of_wfTableB _ c03_tables_wf
  have hfil : ∀ (p : Val → Bool) (xs : List Val), ConfL jsonTable (.poly idKinds) xs →
      ConfL jsonTable (.poly idKinds) (xs.filter p) := by
    intro p xs
    induction xs with
    | nil => intro _; simp [ConfL]
    | cons x r ih =>
      intro hx
      simp only [ConfL] at hx
      simp only [List.filter]
      split
      · simp only [ConfL]; exact ⟨hx.1, ih hx.2⟩
      · exact ih hx.2
  have hrt : ∀ (c : String), decList jsonTable false (.poly idKinds) (encList jsonTable false (ofKind c objs))
      = .ok (ofKind c objs) := by
    intro c
    have := rt_list jsonTable false false hWF (.poly idKinds) _ (hfil (fun o => decide (clsOf o = c)) objs h)
    rwa [Bool.or_false, stripList_false] at this
  have e1 : decSection jsonTable (encStore jsonTable objs) "assetAdministrationShells"
      = .ok (ofKind "AssetAdministrationShell" objs) := by
    have := hrt "AssetAdministrationShell"
    unfold decSection encStore section_
    cases hA : ofKind "AssetAdministrationShell" objs <;> cases hS : ofKind "Submodel" objs <;>
      cases hC : ofKind "ConceptDescription" objs <;> simp_all [List.find?]
  have e2 : decSection jsonTable (encStore jsonTable objs) "submodels" = .ok (ofKind "Submodel" objs) := by
    have := hrt "Submodel"
    unfold decSection encStore section_
    cases hA : ofKind "AssetAdministrationShell" objs <;> cases hS : ofKind "Submodel" objs <;>
      cases hC : ofKind "ConceptDescription" objs <;> simp_all [List.find?]
  have e3 : decSection jsonTable (encStore jsonTable objs) "conceptDescriptions"
      = .ok (ofKind "ConceptDescription" objs) := by
    have := hrt "ConceptDescription"
    unfold decSection encStore section_
    cases hA : ofKind "AssetAdministrationShell" objs <;> cases hS : ofKind "Submodel" objs <;>
      cases hC : ofKind "ConceptDescription" objs <;> simp_all [List.find?]
  simp only [decStore, e1, e2, e3]

/-! #### non-vacuity: a concrete conforming value with falsy leaves, an absent optional and nesting -/

def demoRef : Val :=
  .node "ExternalReference" [.list [.node "Key" [.tok "GlobalReference" false, .tok "urn:x" false]], .none]

/-- a Property of type xs:int with value 0 (falsy), no idShort … inside a collection -/
def demoProp : Val :=
  .node "Property" [.list [], .list [], .tok "p" false, .none, .none, .none, .none, .list [], .list [],
                    .tok "0" true, .none, .tok "xs:int" false]

example : ConfV jsonTable (.poly ["Property"]) demoProp := by
  simp [demoProp, ConfV, ConfF, ConfL, rowsOf, tagOf, jsonTable, rows_Property, DomOk, truthyVal, List.find?, isEmptyTok]

example : dec jsonTable false (.poly ["Property"]) (enc jsonTable false demoProp) = .ok demoProp := by rfl

/-! ### Instances of application-defined subclasses are written like instances of the class they specialise

The round-trip theorems are about values of the metamodel classes.  An application may derive its own classes (the readers
support it: every constructor takes `object_class`); what such an instance is written as is decided by two pieces of code,
regenerated into `Gen/Dispatch.lean` on every run: how `_abstract_classes_to_json` computes `modelType`, and how
`_create_dict` sorts a store's objects into the three top-level lists. -/

open Basyx.Dispatch in
/-- (re-checked against the source on every run) `modelType` is the first class of the object's method resolution order that
    is a key of KEY_TYPES_CLASSES, and the top-level lists are filled by an `isinstance` chain over the three identifiable
    classes -/
theorem c03_class_dispatch :
    nameByOf Gen.Dispatch.modelTypeBy = some .mroFirstHit ∧ sortByOf Gen.Dispatch.jsonStoreBy = some .isinstance ∧
    Gen.Dispatch.jsonStoreRows.map (·.1) = ["AssetAdministrationShell", "Submodel", "ConceptDescription"] ∧
    (Gen.Dispatch.jsonStoreRows.map (·.2)).Nodup := by decide

open Basyx.Dispatch in
/-- **Subclass-closed, any depth of derivation**: for every class `c` and every chain of application-defined classes
    `class n₁(c)`, `class n₂(n₁)`, ... (names that are not names of metamodel classes) the `modelType` written and the top-level
    list chosen are those of `c` itself - with the naming and sorting the code has (`c03_class_dispatch`). -/
theorem c03_subclass_instances_written_alike (known : List String) (ns : List String) (c : PyClass)
    (hk : ∀ n ∈ ns, known.contains n = false) (hr : ∀ n ∈ ns, ∀ r ∈ Gen.Dispatch.jsonStoreRows, r.1 ≠ n) :
    modelTypeOf .mroFirstHit known (deriveMany ns c) = modelTypeOf .mroFirstHit known c ∧
    listOf .isinstance Gen.Dispatch.jsonStoreRows (deriveMany ns c) = listOf .isinstance Gen.Dispatch.jsonStoreRows c :=
  ⟨modelType_deriveMany known ns c hk, listOf_deriveMany _ ns c hr⟩

open Basyx.Dispatch in
/-- the two other ways of naming the class are NOT subclass-closed (what the first theorem excludes): an `AppSubmodel(Submodel)`
    would be written with a `modelType` no reader knows, or refused, and a table keyed by the exact class leaves it out of
    the document -/
theorem c03_other_dispatches_lose_subclasses :
    let app := derive "AppSubmodel" (sdkClass "Submodel" ["Identifiable", "Referable"])
    modelTypeOf .mroFirstHit ["Submodel"] app = some "Submodel" ∧
    modelTypeOf .ownName ["Submodel"] app = some "AppSubmodel" ∧
    modelTypeOf .exactOrRaise ["Submodel"] app = none ∧
    listOf .isinstance Gen.Dispatch.jsonStoreRows app = some "submodels" ∧
    listOf .typeTable Gen.Dispatch.jsonStoreRows app = none := by decide

end Basyx.C03
