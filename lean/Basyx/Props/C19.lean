/-
  C19 — Supplementary file container never mixes up or loses file contents.
  Property theorems only (helper lemmas: `Basyx/Lemmas/Files.lean`).  Model: `Basyx/Model/Files.lean`.

  Shape: invariant by induction over operations + refinement to an abstract map
  `Name ⇀ (Content × ContentType)`; the user-facing clauses are map laws of the abstract spec, carried
  to the concrete container by the refinement theorem.
-/
import Basyx.Lemmas.Files
namespace Basyx.Files

/-- Bookkeeping invariant of the three dictionaries. -/
structure Inv (s : St) : Prop where
  namesNodup : (AList.keys s.names).Nodup
  storeNodup : (AList.keys s.store).Nodup
  refcNodup  : (AList.keys s.refc).Nodup
  storeVal   : ∀ h c, AList.get h s.store = some c → hash c = h
  nameStored : ∀ n h ct, AList.get n s.names = some (h, ct) → (AList.get h s.store).isSome
  refcStored : ∀ h, (AList.get h s.store).isSome →
                 AList.get h s.refc = some (cnt h s.names) ∧ 0 < cnt h s.names
  refcAbsent : ∀ h, AList.get h s.store = none → AList.get h s.refc = none

/-- What the container *means*: each listed name with the bytes found in the store under its hash. -/
def abs (s : St) : Spec :=
  s.names.map (fun e => (e.1, ((AList.get e.2.1 s.store).getD [], e.2.2)))

theorem c19_inv_init : Inv init := by
  constructor <;> simp [init, AList.keys, AList.get]

private theorem not_mem_keys_of_get_none {κ ν : Type} [DecidableEq κ] {k : κ} {l : List (κ × ν)}
    (h : AList.get k l = none) : k ∉ AList.keys l := by
  intro hm
  have := (AList.get_isSome_iff_mem_keys (l := l)).2 hm
  simp [h] at this

private theorem isSome_set {κ ν : Type} [DecidableEq κ] (k k' : κ) (v : ν) (l : List (κ × ν)) :
    (AList.get k' (AList.set k v l)).isSome = (decide (k' = k) || (AList.get k' l).isSome) := by
  by_cases h : k' = k
  · subst h; simp
  · simp [AList.get_set_other v l h, h]

/-- `add_file` preserves the invariant — whatever it returns. -/
theorem c19_inv_add (s : St) (name : Name) (data : Content) (ct : CT) (hI : Inv s) :
    Inv (addFile s name data ct).1 := by
  unfold addFile
  simp only []
  generalize hd : hash data = h
  by_cases hs : AList.has h s.store
  · -- content already stored
    simp only [hs, ↓reduceIte]
    have hs' : (AList.get h s.store).isSome := hs
    split
    · next n hf =>
      obtain ⟨hn, _⟩ := findSlot_fresh hf
      have hnk := not_mem_keys_of_get_none hn
      obtain ⟨hr, _⟩ := hI.refcStored _ hs'
      refine ⟨AList.nodup_keys_set hI.namesNodup, hI.storeNodup, AList.nodup_keys_set hI.refcNodup,
        hI.storeVal, ?_, ?_, ?_⟩
      · intro n' h' ct' hg
        by_cases hn' : n' = n
        · subst hn'; simp at hg; rw [← hg.1]; exact hs'
        · rw [AList.get_set_other _ _ hn'] at hg; exact hI.nameStored _ _ _ hg
      · intro h' hh'
        try simp only at hh' ⊢
        obtain ⟨hr', hp'⟩ := hI.refcStored h' hh'
        by_cases he : h' = h
        · subst he
          simp [hr, cnt_set_new hnk]
        · rw [AList.get_set_other _ _ he, cnt_set_new hnk]
          simp [Ne.symm he, hr', hp']
      · intro h' hh'
        try simp only at hh' ⊢
        have he : h' ≠ h := by intro e; subst e; simp [hh'] at hs'
        rw [AList.get_set_other _ _ he]; exact hI.refcAbsent _ hh'
    · exact hI
    · exact hI
  · -- new content
    simp only [hs, Bool.false_eq_true, ↓reduceIte]
    have hs' : AList.get h s.store = none := by
      simp [AList.has] at hs; exact hs
    have hcnt : cnt h s.names = 0 := by
      apply Nat.eq_zero_of_not_pos
      intro hp
      obtain ⟨n, c, hg⟩ := exists_get_of_cnt_pos hI.namesNodup hp
      have := hI.nameStored _ _ _ hg
      simp [hs'] at this
    split
    · next n hf =>
      obtain ⟨hn, _⟩ := findSlot_fresh hf
      try simp only at hn
      have hnk := not_mem_keys_of_get_none hn
      refine ⟨AList.nodup_keys_set hI.namesNodup, AList.nodup_keys_set hI.storeNodup,
        AList.nodup_keys_set (AList.nodup_keys_set hI.refcNodup), ?_, ?_, ?_, ?_⟩
      · intro h' c hg
        try simp only at hg
        by_cases he : h' = h
        · subst he; simp at hg; rw [← hg]; exact hd
        · rw [AList.get_set_other _ _ he] at hg; exact hI.storeVal _ _ hg
      · intro n' h' ct' hg
        try simp only at hg ⊢
        rw [isSome_set]
        by_cases hn' : n' = n
        · subst hn'; simp at hg; simp [hg.1]
        · rw [AList.get_set_other _ _ hn'] at hg
          simp [hI.nameStored _ _ _ hg]
      · intro h' hh'
        try simp only at hh' ⊢
        rw [isSome_set] at hh'
        by_cases he : h' = h
        · subst he
          simp [cnt_set_new hnk, hcnt]
        · simp [he] at hh'
          obtain ⟨hr', hp'⟩ := hI.refcStored h' hh'
          rw [AList.get_set_other _ _ he, AList.get_set_other _ _ he, cnt_set_new hnk]
          simp [Ne.symm he, hr', hp']
      · intro h' hh'
        try simp only at hh' ⊢
        have he : h' ≠ h := by intro e; subst e; simp at hh'
        rw [AList.get_set_other _ _ he] at hh'
        rw [AList.get_set_other _ _ he, AList.get_set_other _ _ he]
        exact hI.refcAbsent _ hh'
    · next n hf =>
      exfalso
      have hg := findSlot_same hf
      try simp only at hg
      have := hI.nameStored _ _ _ hg
      simp [hs'] at this
    · next hf => exact absurd hf (findSlot_not_exhausted _ _ _)

/-- `delete_file` preserves the invariant — whether it returns or raises. -/
theorem c19_inv_delete (s : St) (name : Name) (hI : Inv s) : Inv (deleteFile s name).1 := by
  unfold deleteFile
  split
  · exact hI
  · next h ct hg =>
    have hst := hI.nameStored _ _ _ hg
    obtain ⟨hr, hp⟩ := hI.refcStored _ hst
    simp only [hr]
    have hce : ∀ h', cnt h' (AList.erase name s.names) + (if h = h' then 1 else 0) = cnt h' s.names :=
      fun h' => cnt_erase hg
    split
    · next hz =>
      -- last name for this content: content and refcount entry are dropped
      have h1 : cnt h s.names = 1 := by omega
      refine ⟨AList.nodup_keys_erase hI.namesNodup, AList.nodup_keys_erase hI.storeNodup,
        AList.nodup_keys_erase hI.refcNodup, ?_, ?_, ?_, ?_⟩
      · intro h' c hg'
        try simp only at hg'
        by_cases he : h' = h
        · subst he; rw [AList.get_erase_same_of_nodup hI.storeNodup] at hg'; cases hg'
        · rw [AList.get_erase_other _ he] at hg'; exact hI.storeVal _ _ hg'
      · intro n' h' ct' hg'
        try simp only at hg' ⊢
        by_cases hn' : n' = name
        · subst hn'; rw [AList.get_erase_same_of_nodup hI.namesNodup] at hg'; cases hg'
        · rw [AList.get_erase_other _ hn'] at hg'
          have he : h' ≠ h := by
            intro e; subst e
            have := cnt_pos_of_get (names := AList.erase n' s.names) (n := n') (h := h') (ct := ct')
            have h0 := hce h'
            simp at h0
            have hp2 : 0 < cnt h' (AList.erase name s.names) := by
              have hg2 : AList.get n' (AList.erase name s.names) = some (h', ct') := by
                rw [AList.get_erase_other _ hn']; exact hg'
              exact cnt_pos_of_get hg2
            omega
          rw [AList.get_erase_other _ he]; exact hI.nameStored _ _ _ hg'
      · intro h' hh'
        try simp only at hh' ⊢
        by_cases he : h' = h
        · subst he; rw [AList.get_erase_same_of_nodup hI.storeNodup] at hh'; simp at hh'
        · rw [AList.get_erase_other _ he] at hh'
          obtain ⟨hr', hp'⟩ := hI.refcStored h' hh'
          have h0 := hce h'
          simp [Ne.symm he] at h0
          rw [AList.get_erase_other _ he, h0]; exact ⟨hr', hp'⟩
      · intro h' hh'
        try simp only at hh' ⊢
        by_cases he : h' = h
        · subst he; exact AList.get_erase_same_of_nodup hI.refcNodup
        · rw [AList.get_erase_other _ he] at hh'
          rw [AList.get_erase_other _ he]; exact hI.refcAbsent _ hh'
    · next hz =>
      have h2 : 2 ≤ cnt h s.names := by omega
      refine ⟨AList.nodup_keys_erase hI.namesNodup, hI.storeNodup,
        AList.nodup_keys_set hI.refcNodup, hI.storeVal, ?_, ?_, ?_⟩
      · intro n' h' ct' hg'
        try simp only at hg' ⊢
        by_cases hn' : n' = name
        · subst hn'; rw [AList.get_erase_same_of_nodup hI.namesNodup] at hg'; cases hg'
        · rw [AList.get_erase_other _ hn'] at hg'; exact hI.nameStored _ _ _ hg'
      · intro h' hh'
        try simp only at hh' ⊢
        have h0 := hce h'
        by_cases he : h' = h
        · subst he
          simp at h0
          simp; omega
        · obtain ⟨hr', hp'⟩ := hI.refcStored h' hh'
          simp [Ne.symm he] at h0
          rw [AList.get_set_other _ _ he, h0]; exact ⟨hr', hp'⟩
      · intro h' hh'
        try simp only at hh' ⊢
        have he : h' ≠ h := by intro e; subst e; simp [hh'] at hst
        rw [AList.get_set_other _ _ he]; exact hI.refcAbsent _ hh'

theorem c19_inv_step (s : St) (op : Op) (hI : Inv s) : Inv (step s op).1 := by
  cases op <;> simp only [step] <;> first | exact c19_inv_add _ _ _ _ hI | exact c19_inv_delete _ _ hI | exact hI

/-- The invariant holds in every reachable state (all histories, no bound on length). -/
theorem c19_inv_reachable (ops : List Op) : Inv (run init ops).1 := by
  suffices h : ∀ s, Inv s → Inv (run s ops).1 from h _ c19_inv_init
  induction ops with
  | nil => intro s h; exact h
  | cons op r ih => intro s h; simp only [run]; exact ih _ (c19_inv_step s op h)

/-! ### Refinement to the abstract map -/

private theorem get_of_mem {κ ν : Type} [DecidableEq κ] {l : List (κ × ν)} (hn : (AList.keys l).Nodup)
    {e : κ × ν} (he : e ∈ l) : AList.get e.1 l = some e.2 := by
  induction l with
  | nil => cases he
  | cons hd t ih =>
    obtain ⟨k, v⟩ := hd
    have hn' : k ∉ AList.keys t ∧ (AList.keys t).Nodup := by
      simpa [AList.keys, List.nodup_cons] using hn
    rcases List.mem_cons.1 he with rfl | he'
    · simp [AList.get]
    · have hk : k ≠ e.1 := by
        intro h; apply hn'.1; rw [h]; exact AList.mem_keys_of_get (ih hn'.2 he')
      simp [AList.get, hk, ih hn'.2 he']

/-- Under the invariant the store never lacks the bytes of a listed name: the meaning of the container
    is its name map read as `name ↦ (content, content type)`. -/
theorem abs_eq_names (s : St) (hI : Inv s) : abs s = s.names := by
  unfold abs
  conv => rhs; rw [← List.map_id s.names]
  apply List.map_congr_left
  intro e he
  obtain ⟨n, h, ct⟩ := e
  have hg := get_of_mem hI.namesNodup he
  have hs := hI.nameStored _ _ _ hg
  cases hc : AList.get h s.store with
  | none => simp [hc] at hs
  | some c =>
    have := hI.storeVal _ _ hc
    simp [hash] at this
    simp [this]

private theorem specFind_eq_findSlot (m name d fuel i) : specFind m name d fuel i = findSlot m name d fuel i := rfl

/-- One step of the container simulates one step of the abstract map, with the same output. -/
theorem c19_refines_step (s : St) (op : Op) (hI : Inv s) :
    specStep (abs s) op = (abs (step s op).1, (step s op).2) := by
  have hI' := c19_inv_step s op hI
  rw [abs_eq_names _ hI', abs_eq_names _ hI]
  cases op with
  | add n d c =>
    simp only [step, specStep, specFind_eq_findSlot]
    unfold addFile
    by_cases hs : AList.has (hash d) s.store
    · simp only [hs, ↓reduceIte]
      split <;> simp_all [hash]
    · simp only [hs, Bool.false_eq_true, ↓reduceIte]
      split <;> simp_all [hash]
  | delete n =>
    simp only [step, specStep]
    unfold deleteFile
    cases hg : AList.get n s.names with
    | none => rfl
    | some v =>
      obtain ⟨h, ct⟩ := v
      have hst := hI.nameStored _ _ _ hg
      obtain ⟨hr, hp⟩ := hI.refcStored _ hst
      simp only [hr]
      split <;> rfl
  | ctype n => simp only [step, specStep, getContentType]; cases AList.get n s.names <;> rfl
  | sha n => simp only [step, specStep, getSha]; cases AList.get n s.names <;> simp [hash]
  | write n =>
    simp only [step, specStep, writeFile]
    cases hg : AList.get n s.names with
    | none => rfl
    | some v =>
      obtain ⟨h, ct⟩ := v
      have hst := hI.nameStored _ _ _ hg
      cases hc : AList.get h s.store with
      | none => simp [hc] at hst
      | some c =>
        have := hI.storeVal _ _ hc
        simp [hash] at this
        subst this; simp [hc]
  | contains n => rfl
  | iter => rfl

/-- **Refinement, all histories.**  Every finite sequence of container calls produces exactly the outputs
    of the abstract map `Name ⇀ (Content × ContentType)` run on the same calls. -/
theorem c19_refines (ops : List Op) : (run init ops).2 = (specRun [] ops).2 := by
  suffices h : ∀ s, Inv s → (run s ops).2 = (specRun (abs s) ops).2 by
    have := h init c19_inv_init
    simpa [abs, init] using this
  induction ops with
  | nil => intro s _; rfl
  | cons op r ih =>
    intro s hI
    simp only [run, specRun]
    rw [c19_refines_step s op hI]
    simp only
    rw [ih _ (c19_inv_step s op hI)]

/-! ### The user-facing clauses, as laws of the abstract map (carried over by `c19_refines`) -/

/-- A name handed out by `add_file` afterwards yields exactly the supplied bytes and content type, and
    no other name's binding changes. -/
theorem c19_add_yields_supplied (m : Spec) (n : Name) (d : Content) (c : CT) (k : Name)
    (h : (specStep m (.add n d c)).2 = .name k) :
    AList.get k (specStep m (.add n d c)).1 = some (d, c) ∧
    ∀ k', k' ≠ k → AList.get k' (specStep m (.add n d c)).1 = AList.get k' m := by
  simp only [specStep, specFind_eq_findSlot] at h ⊢
  split at h <;> rename_i hf <;> simp only [hf]
  · injection h with h; subst h
    exact ⟨AList.get_set_same _ _ _, fun k' hk' => AList.get_set_other _ _ hk'⟩
  · injection h with h; subst h
    exact ⟨findSlot_same hf, fun _ _ => trivial⟩
  · cases h

/-- Adding under a name already bound to identical content and content type returns that same name and
    changes nothing. -/
theorem c19_add_same_returns_same (m : Spec) (n : Name) (d : Content) (c : CT)
    (h : AList.get n m = some (d, c)) : specStep m (.add n d c) = (m, .name n) := by
  have : findSlot m n (d, c) (List.length m + 2) 0 = .same n := by
    simp [findSlot, cand, h]
  simp only [specStep, specFind, this]

/-- Adding under a name bound to something else returns a name that was unused before; every existing
    binding is left as it was. -/
theorem c19_add_conflict_fresh (m : Spec) (n : Name) (d : Content) (c : CT) (v : Content × CT)
    (h : AList.get n m = some v) (hv : v ≠ (d, c)) :
    ∃ k, (specStep m (.add n d c)).2 = .name k ∧ k ≠ n ∧
      (AList.get k m = none ∨ AList.get k m = some (d, c)) ∧
      ∀ k', k' ≠ k → AList.get k' (specStep m (.add n d c)).1 = AList.get k' m := by
  simp only [specStep, specFind_eq_findSlot]
  have hne := findSlot_not_exhausted m n (d, c)
  split <;> rename_i hf
  · next k =>
    obtain ⟨hk, _⟩ := findSlot_fresh hf
    refine ⟨k, rfl, ?_, Or.inl hk, fun k' hk' => AList.get_set_other _ _ hk'⟩
    intro e; subst e; simp [h] at hk
  · next k =>
    have hk := findSlot_same hf
    refine ⟨k, rfl, ?_, Or.inr hk, fun _ _ => rfl⟩
    intro e; subst e; rw [h] at hk; injection hk with hk; exact hv hk
  · exact absurd hf hne

/-- The conflict loop always terminates with a name (never runs out of candidates). -/
theorem c19_add_total (s : St) (n : Name) (d : Content) (c : CT) : (addFile s n d c).2 ≠ .fuel := by
  unfold addFile
  simp only []
  by_cases hs : AList.has (hash d) s.store <;> simp only [hs, Bool.false_eq_true, ↓reduceIte] <;> split <;>
    first
      | (rename_i hf; exact absurd hf (findSlot_not_exhausted _ _ _))
      | simp

/-- Deleting a bound name removes exactly that name; deleting an unknown name is `KeyError` and changes
    nothing. -/
theorem c19_delete_exact (m : Spec) (hn : (AList.keys m).Nodup) (n : Name) :
    (AList.get n m = none → specStep m (.delete n) = (m, .keyError)) ∧
    (∀ v, AList.get n m = some v →
        (specStep m (.delete n)).2 = .unit ∧ AList.get n (specStep m (.delete n)).1 = none ∧
        ∀ k', k' ≠ n → AList.get k' (specStep m (.delete n)).1 = AList.get k' m) := by
  constructor
  · intro h; simp [specStep, h]
  · intro v h
    simp only [specStep, h]
    exact ⟨trivial, AList.get_erase_same_of_nodup hn, fun k' hk' => AList.get_erase_other _ hk'⟩

/-- Queries on an unknown name are `KeyError`; membership and listing agree with the map. -/
theorem c19_unknown_keyerror (m : Spec) (n : Name) (h : AList.get n m = none) :
    (specStep m (.ctype n)).2 = .keyError ∧ (specStep m (.sha n)).2 = .keyError ∧
    (specStep m (.write n)).2 = .keyError ∧ (specStep m (.contains n)).2 = .bool false := by
  simp [specStep, h, AList.has]

/-- Deleting one name never affects another name that shares its content (concrete level): after
    `delete a`, a different listed name `b` still writes the same bytes. -/
theorem c19_delete_keeps_shared (s : St) (hI : Inv s) (a b : Name) (hab : b ≠ a) :
    writeFile (deleteFile s a).1 b = writeFile s b := by
  have h1 := c19_refines_step s (.delete a) hI
  have hI' := c19_inv_step s (.delete a) hI
  have h2 := c19_refines_step (step s (.delete a)).1 (.write b) hI'
  have h3 := c19_refines_step s (.write b) hI
  simp only [step] at h1 h2 h3
  have e2 : writeFile (deleteFile s a).1 b = (specStep (abs (deleteFile s a).1) (.write b)).2 := by rw [h2]
  have e3 : writeFile s b = (specStep (abs s) (.write b)).2 := by rw [h3]
  rw [e2, e3]
  have : abs (deleteFile s a).1 = (specStep (abs s) (.delete a)).1 := by rw [h1]
  rw [this]
  simp only [specStep]
  cases hg : AList.get a (abs s) with
  | none => rfl
  | some v => simp only [AList.get_erase_other _ hab]

/-! ### Non-vacuity: a concrete reachable state with shared content, a conflict and a generated name -/

def demoOps : List Op :=
  [.add "a.pdf".toList "X".toList "application/pdf".toList,
   .add "b.pdf".toList "X".toList "application/pdf".toList,      -- same content under a second name
   .add "a.pdf".toList "Y".toList "application/pdf".toList,      -- conflict → a_0001.pdf
   .add "a_0001.pdf".toList "Z".toList "text/plain".toList,      -- look-alike of a generated name → a_0001_0001.pdf
   .delete "a.pdf".toList,
   .write "b.pdf".toList, .iter]

example : (run init demoOps).2 =
    [.name "a.pdf".toList, .name "b.pdf".toList, .name "a_0001.pdf".toList, .name "a_0001_0001.pdf".toList,
     .unit, .content "X".toList,
     .names ["b.pdf".toList, "a_0001.pdf".toList, "a_0001_0001.pdf".toList]] := by decide

example : Inv (run init demoOps).1 := c19_inv_reachable demoOps

end Basyx.Files
