/-
  C05 — Wire format matches the official AAS schemas and mapping in both directions.

  Everything here is about REGENERATED tables: the writers'/readers' member tables (`Gen/JsonTable`, `Gen/XmlTable`,
  from the four adapter modules), the schema tables (`Gen/Schemas`, from aasJSONSchema.json and aasXMLSchema.xsd shipped
  in /repo) and the SDK's string limits (`Gen/StrCons`, from _string_constraints.py / base.py).  The obligations are
  decided in the kernel on every run.  Together with the generic codec theorems (C03/C04: what is written is exactly the
  guarded members of the table, what is read is exactly the table's members) they give, at table level:
  written documents use only names the schema knows, always carry what the schema requires, never contain an empty
  array where the schema demands `minItems 1`, use only literals of the schema's enumerations, emit XML children in
  the order of the schema's `xs:sequence`; and in the reading direction: every schema member is read, every schema
  literal is known, nothing is demanded that the schema leaves optional, and text length limits coincide.
  Regex-defined lexical spaces (BCP-47, RFC 2046/8089, xs:* literals) are NOT proved; the schema validators check
  them on generated leaves (DESIGN §9).
-/
import Basyx.Model.Codec
import Basyx.Gen.JsonTable
import Basyx.Gen.XmlTable
import Basyx.Gen.Schemas
import Basyx.Gen.StrCons
import Basyx.Gen.Dispatch
namespace Basyx.C05
open Basyx.Codec Basyx.Gen.Schemas

/-- SDK class ↦ JSON Schema definition (spec mapping; `Reference` covers both reference classes) -/
def jsonDefOf (c : String) : String :=
  if c == "DataSpecificationIEC61360" then "DataSpecificationIec61360"
  else if c == "ExternalReference" || c == "ModelReference" then "Reference"
  else if c == "LangString" then "AbstractLangString"
  else c

def jdef (n : String) : Option JDef := jsonDefs.find? (fun d => d.name = n)
def jprop (d : JDef) (m : String) : Option JProp := d.props.find? (fun p => p.name = m)

/-- members that are carried by the tag in the wire normal form -/
def tagMember (c : String) (m : String) : Bool :=
  m == "modelType" || ((c == "ExternalReference" || c == "ModelReference") && m == "type")

def guardIsTruthy : Guard → Bool
  | .truthy => true
  | _ => false

/-- literals the SDK knows beyond the specification (documented extension, excluded from the written-documents claim) -/
def sdkExtensions : List String := ["xs:normalizedString"]

/-- KNOWN FINDING (known_findings/C05.json): schema literals the SDK's reader does not know — the abstract key types.
    The full statement (`knownMissing = []`) is false on the current tree; see `c05_keytypes_missing_witness`. -/
def knownMissing : List (String × String × String) :=
  [("Key", "type", "Identifiable"), ("Key", "type", "Referable")]

def jsonClassOk (ct : ClassTable) : Bool :=
  match jdef (jsonDefOf ct.cls) with
  | none => false
  | some d =>
    -- W1 written names are schema properties
    ct.rows.all (fun r => (jprop d r.member).isSome) &&
    -- W2 what the schema requires is always written
    d.required.all (fun m => tagMember ct.cls m || ct.rows.any (fun r => r.member == m && alwaysPassesB r)) &&
    -- W3 no empty array where the schema says minItems 1
    ct.rows.all (fun r => match jprop d r.member with
      | some p => !p.minItems1 || guardIsTruthy r.guard || r.noFalsy
      | none => true) &&
    -- W4 written literals are schema literals
    ct.rows.all (fun r => match jprop d r.member with
      | some p => p.enumVals.isEmpty || r.enumVals.all (fun v => p.enumVals.contains v || sdkExtensions.contains v)
      | none => true) &&
    -- R1 every schema property is read
    d.props.all (fun p => tagMember ct.cls p.name || ct.rows.any (fun r => r.member == p.name && r.decReads)) &&
    -- R2 every schema literal is known to the reader
    ct.rows.all (fun r => match jprop d r.member with
      | some p => r.enumVals.isEmpty ||
          p.enumVals.all (fun v => r.enumVals.contains v || knownMissing.contains (ct.cls, r.member, v))
      | none => true) &&
    -- R3 the reader demands nothing the schema leaves optional
    ct.rows.all (fun r => !r.decRequired || d.required.contains r.member)

/-- classes of the JSON table that have a definition of their own in the schema -/
def jsonClasses : List ClassTable :=
  Gen.Json.jsonTable.filter (fun ct => ct.cls != "LangString")

/-- **JSON, names / required / minItems / enumerations, both directions** — partial: up to `knownMissing`. -/
theorem c05_json_tables_match_schema_partial : jsonClasses.all jsonClassOk = true := by decide

/-- proved negation of the full reading-direction claim: the schema's key type literal `Referable` is valid but unknown
    to the SDK's `KEY_TYPES` table (the replay of the known finding). -/
theorem c05_keytypes_missing_witness :
    (match jsonEnums.find? (fun e => e.1 = "KeyTypes") with | some e => e.2.contains "Referable" | none => false) = true ∧
    (match Gen.Json.enumTables.find? (fun e => e.1 = "KEY_TYPES") with
     | some e => (e.2.map Prod.snd).contains "Referable" | none => true) = false := by decide

/-- the `modelType` constants are the schema's: every tagged class is announced under the name of its definition -/
theorem c05_json_model_types :
    Gen.Json.jsonTable.all (fun ct => match ct.tag with
      | some t => t == jsonDefOf ct.cls || ct.cls == "ExternalReference" || ct.cls == "ModelReference"
      | none => true) = true := by decide

/-! ### text length facets -/

def sdkLangMax (c : String) : Nat :=
  match Gen.StrCons.langLimits.find? (fun e => e.1 = c) with
  | some e => e.2.2
  | none => 0

def schemaLangMax (defName : String) : Nat :=
  match jdef defName with
  | some d => match jprop d "text" with | some p => p.maxLength | none => 0
  | none => 0

/-- KNOWN FINDING (known_findings/C05.json): the SDK limits display-name texts (MultiLanguageNameType) to 64 characters
    where the schemas allow 128; `sdk/test/model/test_base.py::LangStringSetTest::test_text_constraints` pins the 64, so it
    cannot be repaired without editing the suite. -/
def knownLengthGaps : List String := ["MultiLanguageNameType"]

def langPairs : List (String × String) :=
  [("MultiLanguageNameType", "LangStringNameType"), ("MultiLanguageTextType", "LangStringTextType"),
   ("DefinitionTypeIEC61360", "LangStringDefinitionTypeIec61360"),
   ("PreferredNameTypeIEC61360", "LangStringPreferredNameTypeIec61360"),
   ("ShortNameTypeIEC61360", "LangStringShortNameTypeIec61360")]

/-- **Language-string texts** (full statement: for ALL five classes the SDK's limit is exactly the schema's `maxLength`;
    a shorter SDK limit rejects schema-valid documents, a longer one writes invalid ones).  Proved up to
    `knownLengthGaps`; where a gap is recorded the SDK limit is still within the schema's (nothing invalid is written). -/
theorem c05_lang_string_lengths_partial :
    langPairs.all (fun e => sdkLangMax e.1 == schemaLangMax e.2 ||
      (knownLengthGaps.contains e.1 && sdkLangMax e.1 ≤ schemaLangMax e.2)) = true := by decide

/-- proved negation of the full claim on the recorded witness: 64 < 128 -/
theorem c05_display_name_length_witness :
    sdkLangMax "MultiLanguageNameType" = 64 ∧ schemaLangMax "LangStringNameType" = 128 := by decide

def sdkAttrMax (c a : String) : Nat :=
  match Gen.StrCons.attrs.find? (fun e => e.1 = c && e.2.1 = a) with
  | some e => match Gen.StrCons.limits.find? (fun l => l.1 = e.2.2) with
    | some l => l.2.2.1
    | none => 0
  | none => 0

/-- **Constrained string attributes** (those declared by a `@constrain_*` decorator): SDK limit = schema `maxLength`. -/
theorem c05_string_lengths :
    jsonClasses.all (fun ct => match jdef (jsonDefOf ct.cls) with
      | none => false
      | some d => ct.rows.all (fun r => match jprop d r.member with
        | some p => p.maxLength == 0 || sdkAttrMax ct.cls r.attr == 0 || sdkAttrMax ct.cls r.attr == p.maxLength
        | none => true)) = true := by decide

/-! ### XML: order, names, occurrence -/

def xsdGroupOf (c : String) : String :=
  match Gen.Xml.groupOf.find? (fun e => e.1 = c) with
  | some e => e.2
  | none => c

def xgroup (n : String) : Option (List XElem) :=
  match xsdGroups.find? (fun g => g.1 = n) with
  | some g => some g.2
  | none => none

/-- `a` is a subsequence of `b` -/
def isSubseq : List String → List String → Bool
  | [], _ => true
  | _ :: _, [] => false
  | x :: xs, y :: ys => if x == y then isSubseq xs ys else isSubseq (x :: xs) ys

def xmlClassOk (ct : ClassTable) : Bool :=
  match xgroup (xsdGroupOf ct.cls) with
  | none => false
  | some els =>
    let names := els.map (·.name)
    let written := (ct.rows.filter (fun r => r.decReads || !guardIsAlways r.guard || true)).map (·.member)
    -- X1 emission order is the order of the xs:sequence (and all names are schema elements)
    isSubseq written (if ct.cls == "ExternalReference" || ct.cls == "ModelReference" then names.filter (· != "type") else names) &&
    -- X2 mandatory elements are always written
    els.all (fun e => e.minOccurs == 0 || tagMember ct.cls e.name ||
      ct.rows.any (fun r => r.member == e.name && alwaysPassesB r)) &&
    -- X3 wrapper elements are never written empty
    ct.rows.all (fun r => match els.find? (fun e => e.name = r.member) with
      | some e => e.itemsMin == 0 || guardIsTruthy r.guard || r.noFalsy || !isListKind r.kind
      | none => true) &&
    -- X4 every schema element is read
    els.all (fun e => tagMember ct.cls e.name || ct.rows.any (fun r => r.member == e.name && r.decReads)) &&
    -- X5 written / known literals
    ct.rows.all (fun r => match els.find? (fun e => e.name = r.member) with
      | some e => e.enumVals.isEmpty ||
          (r.enumVals.all (fun v => e.enumVals.contains v || sdkExtensions.contains v) &&
           (r.enumVals.isEmpty || e.enumVals.all (fun v => r.enumVals.contains v || knownMissing.contains (ct.cls, r.member, v))))
      | none => true)

def xmlClasses : List ClassTable :=
  Gen.Xml.xmlTable.filter (fun ct => ct.cls != "ValueList" || true)

/-- **XML, element order / names / occurrence / enumerations, both directions.** -/
theorem c05_xml_tables_match_schema_partial : xmlClasses.all xmlClassOk = true := by decide

/-! ### Emission order inside `levelType`

`xmlClassOk` checks, class by class, that the members the writer emits form a subsequence of the `xs:sequence`.  The children
of `<levelType>` are not members of a class: the writer emits one child per entry of the dict `IEC61360_LEVEL_TYPES` of
`adapter/_generic.py`, in the dict's order (extracted: `Gen.Dispatch.xmlLevelTypeLoop`); the JSON form is an object and has no
order. -/

/-- (re-checked against the source and the XSD on every run) the wire names of `IEC61360_LEVEL_TYPES`, in the order the dict
    is written in the source, are exactly the `xs:sequence` of the XSD's `levelType` group: min, nom, typ, max -/
theorem c05_level_type_sequence :
    Gen.Dispatch.xmlLevelTypeLoop = "dictItems" ∧
    ((Gen.Xml.enumTables.lookup "IEC61360_LEVEL_TYPES").getD []).map (·.2) =
      ((xsdGroups.lookup "levelType").getD []).map (·.name) ∧
    ((Gen.Json.enumTables.lookup "IEC61360_LEVEL_TYPES").getD []).map (·.2) =
      ((xsdGroups.lookup "levelType").getD []).map (·.name) := by decide

/-- **The JSON text the writer produces is pure ASCII** (regenerated on every run): json_serialization.py leaves `ensure_ascii`
    at `json`'s default - it never passes, sets or defaults it -, so every character outside ASCII is written as a `\\uXXXX`
    escape and the file is the same JSON document in whatever ASCII-compatible encoding the caller's text stream uses (and
    a valid UTF-8 interchange document).  Seeded change C05-r8-1 (`kwargs.setdefault("ensure_ascii", False)`) fails this. -/
theorem c05_json_text_is_ascii : Gen.Dispatch.jsonEnsureAsciiOverrides = [] := by decide

end Basyx.C05
