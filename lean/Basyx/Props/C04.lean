/-
  C04 — XML serialisation round-trips every model without loss.

  Same generic development as C03 (`Basyx.Codec.rt_val`), instantiated with the member table REGENERATED from
  xml_serialization.py / xml_deserialization.py on every run (`Basyx/Gen/XmlTable.lean`): per class the child
  elements in emission order, the writer's guards, how the reader looks each child up (`find` optional /
  mandatory), which text helper it uses (`_get_text_or_none` ↦ `asNone`, `_get_text_or_empty_string_or_none` ↦
  `exact`, `_child_text_mandatory` ↦ `asError`), wrapper item tags and the `not cls.stripped` guards.
  The lexical channel serialise → parse of libxml2 is modelled as: leaf text survives unchanged except that an
  empty text is indistinguishable from no text (`tok ""`); this assumption is re-checked by the correspondence run
  on the whitespace / CR / LF / TAB / `<` / `&` / `]]>` / astral stress pools.
-/
import Basyx.Lemmas.Codec
import Basyx.Gen.XmlTable
import Basyx.Lemmas.Dispatch
namespace Basyx.C04
open Basyx.Codec Basyx.Gen.Xml

theorem c04_translator_complete : unrecognised = [] := by decide

/-- **The table obligation** (re-checked on every run).  In addition to C03's conditions: for every leaf whose SPEC
    domain contains the empty string the reader uses the empty-preserving text helper; list item tags of writer and
    reader agree (folded into `decReads`). -/
theorem c04_tables_wf : wfTableB xmlTable = true := by decide

/-- **Round trip, all values**: strict reading of what the XML writer produced returns the value, at every depth. -/
theorem c04_roundtrip (k : Kind) (v : Val) (h : ConfV xmlTable k v) :
    dec xmlTable false k (enc xmlTable false v) = .ok v := by
  have := rt_val xmlTable false false (wf_of_wfTableB _ c04_tables_wf) k v h
  rwa [Bool.or_false, strip_false] at this

/-- The stripped XML reader yields the value with exactly the detachable parts removed (C18, XML side). -/
theorem c04_stripped_reader (k : Kind) (v : Val) (h : ConfV xmlTable k v) :
    dec xmlTable true k (enc xmlTable false v) = .ok (strip xmlTable true v) := by
  have := rt_val xmlTable false true (wf_of_wfTableB _ c04_tables_wf) k v h
  rwa [Bool.false_or] at this

def lookup (k : String) (l : List (String × String)) : Option String :=
  match l.find? (fun e => e.1 = k) with
  | some e => some e.2
  | none => none

/-- The reader's tag dispatch (`construct_submodel_element`, `construct_data_element`,
    `construct_data_specification_content`) sends every tag the writer uses for a polymorphic element back to the
    class it came from. -/
theorem c04_dispatch_agrees :
    readerDispatch.all (fun e => classOfTag xmlTable e.1 == some e.2) = true := by decide

def ancestorsOf (c : String) : List String :=
  match ancestors.find? (fun e => e.1 = c) with
  | some e => e.2
  | none => []

/-- which serialiser does `object_to_xml_element` pick for an object of class `c` (first isinstance match) -/
def pickWriter (c : String) : Option String :=
  match writerDispatch.find? (fun e => (ancestorsOf c).contains e.1) with
  | some e => some e.2
  | none => none

/-- **Single-object writer**: every concrete class reaches its own serialiser through the first-match isinstance
    chain (no earlier branch for a base class shadows it). -/
theorem c04_single_object_writer :
    writerFunc.all (fun e => pickWriter e.1 == some e.2) = true := by decide

/-- **Single-object reader**: every class whose constructor the decoder has is reachable through
    `read_aas_xml_element`, under a constructable member that is declared in the enumeration. -/
theorem c04_single_object_reader :
    readerFunc.all (fun e => constructables.any (fun c => c.2 == e.2 && constructableMembers.contains c.1)) = true := by
  decide

/-- Enumeration members without a constructor (documented as unsupported). -/
def unsupportedConstructables : List String :=
  constructableMembers.filter (fun m => !(constructables.any (fun c => c.1 == m)))

theorem c04_unsupported_constructables : unsupportedConstructables = ["SECURITY", "IEC61360_CONCEPT_DESCRIPTION"] := by
  decide

/-! non-vacuity -/
def demoBlob : Val :=
  .node "Blob" [.list [], .none, .tok "b" false, .none, .none, .none, .list [], .list [], .list [],
                .tok "" true, .tok "application/pdf" false]

/-! ### Instances of application-defined subclasses (see `Props/C03.lean`): the XML writer dispatches with `isinstance`
throughout (tags are fixed per serialiser function); how `object_store_to_xml_element` sorts a store's objects is regenerated. -/

open Basyx.Dispatch in
theorem c04_class_dispatch :
    sortByOf Gen.Dispatch.xmlStoreBy = some .isinstance ∧
    Gen.Dispatch.xmlStoreRows.map (·.1) = ["AssetAdministrationShell", "Submodel", "ConceptDescription"] ∧
    (Gen.Dispatch.xmlStoreRows.map (·.2)).Nodup := by decide

open Basyx.Dispatch in
theorem c04_subclass_instances_sorted_alike (ns : List String) (c : PyClass)
    (hr : ∀ n ∈ ns, ∀ r ∈ Gen.Dispatch.xmlStoreRows, r.1 ≠ n) :
    listOf .isinstance Gen.Dispatch.xmlStoreRows (deriveMany ns c) = listOf .isinstance Gen.Dispatch.xmlStoreRows c :=
  listOf_deriveMany _ ns c hr

end Basyx.C04
