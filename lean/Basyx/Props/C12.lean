/-
  C12 — Updating a live object from a fresh copy makes it equal while keeping identity.
  Model: `Basyx/Model/Update.lean` (the tree with fixes/C12-update-nss-complete.patch).  `updateFrom live other us`
  returns the updated live tree, the objects removed from it, and the exception (if any).
  All theorems quantify over ALL pairs of trees (any depth / branching); the deep ones are proved by mutual
  structural induction on `other` (Lemmas/Update.lean).
-/
import Basyx.Lemmas.Update
namespace Basyx.Update
open Basyx

/-! ### the root keeps its identity, class and parent (whether or not the update raises) -/

theorem c12_root_identity (live other : Node) (us : Bool) :
    (updateFrom live other us).live.hdr.uid = live.hdr.uid ∧
    (updateFrom live other us).live.hdr.parent = live.hdr.parent ∧
    (updateFrom live other us).live.hdr.cls = live.hdr.cls ∧
    (updateFrom live other us).live.hdr.kind = live.hdr.kind := by
  simp [updateFrom_hdr, copyPlain]

/-! ### the backend source of the root changes iff asked for -/

theorem c12_source_kept (live other : Node) (hn : (AList.keys other.hdr.plain).Nodup) :
    source (updateFrom live other false).live = source live := by
  simp [source, updateFrom_hdr, copyPlain, get_copyVars false "source" _ _ hn]

theorem c12_source_updated (live other : Node) (hn : (AList.keys other.hdr.plain).Nodup) (v : PVal)
    (hv : source other = some v) : source (updateFrom live other true).live = some v := by
  simp only [source] at hv
  simp [source, updateFrom_hdr, copyPlain, get_copyVars true "source" _ _ hn, hv]

/-! ### every other attribute of the root becomes the copy's — the very same value object
    (this is equality of the root's attributes AND the aliasing finding: `ref` and `hook` are the copy's) -/

theorem c12_root_attributes (live other : Node) (us : Bool) (hn : (AList.keys other.hdr.plain).Nodup)
    (n : String) (v : PVal) (hs : n ≠ "source") (hv : AList.get n other.hdr.plain = some v) :
    AList.get n (updateFrom live other us).live.hdr.plain = some v ∧
    (updateFrom live other us).live.hdr.key = other.hdr.key := by
  simp [updateFrom_hdr, copyPlain, get_copyVars us n _ _ hn, hs, hv]

/-! ### removed children are detached: every object the update removes from the live tree (at any depth)
    ends with `parent = None`, whether or not the update raises later -/

theorem c12_detached (live other : Node) (us : Bool) :
    ∀ d ∈ (updateFrom live other us).det, d.hdr.parent = none :=
  det_updateFrom (fun d => d.hdr.parent = none) detach_parent other live us

/-! ### children: what a merged NamespaceSet contains after a successful `update_nss_from`
    (`updateNss` is exactly what `update_from` runs for every NamespaceSet attribute, at every depth) -/

/-- Every member of the merged set is (a) the live object that was stored under the SAME key, updated in place by the
    recursive `update_from` (Referable of the same class) or attribute copy (Qualifier/Extension) from the object of the
    copy that carries this key — so it keeps its identity, and the statement applies again to its own sets (every depth);
    or (b) an object of the copy, adopted: its parent is the live namespace and it is filed under its current key;
    or (c) an untouched member of the live set. -/
theorem c12_merged_set_members (puid : Uid) (lsh osh : SetHdr) (sib : List Key) (litems oitems : Items)
    (he : (updateNss puid lsh osh sib litems oitems).err = none) (k : Key) (n : Node)
    (hm : (k, n) ∈ (updateNss puid lsh osh sib litems oitems).items) :
    (∃ l o bk, (bk, o) ∈ oitems ∧ o.hdr.key = k ∧ AList.get k litems = some l ∧ n.hdr.uid = l.hdr.uid ∧
        n.hdr.parent = l.hdr.parent ∧ n.hdr.key = k ∧
        ((o.hdr.kind = Kind.referable ∧ l.hdr.cls = o.hdr.cls ∧ n = (updateFrom l o true).live) ∨
         (o.hdr.kind ≠ Kind.referable ∧ n = copyItem l o))) ∨
    (∃ o bk, (bk, o) ∈ oitems ∧ n.hdr.uid = o.hdr.uid ∧ n.hdr.parent = some puid ∧ n.hdr.key = k ∧ k ≠ Key.none ∧
        n.hdr.cls = o.hdr.cls ∧ n.hdr.plain = o.hdr.plain ∧ n.sets = o.sets) ∨
    (k, n) ∈ litems := by
  rcases members_updateNss puid lsh osh sib litems oitems he k n hm with h | ⟨l, o, bk, h1, h2, h3, h4⟩ | ⟨o, bk, pr, h1, h2⟩
  · exact Or.inr (Or.inr h)
  · refine Or.inl ⟨l, o, bk, h1, h2, h3, ?_, ?_, ?_, h4⟩
    · rcases h4 with ⟨_, _, rfl⟩ | ⟨_, rfl⟩
      · simp [updateFrom_hdr, copyPlain]
      · cases l; simp [copyItem, Node.setHdr, Node.hdr]
    · rcases h4 with ⟨_, _, rfl⟩ | ⟨_, rfl⟩
      · simp [updateFrom_hdr, copyPlain]
      · cases l; simp [copyItem, Node.setHdr, Node.hdr]
    · rcases h4 with ⟨_, _, rfl⟩ | ⟨_, rfl⟩
      · simp [updateFrom_hdr, copyPlain, h2]
      · cases l; simp only [copyItem, Node.setHdr, Node.hdr]; exact h2
  · obtain ⟨a1, a2, a3, a4, _, a6, a7, a8⟩ := adopt_ok h2
    exact Or.inr (Or.inl ⟨o, bk, h1, a1, a2, a3, a4, a6, a7, a8⟩)

/-- the fix: a matched Qualifier / Extension becomes equal to the copy's (all attributes; same class and attribute
    names, no sets) while staying the same object -/
theorem c12_item_updated (l o : Node) (b : Bool) (hc : l.hdr.cls = o.hdr.cls)
    (hk : AList.keys l.hdr.plain = AList.keys o.hdr.plain) (hn : (AList.keys o.hdr.plain).Nodup)
    (hl : l.sets = []) (ho : o.sets = []) (hs : AList.get "source" o.hdr.plain = none) :
    canon b (copyItem l o) = canon b o ∧ (copyItem l o).hdr.uid = l.hdr.uid := by
  cases l with
  | mk lh ls =>
    cases o with
    | mk oh os =>
      simp only [Node.sets] at hl ho
      subst hl; subst ho
      simp only [Node.hdr] at hc hk hn hs
      have := canonPlain_copyVars true oh.plain lh.plain hk hn
      simp [copyItem, Node.setHdr, Node.hdr, canon, canonSets, hc, this]

/-- equality of the root's own attributes (class, identifying attribute, every plain attribute but `source`) for ANY
    pair of trees of one shape -/
theorem c12_equal_root (live other : Node) (us : Bool)
    (hk : AList.keys live.hdr.plain = AList.keys other.hdr.plain) (hn : (AList.keys other.hdr.plain).Nodup) :
    canonPlain (updateFrom live other us).live.hdr.plain = canonPlain other.hdr.plain ∧
    (updateFrom live other us).live.hdr.key = other.hdr.key := by
  simp [updateFrom_hdr, copyPlain, canonPlain_copyVars us _ _ hk hn]

/-! ### non-vacuity and witnesses (concrete trees) -/

def pv (s : String) : PVal := ⟨0, none, s⟩
def leaf (u : Uid) (par : Option Uid) (k : String) (v : String) : Node :=
  .mk ⟨u, "Property", .referable, par, .str k, [("_value", pv v), ("source", pv "")]⟩ []
def opSets (i o : Items) : Sets :=
  [(⟨"input_variable", "id_short", false⟩, i), (⟨"output_variable", "id_short", false⟩, o)]
def op (u : Uid) (i o : Items) : Node :=
  .mk ⟨u, "Operation", .referable, none, .str "op", [("source", pv "")]⟩ (opSets i o)

/-- a removed child exists and is detached (the hypothesis of `c12_detached` is satisfiable) -/
example : ((updateFrom (op 1 [(.str "a", leaf 2 (some 1) "a" "1")] []) (op 10 [] []) false).det.map
    (fun d => (d.hdr.uid, d.hdr.parent))) = [(2, none)] := by decide

/-- KNOWN FINDING (proved negation of "every update of a valid copy succeeds"): a variable that moved from the output
    set to the input set makes `update_from` raise AASd-022 (sets are merged one after the other). -/
theorem c12_moved_variable_raises :
    (updateFrom (op 1 [] [(.str "v", leaf 2 (some 1) "v" "1")])
                (op 10 [(.str "v", leaf 12 (some 10) "v" "1")] []) false).err = some (.aascv 22) := by decide

/-- the opposite move succeeds (the set that loses the variable is merged first) -/
example : (updateFrom (op 1 [(.str "v", leaf 2 (some 1) "v" "1")] [])
                (op 10 [] [(.str "v", leaf 12 (some 10) "v" "1")]) false).err = none := by decide

/-- KNOWN FINDING: updating a *contained* element from a copy with another id_short changes the element's id_short
    but nothing tells its parent: the parent's index still files it under the old key. -/
theorem c12_contained_root_renamed_witness :
    (updateFrom (leaf 2 (some 1) "x" "1") (leaf 12 none "y" "2") false).live.hdr.key = .str "y" ∧
    (updateFrom (leaf 2 (some 1) "x" "1") (leaf 12 none "y" "2") false).live.hdr.parent = some 1 := by decide

/-! ### equality at every depth — TESTS on concrete nested trees (kernel-evaluated `decide`, not a theorem for all
    trees; the general statement `canon (updateFrom l n).live = canon n` is exercised by the correspondence run and the
    oracle; see design/C12.md "what is missing") -/

def qual (u : Uid) (par : Option Uid) (t v : String) : Node :=
  .mk ⟨u, "Qualifier", .qualifier, par, .str t, [("_value", pv v)]⟩ []
def smc (u : Uid) (par : Option Uid) (k : String) (cat : String) (q : Items) (v : Items) : Node :=
  .mk ⟨u, "SubmodelElementCollection", .referable, par, .str k, [("_category", pv cat), ("source", pv "")]⟩
    [(⟨"qualifier", "type", false⟩, q), (⟨"value", "id_short", false⟩, v)]

mutual
def ceq : CTree → CTree → Bool
  | .mk c k p s, .mk c' k' p' s' => c == c' && k == k' && p == p' && ceqSets s s'
def ceqSets : List (String × List CTree) → List (String × List CTree) → Bool
  | [], [] => true
  | (n, l) :: r, (n', l') :: r' => n == n' && ceqList l l' && ceqSets r r'
  | _, _ => false
def ceqList : List CTree → List CTree → Bool
  | [], [] => true
  | a :: r, a' :: r' => ceq a a' && ceqList r r'
  | _, _ => false
end

def liveT : Node := smc 1 none "root" "A" [(.str "q", qual 2 (some 1) "q" "1")]
  [(.str "x", smc 3 (some 1) "x" "B" [(.str "q", qual 4 (some 3) "q" "1")] [(.str "y", leaf 5 (some 3) "y" "1")]),
   (.str "gone", leaf 6 (some 1) "gone" "0")]
def newT : Node := smc 11 none "root" "A2" [(.str "q", qual 12 (some 11) "q" "2"), (.str "q2", qual 17 (some 11) "q2" "9")]
  [(.str "x", smc 13 (some 11) "x" "B2" [(.str "q", qual 14 (some 13) "q" "3")] [(.str "y", leaf 15 (some 13) "y" "7"),
      (.str "z", leaf 18 (some 13) "z" "8")]),
   (.str "new", leaf 16 (some 11) "new" "0")]

/-- a three-level update with changed qualifier values, attribute changes, an added and a removed child at two levels:
    succeeds, is equal at every depth, keeps the identity of root / child / grandchild / qualifiers, detaches `gone` -/
example : (updateFrom liveT newT false).err = none := by decide
example : ceq (canon false (updateFrom liveT newT false).live) (canon false newT) = true := by decide
example : (child (updateFrom liveT newT false).live "value" (.str "x")).map (·.hdr.uid) = some 3 := by decide
example : ((child (updateFrom liveT newT false).live "value" (.str "x")).bind
    (fun x => child x "value" (.str "y"))).map (·.hdr.uid) = some 5 := by decide
example : ((child (updateFrom liveT newT false).live "value" (.str "x")).bind
    (fun x => child x "qualifier" (.str "q"))).map (fun q => (q.hdr.uid, q.hdr.plain)) = some (4, [("_value", pv "3")]) := by decide
example : (updateFrom liveT newT false).det.map (fun d => (d.hdr.uid, d.hdr.parent)) = [(6, none)] := by decide

/-! ### Ordered lists are refreshed in the copy's order

The children of a `SubmodelElementList` are filed under generated names (`generated_submodel_list_hack_<uuid1>`), fresh for
every list object; a freshly read copy therefore never shares a name with the live list, `update_nss_from` matches nothing,
removes every live item and adopts the copy's items one after the other. -/

/-- **Order of a refreshed list** (any number of items, any nesting inside the items): if no object of the copy's set has a
    namesake in the live set - which is what fresh generated names give - and the call does not raise, the live set afterwards
    holds exactly the copy's objects, in the copy's order.  (The hypothesis is the freshness of the generated names: with names
    drawn from a per-list counter the seeded changes C12-r6-3 / C14-r5-2 made live and copied items match by accident, and the
    refreshed list came out in the wrong order.) -/
theorem c12_list_refreshed_in_copy_order (puid : Uid) (lsh osh : SetHdr) (sib : List Key) (litems oitems : Items)
    (hfresh : ∀ p ∈ oitems, p.2.hdr.kind ≠ Kind.other ∧ AList.get p.2.hdr.key litems = none)
    (hattr : lsh.keyAttr = osh.keyAttr)
    (hkeys : ∀ k ∈ AList.keys litems, k ∉ AList.keys oitems)
    (he : (updateNss puid lsh osh sib litems oitems).err = none) :
    (updateNss puid lsh osh sib litems oitems).items.map (fun p => p.2.hdr.uid) = oitems.map (fun p => p.2.hdr.uid) :=
  updateNss_disjoint_order puid lsh osh sib litems oitems hfresh hattr hkeys he

/-- a list item as the model sees it -/
def listItem (u : Uid) (parent : Uid) : Node := .mk ⟨u, "Property", .referable, some parent, .gen u, []⟩ []

-- a live list [2, 3] refreshed from a copy [13, 12, 14]: no error, and the copy's objects in the copy's order
example : (updateNss 1 ⟨"value", "id_short", true⟩ ⟨"value", "id_short", true⟩ []
      [(.gen 2, listItem 2 1), (.gen 3, listItem 3 1)]
      [(.gen 13, listItem 13 10), (.gen 12, listItem 12 10), (.gen 14, listItem 14 10)]).err = none ∧
    (updateNss 1 ⟨"value", "id_short", true⟩ ⟨"value", "id_short", true⟩ []
      [(.gen 2, listItem 2 1), (.gen 3, listItem 3 1)]
      [(.gen 13, listItem 13 10), (.gen 12, listItem 12 10), (.gen 14, listItem 14 10)]).items.map (fun p => p.2.hdr.uid)
      = [13, 12, 14] := by decide

end Basyx.Update
