/-
  C12 — Updating a live object from a fresh copy makes it equal while keeping identity.
  Model: `Basyx/Model/Update.lean` (the tree with fixes/C12-update-nss-complete.patch).  `updateFrom live other us`
  returns the updated live tree, the objects removed from it, and the exception (if any).
  All theorems quantify over ALL pairs of trees (any depth / branching); the deep ones are proved by mutual
  structural induction on `other` (Lemmas/Update.lean).
-/
import Basyx.Lemmas.Update
namespace Basyx.Update
open Basyx

/-! ### the root keeps its identity, class and parent (whether or not the update raises) -/

theorem c12_root_identity (live other : Node) (us : Bool) :
    (updateFrom live other us).live.hdr.uid = live.hdr.uid ∧
    (updateFrom live other us).live.hdr.parent = live.hdr.parent ∧
    (updateFrom live other us).live.hdr.cls = live.hdr.cls ∧
    (updateFrom live other us).live.hdr.kind = live.hdr.kind := by
  simp [updateFrom_hdr, copyPlain]

/-! ### the backend source of the root changes iff asked for -/

theorem c12_source_kept (live other : Node) (hn : (AList.keys other.hdr.plain).Nodup) :
    source (updateFrom live other false).live = source live := by
  simp [source, updateFrom_hdr, copyPlain, get_copyVars false "source" _ _ hn]

theorem c12_source_updated (live other : Node) (hn : (AList.keys other.hdr.plain).Nodup) (v : PVal)
    (hv : source other = some v) : source (updateFrom live other true).live = some v := by
  simp only [source] at hv
  simp [source, updateFrom_hdr, copyPlain, get_copyVars true "source" _ _ hn, hv]

/-! ### every other attribute of the root becomes the copy's — the very same value object
    (this is equality of the root's attributes AND the aliasing finding: `ref` and `hook` are the copy's) -/

theorem c12_root_attributes (live other : Node) (us : Bool) (hn : (AList.keys other.hdr.plain).Nodup)
    (n : String) (v : PVal) (hs : n ≠ "source") (hv : AList.get n other.hdr.plain = some v) :
    AList.get n (updateFrom live other us).live.hdr.plain = some v ∧
    (updateFrom live other us).live.hdr.key = other.hdr.key := by
  simp [updateFrom_hdr, copyPlain, get_copyVars us n _ _ hn, hs, hv]

/-! ### removed children are detached: every object the update removes from the live tree (at any depth)
    ends with `parent = None`, whether or not the update raises later -/

theorem c12_detached (live other : Node) (us : Bool) :
    ∀ d ∈ (updateFrom live other us).det, d.hdr.parent = none :=
  det_updateFrom (fun d => d.hdr.parent = none) detach_parent other live us

/-! ### non-vacuity and witnesses (concrete trees) -/

def pv (s : String) : PVal := ⟨0, none, s⟩
def leaf (u : Uid) (par : Option Uid) (k : String) (v : String) : Node :=
  .mk ⟨u, "Property", .referable, par, .str k, [("_value", pv v), ("source", pv "")]⟩ []
def opSets (i o : Items) : Sets :=
  [(⟨"input_variable", "id_short", false⟩, i), (⟨"output_variable", "id_short", false⟩, o)]
def op (u : Uid) (i o : Items) : Node :=
  .mk ⟨u, "Operation", .referable, none, .str "op", [("source", pv "")]⟩ (opSets i o)

/-- a removed child exists and is detached (the hypothesis of `c12_detached` is satisfiable) -/
example : ((updateFrom (op 1 [(.str "a", leaf 2 (some 1) "a" "1")] []) (op 10 [] []) false).det.map
    (fun d => (d.hdr.uid, d.hdr.parent))) = [(2, none)] := by decide

/-- KNOWN FINDING (proved negation of "every update of a valid copy succeeds"): a variable that moved from the output
    set to the input set makes `update_from` raise AASd-022 (sets are merged one after the other). -/
theorem c12_moved_variable_raises :
    (updateFrom (op 1 [] [(.str "v", leaf 2 (some 1) "v" "1")])
                (op 10 [(.str "v", leaf 12 (some 10) "v" "1")] []) false).err = some (.aascv 22) := by decide

/-- the opposite move succeeds (the set that loses the variable is merged first) -/
example : (updateFrom (op 1 [(.str "v", leaf 2 (some 1) "v" "1")] [])
                (op 10 [] [(.str "v", leaf 12 (some 10) "v" "1")]) false).err = none := by decide

/-- KNOWN FINDING: updating a *contained* element from a copy with another id_short changes the element's id_short
    but nothing tells its parent: the parent's index still files it under the old key. -/
theorem c12_contained_root_renamed_witness :
    (updateFrom (leaf 2 (some 1) "x" "1") (leaf 12 none "y" "2") false).live.hdr.key = .str "y" ∧
    (updateFrom (leaf 2 (some 1) "x" "1") (leaf 12 none "y" "2") false).live.hdr.parent = some 1 := by decide

end Basyx.Update
