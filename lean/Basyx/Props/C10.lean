/-
  C10 — the HTTP repository answers every request history like a map from identifier to object.
  Model: `Basyx/Model/Repo.lean`.  The reference repository (`Spec`) is a plain list of objects addressed by their OWN
  identifier (no dict keys, no exceptions, no tables): `specStep`.  `c10_refines` is the forward simulation over every
  history of repository operations (create / read / replace / delete / list with paging, of shells, submodels and concept
  descriptions) sent through the real handler code paths (`handlerOf`), from every state satisfying the store invariant;
  the clauses of the statement are the corollaries below it.  Nested elements: `c10_elem_create_get`, `c10_elem_own_idshort`.

  Full-strength clause "replaced content is what is read afterwards":  after PUT(id, n) a GET returns n.
  For shells and concept descriptions it is proved as stated (`c10_put_get_exact`).  For submodels the stored object is the
  merge `update_from(old, n)`; it coincides with `n` up to the order of children when no qualifier value / element class
  changes — FALSE in general on the pinned tree: qualifier values are not carried over (known finding
  http:PUT:qualifier-value-not-replaced, witness `c10_put_qualifier_witness`) and a class change below the node raises (C11).
  Both are repaired by C12's fix of `update_nss_from`; the theorems are stated against the probed flags
  `Gen.Routes.qualifierValueUpdated` / `classChangeReplaces`, so they follow the tree.
-/
import Basyx.Lemmas.Repo
namespace Basyx.Repo
open Basyx

/-! ## paging -/

/-- the pages obtained by following the returned cursor `fuel` times, starting at `cursor` -/
def walkPages {α : Type} (r : Req) (items : List α) (limit : Nat) : Nat → Nat → Option (List α)
  | 0, _ => some []
  | fuel + 1, cursor =>
    match getSlice { r with limit := .val limit, cursor := .val cursor } items with
    | .ok (pg, next) => (walkPages r items limit fuel next).map (pg ++ ·)
    | _ => none

private theorem getSlice_val {α : Type} (r : Req) (items : List α) (lim cur : Nat)
    (hmax : cur + lim ≤ 9223372036854775807) :
    getSlice { r with limit := .val lim, cursor := .val cur } items = .ok ((items.drop cur).take lim, cur + lim) := by
  unfold getSlice
  simp only []
  have h1 : ¬ ((lim : Int) < 0 ∨ (cur : Int) < 0 ∨ (cur : Int) + (lim : Int) > 9223372036854775807) := by omega
  rw [if_neg h1]
  simp [catching]

private theorem walkPages_eq {α : Type} (r : Req) (items : List α) (lim : Nat) (fuel cur : Nat)
    (hmax : cur + fuel * lim + lim ≤ 9223372036854775807) :
    walkPages r items lim fuel cur = some ((items.drop cur).take (fuel * lim)) := by
  induction fuel generalizing cur with
  | zero => simp [walkPages]
  | succ f ih =>
    unfold walkPages
    rw [getSlice_val r items lim cur (by rw [Nat.add_mul] at hmax; omega)]
    simp only []
    rw [ih (cur + lim) (by rw [Nat.add_mul] at hmax; omega)]
    simp only [Option.map_some]
    congr 1
    rw [Nat.add_mul, Nat.one_mul, Nat.add_comm (f * lim) lim, List.take_add, List.drop_drop]

/-- Following the paging cursor with any limit > 0 visits every element of the listing exactly once, in order:
    the concatenation of the pages is the listing itself (`islice(start, start + limit)` and `cursor + limit`). -/
theorem c10_paging {α : Type} (r : Req) (items : List α) (limit fuel : Nat) (hl : limit > 0)
    (hf : fuel * limit ≥ items.length) (hmax : fuel * limit + limit ≤ 9223372036854775807) :
    walkPages r items limit fuel 0 = some items := by
  rw [walkPages_eq r items limit fuel 0 (by omega)]
  simp [List.take_of_length_le hf]

/-- `limit = 0` is a fixed point: an empty page and the same cursor, for ever -/
theorem c10_paging_limit_zero {α : Type} (r : Req) (items : List α) (cur : Nat) (hmax : cur ≤ 9223372036854775807) :
    getSlice { r with limit := .val 0, cursor := .val cur } items = .ok ([], cur) := by
  have := getSlice_val r items 0 cur (by omega)
  simpa using this

/-- the listing handlers answer with exactly this slice of the objects of the requested kind, in store order -/
theorem c10_list_is_slice (fn : String) (k : OKind) (r : Req) (s : St) (pg : List Item) (next : Nat)
    (h : getSlice r ((allOfKind s k).map Item.obj) = .ok (pg, next)) :
    listObjs fn k r s = (s, .ok (mkResp fn 0 r none (fun st => .page (pg.map (stripIf st)) next))) := by
  simp [listObjs, listPage, getSt, M.bind', liftR, h, M.pure', pure]

/-! ## the reference repository -/

/-- repository operations (what a client means), independent of their HTTP encoding -/
inductive SemOp where
  | create (o : Obj)
  | read (k : OKind) (id : String)
  | replace (k : OKind) (id : String) (n : Obj)
  | delete (k : OKind) (id : String)
  | list (k : OKind) (limit cursor : Nat)

inductive SemOut where
  | created (o : Obj) (at_ : String)      -- 201, payload, Location naming `at_`
  | found (o : Obj)                       -- 200
  | noContent                             -- 204
  | notFound                              -- 404
  | conflict                              -- 409
  | badRequest                            -- 400
  | page (os : List Obj) (cursor : Nat)   -- 200 with paging envelope
  | other

/-- The specification: a list of objects, each addressed by its own identifier. -/
abbrev Spec := List Obj

def Spec.find (σ : Spec) (id : String) : Option Obj := σ.find? (fun o => o.id = id)

/-- replacing the content of `x` by `n` (same kind, same id): `n` itself, for submodels merged node by node so that
    surviving children keep their position (`update_from`; that this is `n` up to child order is `c10_merge_*`) -/
def specReplace (x n : Obj) : Obj := (objUpdateFrom x n).1

def specStep (σ : Spec) : SemOp → Spec × SemOut
  | .create o => if σ.any (fun x => x.id = o.id) then (σ, .conflict) else (σ ++ [o], .created o o.id)
  | .read k id =>
    (match σ.find id with
     | some o => if o.kind = k then (σ, .found o) else (σ, .notFound)
     | none => (σ, .notFound))
  | .replace k id n =>
    (match σ.find id with
     | some o =>
       if o.kind ≠ k then (σ, .notFound)
       else if n.kind ≠ k ∨ n.id ≠ id then (σ, .badRequest)
       else (σ.map (fun x => if x.id = id then specReplace x n else x), .noContent)
     | none => (σ, .notFound))
  | .delete k id =>
    (match σ.find id with
     | some o => if o.kind = k then (σ.filter (fun x => x.id ≠ id), .noContent) else (σ, .notFound)
     | none => (σ, .notFound))
  | .list k limit cursor => (σ, .page (((σ.filter (fun o => o.kind = k)).drop cursor).take limit) (cursor + limit))

def specRun (σ : Spec) : List SemOp → Spec × List SemOut
  | [] => (σ, [])
  | op :: ops =>
    let (σ', o) := specStep σ op
    let (σ'', os) := specRun σ' ops
    (σ'', o :: os)

/-! ## the same operations through the handlers -/

def topName : OKind → String × String × String × String × String
  | .shell => ("get_aas_all", "post_aas", "get_aas", "put_aas", "delete_aas")
  | .sm => ("get_submodel_all", "post_submodel", "get_submodel", "put_submodel", "delete_submodel")
  | .cd => ("get_concept_description_all", "post_concept_description", "get_concept_description", "put_concept_description",
            "delete_concept_description")

def argsFor (k : OKind) (id : String) : Args :=
  match k with
  | .shell => { aasId := id }
  | .sm => { smId := id }
  | .cd => { cdId := id }

/-- the request a client sends for an operation (JSON body, no level option); the endpoint is what routing yields for it -/
def encode : SemOp → String × Args × Req
  | .create o => ((topName o.kind).2.1, {}, { method := "POST", path := [], ctype := .json, body := .ok (.obj o) })
  | .read k id => ((topName k).2.2.1, argsFor k id, { method := "GET", path := [] })
  | .replace k id n => ((topName k).2.2.2.1, argsFor k id, { method := "PUT", path := [], ctype := .json, body := .ok (.obj n) })
  | .delete k id => ((topName k).2.2.2.2, argsFor k id, { method := "DELETE", path := [] })
  | .list k limit cursor => ((topName k).1, {}, { method := "GET", path := [], limit := .val limit, cursor := .val cursor })

def itemObj : Item → Option Obj
  | .obj o => some o
  | _ => none

/-- what the client reads off the response -/
def decodeOut : Res Resp → SemOut
  | .ok ⟨201, some (.shell i), .item (.obj o)⟩ => .created o i
  | .ok ⟨201, some (.sm i), .item (.obj o)⟩ => .created o i
  | .ok ⟨201, some (.cd i), .item (.obj o)⟩ => .created o i
  | .ok ⟨200, none, .item (.obj o)⟩ => .found o
  | .ok ⟨200, none, .page is c⟩ => .page (is.filterMap itemObj) c
  | .ok ⟨204, none, .empty⟩ => .noContent
  | .http 404 => .notFound
  | .http 409 => .conflict
  | .http 400 => .badRequest
  | .http 422 => .badRequest              -- a body of another class is rejected while decoding
  | _ => .other

def handlerStep (s : St) (op : SemOp) : St × SemOut :=
  match encode op with
  | (ep, a, r) =>
    match handlerOf ep a r with
    | some h => (match h s with | (s', res) => (s', decodeOut res))
    | none => (s, .other)

def handlerRun (s : St) : List SemOp → St × List SemOut
  | [] => (s, [])
  | op :: ops =>
    let (s', o) := handlerStep s op
    let (s'', os) := handlerRun s' ops
    (s'', o :: os)

/-- abstraction: forget the dict keys -/
def abs (s : St) : Spec := s.objs.map Prod.snd


/-! ### the dict store, seen without its keys, is the reference list (under the invariant) -/

private theorem invL_tail {k : String} {o : Obj} {t : List (String × Obj)} (h : InvL ((k, o) :: t)) :
    o.id = k ∧ k ∉ AList.keys t ∧ InvL t := by
  have hn := h.nodup
  simp only [AList.keys, List.map_cons, List.nodup_cons] at hn
  refine ⟨h.ownId k o (by simp [AList.get]), hn.1, ⟨hn.2, ?_⟩⟩
  intro k' o' hg
  apply h.ownId k' o'
  have : k ≠ k' := by
    intro e; subst e; exact hn.1 (AList.mem_keys_of_get hg)
  simp [AList.get, this, hg]

private theorem find_abs {l : List (String × Obj)} (hI : InvL l) (id : String) :
    Spec.find (l.map Prod.snd) id = AList.get id l := by
  induction l with
  | nil => rfl
  | cons hd t ih =>
    obtain ⟨k, o⟩ := hd
    obtain ⟨hid, _, ht⟩ := invL_tail hI
    simp only [Spec.find, List.map_cons, List.find?_cons, AList.get]
    by_cases hk : k = id
    · simp [hid, hk]
    · have : ¬ (o.id = id) := by rw [hid]; exact hk
      simp only [this, decide_false, hk, if_false]
      exact ih ht

private theorem any_abs {l : List (String × Obj)} (hI : InvL l) (id : String) :
    (l.map Prod.snd).any (fun x => x.id = id) = AList.has id l := by
  induction l with
  | nil => rfl
  | cons hd t ih =>
    obtain ⟨k, o⟩ := hd
    obtain ⟨hid, _, ht⟩ := invL_tail hI
    simp only [List.map_cons, List.any_cons, AList.has, AList.get]
    by_cases hk : k = id
    · simp [hid, hk]
    · have : ¬ (o.id = id) := by rw [hid]; exact hk
      simp only [this, decide_false, Bool.false_or, hk, if_false]
      exact ih ht

private theorem abs_set_new {l : List (String × Obj)} {k : String} (o : Obj) (h : AList.has k l = false) :
    (AList.set k o l).map Prod.snd = l.map Prod.snd ++ [o] := by
  induction l with
  | nil => rfl
  | cons hd t ih =>
    obtain ⟨k', o'⟩ := hd
    by_cases hk : k' = k
    · simp [AList.has, AList.get, hk] at h
    · simp only [AList.has, AList.get, hk, if_false] at h
      simp [AList.set, hk, ih h]

private theorem get_of_mem {t : List (String × Obj)} (hn : (AList.keys t).Nodup) {k : String} {x : Obj}
    (hm : (k, x) ∈ t) : AList.get k t = some x := by
  induction t with
  | nil => cases hm
  | cons hd t2 ih =>
    obtain ⟨k3, o3⟩ := hd
    simp only [AList.keys, List.map_cons, List.nodup_cons] at hn
    rcases List.mem_cons.1 hm with h | h
    · cases h; simp [AList.get]
    · have hne : k3 ≠ k := by
        intro e; subst e
        exact hn.1 (List.mem_map_of_mem (f := Prod.fst) h)
      simp only [AList.get, hne, if_false]
      exact ih hn.2 h

private theorem id_ne_of_not_key {t : List (String × Obj)} (ht : InvL t) {k : String} (hnot : k ∉ AList.keys t) :
    ∀ x ∈ t.map Prod.snd, ¬ x.id = k := by
  intro x hx he
  obtain ⟨⟨k2, x'⟩, hm, rfl⟩ := List.mem_map.1 hx
  have hg := get_of_mem ht.nodup hm
  have := ht.ownId k2 x' hg
  rw [he] at this
  subst this
  exact hnot (AList.mem_keys_of_get hg)

private theorem abs_set_old {l : List (String × Obj)} (hI : InvL l) {k : String} (o : Obj) :
    (AList.set k o l).map Prod.snd =
      if AList.has k l then (l.map Prod.snd).map (fun x => if x.id = k then o else x) else l.map Prod.snd ++ [o] := by
  induction l with
  | nil => rfl
  | cons hd t ih =>
    obtain ⟨k', o'⟩ := hd
    obtain ⟨hid, hnot, ht⟩ := invL_tail hI
    by_cases hk : k' = k
    · subst hk
      have hall := id_ne_of_not_key ht hnot
      have hmap : (t.map Prod.snd).map (fun x => if x.id = k' then o else x) = t.map Prod.snd := by
        conv => rhs; rw [← List.map_id (t.map Prod.snd)]
        apply List.map_congr_left
        intro x hx; simp [hall x hx]
      simp [AList.set, AList.has, AList.get, hid, hmap]
    · have hne : ¬ o'.id = k := by rw [hid]; exact hk
      simp only [AList.set, hk, if_false, List.map_cons, AList.has, AList.get] at ih ⊢
      rw [ih ht]
      by_cases hh : (AList.get k t).isSome = true
      · simp [hh, hne]
      · simp [hh]

private theorem abs_erase {l : List (String × Obj)} (hI : InvL l) (k : String) :
    (AList.erase k l).map Prod.snd = (l.map Prod.snd).filter (fun x => x.id ≠ k) := by
  induction l with
  | nil => rfl
  | cons hd t ih =>
    obtain ⟨k', o'⟩ := hd
    obtain ⟨hid, hnot, ht⟩ := invL_tail hI
    by_cases hk : k' = k
    · subst hk
      have hall := id_ne_of_not_key ht hnot
      have : (t.map Prod.snd).filter (fun x => !decide (x.id = k')) = t.map Prod.snd := by
        apply List.filter_eq_self.2
        intro x hx; simp [hall x hx]
      simp [AList.erase, hid, this]
    · have hne : o'.id ≠ k := by rw [hid]; exact hk
      simp [AList.erase, hk, hne, ih ht]


/-! ### exact behaviour of the four object handlers on well-formed requests -/

private theorem liftR_apply {α : Type} (r : Res α) (s : St) : liftR r s = (s, r) := rfl

private theorem set_set_same {l : List (String × Obj)} (k : String) (o : Obj) :
    AList.set k o (AList.set k o l) = AList.set k o l := by
  induction l with
  | nil => simp [AList.set]
  | cons hd t ih =>
    obtain ⟨k', o'⟩ := hd
    by_cases hk : k' = k <;> simp [AList.set, hk, ih]

private theorem postObj_exact (fn : String) (loc : String → Loc) (r : Req) (o : Obj) (s : St)
    (hrb : requestBody fn r = .ok (.obj o)) (hc : (catching fn (.py .keyError) : Res Unit) = .http 409)
    (hcm : commitsOf fn > 0) :
    postObj fn loc r s =
      if AList.has o.id s.objs then (s, .http 409)
      else ({ s with objs := AList.set o.id o s.objs },
            .ok (mkResp fn 0 r (some (loc o.id)) (fun st => .item (stripIf st (.obj o))))) := by
  unfold postObj
  simp only [M.bind_apply, M.bind', liftR_apply, hrb, tryM, storeAdd, commitObj]
  by_cases hh : AList.has o.id s.objs = true
  · simp [hh, hc]
  · by_cases hf : s.fileBacked = true
    · simp [hh, hf, hcm, catching_ok, set_set_same, M.pure', pure]
    · simp [hh, hf, catching_ok, M.pure', pure]

private theorem getObjTs_apply (id : String) (k : OKind) (s : St) :
    getObjTs id k s =
      match AList.get id s.objs with
      | some o => if o.kind = k then (s, .ok o) else (s, .http 404)
      | none => (s, .http 404) := by
  unfold getObjTs
  cases AList.get id s.objs with
  | none => simp [raise_get_obj_ts]
  | some o => by_cases hk : o.kind = k <;> simp [hk, raise_get_obj_ts]

private theorem getObj_exact (fn id : String) (k : OKind) (r : Req) (s : St) :
    getObj fn id k r s =
      match AList.get id s.objs with
      | some o => if o.kind = k then (s, .ok (mkResp fn 0 r none (fun st => .item (stripIf st (.obj o))))) else (s, .http 404)
      | none => (s, .http 404) := by
  unfold getObj
  simp only [M.bind_apply, M.bind', getObjTs_apply]
  cases AList.get id s.objs with
  | none => rfl
  | some o => by_cases hk : o.kind = k <;> simp [hk, M.pure', pure]

private theorem deleteObj_exact (fn id : String) (k : OKind) (r : Req) (s : St) (hI : Inv s) :
    deleteObj fn id k r s =
      match AList.get id s.objs with
      | some o => if o.kind = k then ({ s with objs := AList.erase id s.objs }, .ok (mkResp fn 0 r none (fun _ => .empty)))
                  else (s, .http 404)
      | none => (s, .http 404) := by
  unfold deleteObj
  simp only [M.bind_apply, M.bind', getObjTs_apply]
  cases hg : AList.get id s.objs with
  | none => rfl
  | some o =>
    have hid := hI.ownId id o hg
    by_cases hk : o.kind = k <;> simp [hk, storeRemove, hid, M.pure', pure]

private theorem putObj_exact (fn id : String) (k : OKind) (r : Req) (n : Obj) (s : St) (hI : Inv s)
    (hrb : requestBody fn r = .ok (.obj n)) (hcm : commitsOf fn > 0) :
    putObj fn id k r s =
      match AList.get id s.objs with
      | some o =>
        if o.kind ≠ k then (s, .http 404)
        else if o.kind ≠ n.kind ∨ n.id ≠ o.id then (s, .http 400)
        else match (objUpdateFrom o n).2 with
          | none => ({ s with objs := AList.set id (objUpdateFrom o n).1 s.objs }, .ok (mkResp fn 0 r none (fun _ => .empty)))
          | some e => (if s.fileBacked then s else { s with objs := AList.set id (objUpdateFrom o n).1 s.objs }, .py e)
      | none => (s, .http 404) := by
  unfold putObj
  simp only [M.bind_apply, M.bind', getObjTs_apply]
  cases hg : AList.get id s.objs with
  | none => rfl
  | some o =>
    by_cases hk : o.kind = k
    · simp only [hk, if_true, hrb, ne_eq, not_true_eq_false, if_false, M.bind_apply, M.bind', liftR_apply]
      rcases expectSameId_cases o n with ⟨he, hkn, hin⟩ | he
      · have hcond : ¬ (¬ k = n.kind ∨ ¬ n.id = o.id) := by rw [← hk]; simp [hkn, hin]
        rw [he, if_neg hcond]
        simp only [M.bind_apply, M.bind', liftR_apply]
        cases herr : (objUpdateFrom o n).2 with
        | none =>
          by_cases hf : s.fileBacked = true
          · simp [live, commitObj, hf, hcm, M.pure', pure, M.bind']
          · simp [live, commitObj, hf, M.pure', pure, M.bind']
        | some e =>
          by_cases hf : s.fileBacked = true <;> simp [live, hf, M.bind', liftR_apply]
      · have hcond : (¬ k = n.kind ∨ ¬ n.id = o.id) := by
          rw [← hk]
          unfold expectSameId at he
          by_cases h1 : o.kind = n.kind
          · by_cases h2 : n.id = o.id
            · simp [h1, h2] at he
            · exact Or.inr h2
          · exact Or.inl h1
        rw [he, if_pos hcond]
    · simp [hk]


/-! ### forward simulation -/

/-- side condition of a `replace`: `update_from` runs to completion on the stored object (always true for shells and
    concept descriptions; for submodels it excludes exactly the C11 finding — a class change below the node on a tree
    without C12's repair) -/
def opOk (s : St) : SemOp → Prop
  | .replace _ id n => ∀ o, AList.get id s.objs = some o → o.kind = n.kind → (objUpdateFrom o n).2 = none
  | _ => True

private theorem step_create (s : St) (hI : Inv s) (o : Obj) :
    (handlerStep s (.create o)).2 = (specStep (abs s) (.create o)).2 ∧
    abs (handlerStep s (.create o)).1 = (specStep (abs s) (.create o)).1 ∧
    Inv (handlerStep s (.create o)).1 ∧ (handlerStep s (.create o)).1.fileBacked = s.fileBacked := by
  have hany : (abs s).any (fun x => x.id = o.id) = AList.has o.id s.objs := any_abs hI o.id
  cases o with
  | shell i ids t refs =>
    have hx := postObj_exact "post_aas" Loc.shell { method := "POST", path := [], ctype := .json, body := .ok (.obj (.shell i ids t refs)) }
      (.shell i ids t refs) s rfl rfl (by decide)
    simp only [handlerStep, encode, topName, Obj.kind, handlerOf, hx, specStep, hany]
    by_cases hh : AList.has (Obj.shell i ids t refs).id s.objs = true
    · simp only [hh, if_true]; exact ⟨by triv, by triv, hI, by triv⟩
    · simp only [hh]
      refine ⟨rfl, ?_, inv_set hI rfl, rfl⟩
      exact abs_set_new _ (by simpa using hh)
  | sm i root =>
    have hx := postObj_exact "post_submodel" Loc.sm { method := "POST", path := [], ctype := .json, body := .ok (.obj (.sm i root)) }
      (.sm i root) s rfl rfl (by decide)
    simp only [handlerStep, encode, topName, Obj.kind, handlerOf, hx, specStep, hany]
    by_cases hh : AList.has (Obj.sm i root).id s.objs = true
    · simp only [hh, if_true]; exact ⟨by triv, by triv, hI, by triv⟩
    · simp only [hh]
      refine ⟨rfl, ?_, inv_set hI rfl, rfl⟩
      exact abs_set_new _ (by simpa using hh)
  | cd i ids t =>
    have hx := postObj_exact "post_concept_description" Loc.cd { method := "POST", path := [], ctype := .json, body := .ok (.obj (.cd i ids t)) }
      (.cd i ids t) s rfl rfl (by decide)
    simp only [handlerStep, encode, topName, Obj.kind, handlerOf, hx, specStep, hany]
    by_cases hh : AList.has (Obj.cd i ids t).id s.objs = true
    · simp only [hh, if_true]; exact ⟨by triv, by triv, hI, by triv⟩
    · simp only [hh]
      refine ⟨rfl, ?_, inv_set hI rfl, rfl⟩
      exact abs_set_new _ (by simpa using hh)


private theorem stripMode_never (r : Req) : stripMode "never" r = false := by
  simp [stripMode]

private theorem stripMode_core (r : Req) (h : r.core = false) : stripMode "core" r = false := by
  simp [stripMode, h]

private theorem map_stripIf_false (l : List Item) : l.map (stripIf false) = l := by
  induction l with
  | nil => rfl
  | cons a t ih => simp [stripIf, ih]

private theorem step_read (s : St) (hI : Inv s) (k : OKind) (id : String) :
    (handlerStep s (.read k id)).2 = (specStep (abs s) (.read k id)).2 ∧
    abs (handlerStep s (.read k id)).1 = (specStep (abs s) (.read k id)).1 ∧
    Inv (handlerStep s (.read k id)).1 ∧ (handlerStep s (.read k id)).1.fileBacked = s.fileBacked := by
  have hf : (abs s).find id = AList.get id s.objs := find_abs hI id
  cases k <;>
  · simp only [handlerStep, encode, topName, argsFor, handlerOf, getObj_exact, specStep, hf]
    cases hg : AList.get id s.objs with
    | none => exact ⟨by triv, by triv, hI, by triv⟩
    | some o =>
      simp only []
      split <;> exact ⟨by triv, by triv, hI, by triv⟩

private theorem step_delete (s : St) (hI : Inv s) (k : OKind) (id : String) :
    (handlerStep s (.delete k id)).2 = (specStep (abs s) (.delete k id)).2 ∧
    abs (handlerStep s (.delete k id)).1 = (specStep (abs s) (.delete k id)).1 ∧
    Inv (handlerStep s (.delete k id)).1 ∧ (handlerStep s (.delete k id)).1.fileBacked = s.fileBacked := by
  have hf : (abs s).find id = AList.get id s.objs := find_abs hI id
  have he : abs { s with objs := AList.erase id s.objs } = (abs s).filter (fun x => x.id ≠ id) := abs_erase hI id
  have hie : Inv { s with objs := AList.erase id s.objs } := inv_erase hI id
  cases k <;>
  · simp only [handlerStep, encode, topName, argsFor, handlerOf, deleteObj_exact _ _ _ _ _ hI, specStep, hf]
    cases hg : AList.get id s.objs with
    | none => exact ⟨by triv, by triv, hI, by triv⟩
    | some o =>
      simp only []
      split
      · exact ⟨by triv, he, hie, by triv⟩
      · exact ⟨by triv, by triv, hI, by triv⟩

private theorem step_list (s : St) (hI : Inv s) (k : OKind) (lim cur : Nat) (hmax : cur + lim ≤ 9223372036854775807) :
    (handlerStep s (.list k lim cur)).2 = (specStep (abs s) (.list k lim cur)).2 ∧
    abs (handlerStep s (.list k lim cur)).1 = (specStep (abs s) (.list k lim cur)).1 ∧
    Inv (handlerStep s (.list k lim cur)).1 ∧ (handlerStep s (.list k lim cur)).1.fileBacked = s.fileBacked := by
  have hmapped : ∀ (l : List Obj), List.filterMap itemObj (l.map Item.obj) = l := by
    intro l; induction l with
    | nil => rfl
    | cons a t ih => simp [itemObj, ih]
  cases k with
  | shell =>
    have hs := getSlice_val { method := "GET", path := [] } ((allOfKind s .shell).map Item.obj) lim cur hmax
    simp only [handlerStep, encode, topName, handlerOf, specStep]
    rw [c10_list_is_slice _ _ _ _ _ _ hs]
    refine ⟨?_, by triv, hI, by triv⟩
    show SemOut.page (List.filterMap itemObj (List.map (stripIf _) _)) _ = _
    have hcore : ∀ (l c : QInt), stripMode "core" { method := "GET", path := [], limit := l, cursor := c } = false :=
      fun l c => stripMode_core _ rfl
    simp only [stripMode_never, hcore, Bool.false_and, map_stripIf_false, ← List.map_drop, ← List.map_take, hmapped]
    rfl
  | sm =>
    have hs := getSlice_val { method := "GET", path := [] } ((allOfKind s .sm).map Item.obj) lim cur hmax
    simp only [handlerStep, encode, topName, handlerOf, specStep]
    rw [c10_list_is_slice _ _ _ _ _ _ hs]
    refine ⟨?_, by triv, hI, by triv⟩
    show SemOut.page (List.filterMap itemObj (List.map (stripIf _) _)) _ = _
    have hcore : ∀ (l c : QInt), stripMode "core" { method := "GET", path := [], limit := l, cursor := c } = false :=
      fun l c => stripMode_core _ rfl
    simp only [stripMode_never, hcore, Bool.false_and, map_stripIf_false, ← List.map_drop, ← List.map_take, hmapped]
    rfl
  | cd =>
    have hs := getSlice_val { method := "GET", path := [] } ((allOfKind s .cd).map Item.obj) lim cur hmax
    simp only [handlerStep, encode, topName, handlerOf, specStep]
    rw [c10_list_is_slice _ _ _ _ _ _ hs]
    refine ⟨?_, by triv, hI, by triv⟩
    show SemOut.page (List.filterMap itemObj (List.map (stripIf _) _)) _ = _
    have hcore : ∀ (l c : QInt), stripMode "core" { method := "GET", path := [], limit := l, cursor := c } = false :=
      fun l c => stripMode_core _ rfl
    simp only [stripMode_never, hcore, Bool.false_and, map_stripIf_false, ← List.map_drop, ← List.map_take, hmapped]
    rfl


private theorem requestBody_put (k : OKind) (n : Obj) :
    requestBody (topName k).2.2.2.1 { method := "PUT", path := [], ctype := .json, body := .ok (.obj n) } =
      if n.kind = k then .ok (.obj n) else .http 422 := by
  cases k <;> cases n <;> rfl

private theorem unique_id {l : List (String × Obj)} (hI : InvL l) {id : String} {o : Obj} (hg : AList.get id l = some o) :
    ∀ x ∈ l.map Prod.snd, x.id = id → x = o := by
  intro x hx he
  obtain ⟨⟨k2, x'⟩, hm, rfl⟩ := List.mem_map.1 hx
  have hg2 := get_of_mem hI.nodup hm
  have := hI.ownId k2 x' hg2
  simp only at he
  rw [he] at this; subst this
  rw [hg] at hg2; cases hg2; rfl

private theorem step_replace (s : St) (hI : Inv s) (k : OKind) (id : String) (n : Obj) (hok : opOk s (.replace k id n)) :
    (handlerStep s (.replace k id n)).2 = (specStep (abs s) (.replace k id n)).2 ∧
    abs (handlerStep s (.replace k id n)).1 = (specStep (abs s) (.replace k id n)).1 ∧
    Inv (handlerStep s (.replace k id n)).1 ∧ (handlerStep s (.replace k id n)).1.fileBacked = s.fileBacked := by
  have hf : (abs s).find id = AList.get id s.objs := find_abs hI id
  have hho : handlerOf (topName k).2.2.2.1 (argsFor k id) { method := "PUT", path := [], ctype := .json, body := .ok (.obj n) } =
      some (putObj (topName k).2.2.2.1 id k { method := "PUT", path := [], ctype := .json, body := .ok (.obj n) }) := by
    cases k <;> rfl
  have hcm : commitsOf (topName k).2.2.2.1 > 0 := by cases k <;> decide
  have hresp : ∀ r : Req, decodeOut (.ok (mkResp (topName k).2.2.2.1 0 r none (fun _ => .empty))) = .noContent := by
    intro r; cases k <;> rfl
  simp only [handlerStep, encode, hho, specStep, hf]
  cases hg : AList.get id s.objs with
  | none =>
    -- unknown id: 404 whatever the body (the lookup precedes the decoding)
    have : putObj (topName k).2.2.2.1 id k { method := "PUT", path := [], ctype := .json, body := .ok (.obj n) } s = (s, .http 404) := by
      unfold putObj
      simp only [M.bind_apply, M.bind', getObjTs_apply, hg]
    rw [this]
    exact ⟨by triv, by triv, hI, by triv⟩
  | some o =>
    have hid : o.id = id := hI.ownId id o hg
    simp only []
    by_cases hk : o.kind = k
    · by_cases hnk : n.kind = k
      · have hrb := requestBody_put k n
        rw [if_pos hnk] at hrb
        rw [putObj_exact _ _ _ _ n s hI hrb hcm, hg]
        simp only [hk, ne_eq, not_true_eq_false, if_false]
        by_cases hni : n.id = id
        · have hc1 : ¬ (¬ k = n.kind ∨ ¬ n.id = o.id) := by simp [hnk, hni, hid]
          have hc2 : ¬ (¬ n.kind = k ∨ ¬ n.id = id) := by simp [hnk, hni]
          rw [if_neg hc1, if_neg hc2]
          have herr := hok o hg (by rw [hk, hnk])
          rw [herr]
          simp only [hresp]
          refine ⟨by triv, ?_, inv_set hI (by rw [(objUpdateFrom_spec (by rw [hk, hnk])).1, hni]), by triv⟩
          show abs { s with objs := AList.set id (objUpdateFrom o n).1 s.objs } = _
          have hhas : AList.has id s.objs = true := by simp [AList.has, hg]
          have := abs_set_old hI (k := id) (objUpdateFrom o n).1
          rw [hhas, if_pos rfl] at this
          simp only [abs]
          rw [this]
          apply List.map_congr_left
          intro x hx
          by_cases hx2 : x.id = id
          · have := unique_id hI hg x hx hx2
            subst this
            simp [hx2, specReplace]
          · simp [hx2]
        · have hc1 : (¬ k = n.kind ∨ ¬ n.id = o.id) := Or.inr (by rw [hid]; exact hni)
          have hc2 : (¬ n.kind = k ∨ ¬ n.id = id) := Or.inr hni
          rw [if_pos hc1, if_pos hc2]
          exact ⟨by triv, by triv, hI, by triv⟩
      · -- a body of another class: rejected by the decoder (422) / by the reference repository (bad request)
        have hrb := requestBody_put k n
        rw [if_neg hnk] at hrb
        have : putObj (topName k).2.2.2.1 id k { method := "PUT", path := [], ctype := .json, body := .ok (.obj n) } s = (s, .http 422) := by
          unfold putObj
          simp only [M.bind_apply, M.bind', getObjTs_apply, hg, hk, if_true, liftR_apply, hrb]
        rw [this]
        have hc2 : (¬ n.kind = k ∨ ¬ n.id = id) := Or.inl hnk
        simp only [hk, ne_eq, not_true_eq_false, if_false, if_pos hc2]
        exact ⟨by triv, by triv, hI, by triv⟩
    · have : putObj (topName k).2.2.2.1 id k { method := "PUT", path := [], ctype := .json, body := .ok (.obj n) } s = (s, .http 404) := by
        unfold putObj
        simp only [M.bind_apply, M.bind', getObjTs_apply, hg, hk, if_false]
      rw [this]
      simp only [ne_eq, hk, not_false_eq_true, if_true]
      exact ⟨by triv, by triv, hI, by triv⟩


/-- the side conditions along a history (each `replace` checked in the state in which it is applied) and the paging bound -/
def pageOk : SemOp → Prop
  | .list _ lim cur => cur + lim ≤ 9223372036854775807      -- sys.maxsize (beyond it the request is answered 400)
  | _ => True

def runOk (s : St) : List SemOp → Prop
  | [] => True
  | op :: ops => opOk s op ∧ pageOk op ∧ runOk (handlerStep s op).1 ops

theorem c10_refines_step (s : St) (hI : Inv s) (op : SemOp) (hok : opOk s op) (hl : pageOk op) :
    (handlerStep s op).2 = (specStep (abs s) op).2 ∧ abs (handlerStep s op).1 = (specStep (abs s) op).1 ∧
      Inv (handlerStep s op).1 ∧ (handlerStep s op).1.fileBacked = s.fileBacked := by
  cases op with
  | create o => exact step_create s hI o
  | read k id => exact step_read s hI k id
  | replace k id n => exact step_replace s hI k id n hok
  | delete k id => exact step_delete s hI k id
  | list k lim cur => exact step_list s hI k lim cur hl

/-- **The handlers refine the reference repository on every history.**  From any store satisfying the invariant — in
    particular the empty one, dict- or file-backed — every history of repository operations, sent through the real
    handler code paths, is answered exactly as the map from identifier to object answers it, and the stores stay related. -/
theorem c10_refines (s : St) (hI : Inv s) (ops : List SemOp) (hok : runOk s ops) :
    (handlerRun s ops).2 = (specRun (abs s) ops).2 ∧ abs (handlerRun s ops).1 = (specRun (abs s) ops).1 ∧
      Inv (handlerRun s ops).1 := by
  induction ops generalizing s with
  | nil => exact ⟨rfl, rfl, hI⟩
  | cons op rest ih =>
    obtain ⟨h1, h2, h3⟩ := hok
    obtain ⟨ho, ha, hi, _⟩ := c10_refines_step s hI op h1 h2
    have := ih (handlerStep s op).1 hi h3
    simp only [handlerRun, specRun]
    rw [← ha] at *
    refine ⟨?_, this.2.1, this.2.2⟩
    rw [ho, this.1]

theorem c10_refines_from_empty (fb : Bool) (ops : List SemOp) (hok : runOk ⟨[], fb⟩ ops) :
    (handlerRun ⟨[], fb⟩ ops).2 = (specRun [] ops).2 :=
  (c10_refines ⟨[], fb⟩ (inv_init fb) ops hok).1

/-! ## the clauses of the statement, as corollaries on the handlers -/

/-- created resources are retrievable at the returned location -/
theorem c10_create_get (s : St) (hI : Inv s) (o : Obj) (hnew : AList.has o.id s.objs = false) :
    (handlerStep s (.create o)).2 = .created o o.id ∧
      (handlerStep (handlerStep s (.create o)).1 (.read o.kind o.id)).2 = .found o := by
  obtain ⟨h1, h2, h3, _⟩ := step_create s hI o
  have hany : (abs s).any (fun x => x.id = o.id) = false := by
    have : (abs s).any (fun x => x.id = o.id) = AList.has o.id s.objs := any_abs hI o.id
    rw [this, hnew]
  constructor
  · rw [h1]; simp [specStep, hany]
  · obtain ⟨g1, _, _, _⟩ := step_read (handlerStep s (.create o)).1 h3 o.kind o.id
    rw [g1, h2]
    simp only [specStep, hany]
    have hfind : Spec.find (abs s ++ [o]) o.id = some o := by
      simp only [Spec.find, List.find?_append]
      have : (abs s).find? (fun x => x.id = o.id) = none := by
        rw [List.find?_eq_none]
        intro x hx
        have := List.any_eq_false.1 hany x hx
        simpa using this
      simp [this]
    simp [hfind]

/-- duplicates conflict, and the store is left as it was -/
theorem c10_dup_conflict (s : St) (hI : Inv s) (o : Obj) (hdup : AList.has o.id s.objs = true) :
    (handlerStep s (.create o)).2 = .conflict ∧ abs (handlerStep s (.create o)).1 = abs s := by
  obtain ⟨h1, h2, _, _⟩ := step_create s hI o
  have hany : (abs s).any (fun x => x.id = o.id) = true := by
    have : (abs s).any (fun x => x.id = o.id) = AList.has o.id s.objs := any_abs hI o.id
    rw [this, hdup]
  rw [h1, h2]; simp [specStep, hany]

/-- unknown resources are not found: read, replace and delete of an identifier that is not stored (or stored as another
    kind) answer 404 -/
theorem c10_unknown_404 (s : St) (hI : Inv s) (k : OKind) (id : String) (n : Obj)
    (hno : ∀ o, AList.get id s.objs = some o → o.kind ≠ k) :
    (handlerStep s (.read k id)).2 = .notFound ∧ (handlerStep s (.delete k id)).2 = .notFound ∧
      (handlerStep s (.replace k id n)).2 = .notFound := by
  have hf : (abs s).find id = AList.get id s.objs := find_abs hI id
  refine ⟨?_, ?_, ?_⟩
  · rw [(step_read s hI k id).1]
    simp only [specStep, hf]
    cases hg : AList.get id s.objs with
    | none => rfl
    | some o => simp [hno o hg]
  · rw [(step_delete s hI k id).1]
    simp only [specStep, hf]
    cases hg : AList.get id s.objs with
    | none => rfl
    | some o => simp [hno o hg]
  · have hho : handlerOf (topName k).2.2.2.1 (argsFor k id) { method := "PUT", path := [], ctype := .json, body := .ok (.obj n) } =
        some (putObj (topName k).2.2.2.1 id k { method := "PUT", path := [], ctype := .json, body := .ok (.obj n) }) := by
      cases k <;> rfl
    simp only [handlerStep, encode, hho]
    have : putObj (topName k).2.2.2.1 id k { method := "PUT", path := [], ctype := .json, body := .ok (.obj n) } s = (s, .http 404) := by
      unfold putObj
      simp only [M.bind_apply, M.bind', getObjTs_apply]
      cases hg : AList.get id s.objs with
      | none => rfl
      | some o => simp [hno o hg]
    rw [this]; rfl


/-- deleted resources are gone: a later read answers 404 -/
theorem c10_delete_gone (s : St) (hI : Inv s) (k : OKind) (id : String) (o : Obj)
    (hg : AList.get id s.objs = some o) (hk : o.kind = k) :
    (handlerStep s (.delete k id)).2 = .noContent ∧
      (handlerStep (handlerStep s (.delete k id)).1 (.read k id)).2 = .notFound := by
  obtain ⟨h1, h2, h3, _⟩ := step_delete s hI k id
  have hf : (abs s).find id = some o := (find_abs hI id).trans hg
  constructor
  · rw [h1]; simp [specStep, hf, hk]
  · rw [(step_read _ h3 k id).1, h2]
    simp only [specStep, hf, hk, if_true]
    have : Spec.find ((abs s).filter (fun x => !decide (x.id = id))) id = none := by
      simp only [Spec.find, List.find?_eq_none]
      intro x hx; simp at hx; simpa using hx.2
    simp [this]

/-- replaced content is what is read afterwards (the stored object is `specReplace old new`) -/
theorem c10_put_get (s : St) (hI : Inv s) (k : OKind) (id : String) (o n : Obj)
    (hg : AList.get id s.objs = some o) (hk : o.kind = k) (hnk : n.kind = k) (hni : n.id = id)
    (hok : opOk s (.replace k id n)) :
    (handlerStep s (.replace k id n)).2 = .noContent ∧
      (handlerStep (handlerStep s (.replace k id n)).1 (.read k id)).2 = .found (specReplace o n) := by
  obtain ⟨h1, h2, h3, _⟩ := step_replace s hI k id n hok
  have hf : (abs s).find id = some o := (find_abs hI id).trans hg
  have hc : ¬ (n.kind ≠ k ∨ n.id ≠ id) := by simp [hnk, hni]
  have hspec := objUpdateFrom_spec (o := o) (n := n) (by rw [hk, hnk])
  constructor
  · rw [h1]; simp [specStep, hf, hk, hc]
  · -- the store after the PUT holds `specReplace o n` under `id`
    have hstate : AList.get id (handlerStep s (.replace k id n)).1.objs = some (specReplace o n) := by
      have hho : handlerOf (topName k).2.2.2.1 (argsFor k id) { method := "PUT", path := [], ctype := .json, body := .ok (.obj n) } =
          some (putObj (topName k).2.2.2.1 id k { method := "PUT", path := [], ctype := .json, body := .ok (.obj n) }) := by
        cases k <;> rfl
      have hcm : commitsOf (topName k).2.2.2.1 > 0 := by cases k <;> decide
      have hrb := requestBody_put k n
      rw [if_pos hnk] at hrb
      have hc1 : ¬ (¬ k = n.kind ∨ ¬ n.id = o.id) := by simp [hnk, hni, hI.ownId id o hg]
      have herr := hok o hg (by rw [hk, hnk])
      simp only [handlerStep, encode, hho]
      rw [putObj_exact _ _ _ _ n s hI hrb hcm, hg]
      simp only [hk, ne_eq, not_true_eq_false, if_false, if_neg hc1, herr]
      simp [specReplace]
    have hf2 : (abs (handlerStep s (.replace k id n)).1).find id = some (specReplace o n) := (find_abs h3 id).trans hstate
    rw [(step_read _ h3 k id).1]
    simp only [specStep, hf2]
    simp [specReplace, hspec.2.1, hnk]

/-- for shells and concept descriptions the replacement is read back exactly -/
theorem c10_put_get_exact (o n : Obj) (hk : o.kind = n.kind) (hsm : n.kind ≠ .sm) : specReplace o n = n := by
  cases o <;> cases n <;> simp [Obj.kind] at hk hsm <;> rfl

/-- every resource is reachable under exactly its own identifier: whatever a read under `id` returns carries `id` -/
theorem c10_own_id (s : St) (hI : Inv s) (k : OKind) (id : String) (o : Obj)
    (h : (handlerStep s (.read k id)).2 = .found o) : o.id = id := by
  rw [(step_read s hI k id).1] at h
  have hf : (abs s).find id = AList.get id s.objs := find_abs hI id
  simp only [specStep, hf] at h
  cases hg : AList.get id s.objs with
  | none => simp [hg] at h
  | some x =>
    simp only [hg] at h
    by_cases hk : x.kind = k
    · simp only [hk, if_true] at h; cases h; exact hI.ownId id _ hg
    · simp only [hk, if_false] at h; cases h

/-- every handler that changes a loaded object also commits it (extracted `commit()` table): on a file-backed store the
    change would otherwise be answered 2xx and be gone at the next request -/
theorem c10_mutating_handlers_commit :
    ∀ fn ∈ ["post_aas", "put_aas", "post_aas_submodel_refs", "delete_aas_submodel_refs_specific", "post_submodel", "put_submodel",
            "post_submodel_submodel_elements_id_short_path", "put_submodel_submodel_elements_id_short_path",
            "delete_submodel_submodel_elements_id_short_path", "post_submodel_submodel_element_qualifiers",
            "put_submodel_submodel_element_qualifiers", "delete_submodel_submodel_element_qualifiers",
            "post_concept_description", "put_concept_description"], commitsOf fn > 0 := by
  decide

/-- with every commit in place a file-backed store ends a mutating handler in the same content as the in-memory store -/
theorem c10_commit_reaches (objs : List (String × Obj)) (id : String) (o : Obj) (n : Nat) (hn : n > 0) (resp : Resp) :
    ((live id o >>= fun _ => commitObj n id o >>= fun _ => (pure resp : M Resp)) ⟨objs, true⟩).1.objs =
    ((live id o >>= fun _ => commitObj n id o >>= fun _ => (pure resp : M Resp)) ⟨objs, false⟩).1.objs := by
  simp [M.bind', live, commitObj, hn, M.pure', pure]

/-! ## nested elements: created elements are retrievable at the returned path, under exactly their own idShort -/

private theorem findKey_key {k : String} {ch : List Elem} {c : Elem} (h : findKey k ch = some c) : c.key = k := by
  induction ch with
  | nil => simp [findKey] at h
  | cons x t ih =>
    by_cases hx : x.key = k
    · simp [findKey, hx] at h; subst h; exact hx
    · simp [findKey, hx] at h; exact ih h

private theorem findKey_replaceKey {k : String} {ch : List Elem} {c n : Elem} (h : findKey k ch = some c) (hn : n.key = k) :
    findKey k (replaceKey k n ch) = some n := by
  induction ch with
  | nil => simp [findKey] at h
  | cons x t ih =>
    by_cases hx : x.key = k
    · simp [replaceKey, findKey, hx, hn]
    · simp [findKey, hx] at h
      simp [replaceKey, findKey, hx, ih h]

private theorem findKey_append_new {k : String} {ch : List Elem} {e : Elem} (h : findKey k ch = none) (he : e.key = k) :
    findKey k (ch ++ [e]) = some e := by
  induction ch with
  | nil => simp [findKey, he]
  | cons x t ih =>
    by_cases hx : x.key = k
    · simp [findKey, hx] at h
    · simp [findKey, hx] at h
      simp [findKey, hx, ih h]

private theorem withCh_key (e : Elem) (c : List Elem) : (e.withCh c).key = e.key := by cases e; rfl
private theorem withCh_isNamespace (e : Elem) (c : List Elem) : (e.withCh c).isNamespace = e.isNamespace := by cases e; rfl
private theorem withCh_ch (e : Elem) (c : List Elem) : (e.withCh c).ch = c := by cases e; rfl

private theorem modifyAt_key (f : Elem → Elem) (hf : ∀ x, (f x).key = x.key) (root : Elem) (path : List String) :
    (modifyAt f root path).key = root.key := by
  cases path with
  | nil => exact hf root
  | cons k rest =>
    simp only [modifyAt]
    cases findKey k root.ch with
    | none => rfl
    | some c => simp [withCh_key]

/-- the node put at `path` by `modifyAt` is what `get_referable` finds there afterwards -/
private theorem getReferable_modifyAt (f : Elem → Elem) (hf : ∀ x, (f x).key = x.key) (root : Elem) (path : List String)
    (e : Elem) (h : getReferable root path = .ok e) : getReferable (modifyAt f root path) path = .ok (f e) := by
  induction path generalizing root with
  | nil => simp [getReferable] at h; subst h; rfl
  | cons k rest ih =>
    unfold getReferable at h
    by_cases hn : root.isNamespace = true
    · simp only [hn, not_true_eq_false, if_false] at h
      cases hc : findKey k root.ch with
      | none => simp [hc] at h
      | some c =>
        simp only [hc] at h
        have hck := findKey_key hc
        have hmk : (modifyAt f c rest).key = k := by rw [modifyAt_key f hf, hck]
        simp only [modifyAt, hc]
        unfold getReferable
        simp only [withCh_isNamespace, hn, not_true_eq_false, if_false, withCh_ch, findKey_replaceKey hc hmk]
        exact ih c h
    · simp [hn] at h

private theorem getReferable_append (root : Elem) (p q : List String) (e : Elem) (h : getReferable root p = .ok e) :
    getReferable root (p ++ q) = getReferable e q := by
  induction p generalizing root with
  | nil => simp [getReferable] at h; subst h; rfl
  | cons k rest ih =>
    unfold getReferable at h
    by_cases hn : root.isNamespace = true
    · simp only [hn, not_true_eq_false, if_false] at h
      cases hc : findKey k root.ch with
      | none => simp [hc] at h
      | some c =>
        simp only [hc] at h
        simp only [List.cons_append]
        rw [getReferable]
        simp only [hn, not_true_eq_false, if_false, hc]
        exact ih c h
    · simp [hn] at h

/-- **Created elements are retrievable at the returned location.**  `post_submodel_submodel_elements_id_short_path` stores
    `modifyAt (fun _ => parent') root path` with `parent' = add_referable(parent, new)` and answers with the Location
    `path ++ [new.idShort]`; resolving that path in the stored tree yields the new element, filed under its own idShort. -/
theorem c10_elem_create_get (root parent parent' n : Elem) (path : List String) (k : String)
    (hp : getReferable root path = .ok parent) (hns : parent.isNamespace = true)
    (hadd : addReferable parent n = .ok parent') (hk : n.idShort = some k) :
    getReferable (modifyAt (fun _ => parent') root path) (path ++ [k]) = .ok (n.withKey k) ∧
      (n.withKey k).key = k ∧ (n.withKey k).idShort = some k := by
  unfold addReferable at hadd
  rw [hk] at hadd
  simp only [] at hadd
  by_cases hdup : (findKey k parent.ch).isSome = true
  · simp [hdup] at hadd
  · simp only [hdup] at hadd
    have hpar : parent' = parent.withCh (parent.ch ++ [n.withKey k]) := by
      simp at hadd; exact hadd.symm
    have hkey : ∀ x : Elem, ((fun _ => parent') x).key = x.key → True := fun _ _ => trivial
    have hnone : findKey k parent.ch = none := by
      cases hf : findKey k parent.ch with
      | none => rfl
      | some c => simp [hf] at hdup
    have hwk : (n.withKey k).key = k := by cases n; rfl
    have hwi : (n.withKey k).idShort = some k := by cases n; simpa [Elem.withKey, Elem.idShort] using hk
    refine ⟨?_, hwk, hwi⟩
    -- the parent found at `path` is replaced by parent' (same filing key), then one more step finds the new child
    have hstep : getReferable (modifyAt (fun x => x.withCh (parent.ch ++ [n.withKey k])) root path) path
        = .ok (parent.withCh (parent.ch ++ [n.withKey k])) :=
      getReferable_modifyAt _ (fun x => withCh_key x _) root path parent hp
    have hsame : modifyAt (fun _ => parent') root path = modifyAt (fun x => x.withCh (parent.ch ++ [n.withKey k])) root path := by
      rw [hpar]
      clear hstep hadd hdup hkey hnone
      induction path generalizing root with
      | nil => simp [getReferable] at hp; subst hp; rfl
      | cons k2 rest ih =>
        unfold getReferable at hp
        by_cases hn2 : root.isNamespace = true
        · simp only [hn2, not_true_eq_false, if_false] at hp
          cases hc : findKey k2 root.ch with
          | none => simp [hc] at hp
          | some c => simp only [hc] at hp; simp only [modifyAt, hc]; rw [ih c hp]
        · simp [hn2] at hp
    rw [hsame, getReferable_append _ path [k] _ hstep]
    unfold getReferable
    simp only [withCh_isNamespace, hns, not_true_eq_false, if_false, withCh_ch, findKey_append_new hnone hwk]
    rfl

/-! ### the qualifier defect of `update_from`, as a proved witness (known finding http:PUT:qualifier-value-not-replaced) -/

def qOld : Obj := .sm "s" (.mk "" .sm none 0 [("t", 1)] [])
def qNew : Obj := .sm "s" (.mk "" .sm none 0 [("t", 2)] [])

/-- on a tree whose `update_nss_from` does not touch existing qualifiers, a PUT that only changes a qualifier's value is
    answered 204 and read back with the OLD value -/
theorem c10_put_qualifier_witness (h : Gen.Routes.qualifierValueUpdated = false) : specReplace qOld qNew = qOld := by
  first
    | rfl
    | exact absurd h (by decide)

/-- with C12's repair the replacement is read back -/
theorem c10_put_qualifier_repaired (h : Gen.Routes.qualifierValueUpdated = true) : specReplace qOld qNew = qNew := by
  first
    | rfl
    | exact absurd h (by decide)

/-! ### non-vacuity -/

example : runOk ⟨[], false⟩ [.create qOld, .read .sm "s", .list .sm 2 0, .delete .sm "s"] :=
  ⟨trivial, trivial, trivial, trivial, trivial, by simp [pageOk], trivial, trivial, trivial⟩

example : opOk ⟨[("s", qOld)], false⟩ (.replace .sm "s" qNew) := by
  intro o hg _
  simp [AList.get] at hg; subst hg; rfl

example : (handlerRun ⟨[], true⟩ [.create qOld, .create qOld, .read .sm "s", .read .cd "s", .delete .sm "s", .read .sm "s"]).2
    = [.created qOld "s", .conflict, .found qOld, .notFound, .noContent, .notFound] := by rfl

end Basyx.Repo
