/-
  C11 — the HTTP server turns every bad request into a 4xx result, never a crash or a 5xx.
  Model: `Basyx/Model/Repo.lean` (handlers of `adapter/http.py` with the exception algebra `ok | http code | py kind`,
  except/raise/status tables regenerated from the source into `Basyx/Gen/Routes.lean`).
  All theorems are about EVERY state satisfying the store invariant and EVERY request of the model's request space
  (any method, any path segments with any base64 outcome, any Accept / Content-Type class, any body class, any
  limit/cursor value); `c11_history` lifts them to every request history from the empty store.

  Full-strength statement of "no escape":   ∀ s r, Inv s → ∀ e, (handle s r).2 ≠ .crash e.
  It is FALSE on this tree: `Referable.update_from` raises when a PUT body changes the class of an element *below* the
  replaced node (known finding http:PUT:nested-class-change) — `c11_escape_witness`.  What is proved instead
  (`c11_no_escape_partial`): the ONLY Python exceptions that can leave the WSGI callable are those raised inside
  `update_from` itself; every other raisable kind at every modelled call site is covered by an except clause / mapping.
-/
import Basyx.Lemmas.Repo
import Basyx.Model.Select
import Basyx.Gen.SelectHttp
namespace Basyx.Repo
open Basyx

/-- classification of what `handle_request` can do with a request -/
inductive Outcome (s : St) (r : Req) : St × Out → Prop
  | ok (s' : St) (resp : Resp) : Inv s' → s'.fileBacked = s.fileBacked → resp.status ∈ okStatus →
      Outcome s r (s', .resp resp)
  | err (c : Nat) : c ∈ okCodes → Outcome s r (s, .resp (errResp c))
  | notAcceptable : r.accept = .notAcceptable → Outcome s r (s, .resp ⟨406, none, .plain⟩)
  | notImplemented (a : Args) : route r = .ok ("not_implemented", a) → Outcome s r (s, .resp (errResp 501))
  | crash (s' : St) (e : PyExc) : Inv s' → s'.fileBacked = s.fileBacked → UFExc e → Outcome s r (s', .crash e)
  | unmodelled : Outcome s r (s, .unmodelled)

private theorem handleCore_outcome {s : St} (hI : Inv s) (r : Req) : Outcome s r (handleCore s r) := by
  unfold handleCore
  by_cases hacc : r.accept = .notAcceptable
  · rw [if_pos hacc]; exact .notAcceptable hacc
  · rw [if_neg hacc]
    rcases route_cases r with ⟨ep, a, h⟩ | h | h | h
    · rw [h]
      simp only [dispatch]
      cases hh : handlerOf ep a r with
      | none => exact .unmodelled
      | some m =>
        simp only [M.map_apply, M.bind', M.pure']
        rcases good_handlerOf hI ep a r m hh with ⟨hep, hm⟩ | hg
        · subst hep; subst hm
          simp only [liftR]
          exact .notImplemented a h
        · unfold GoodAt at hg
          cases hms : m s with
          | mk s' res =>
            rw [hms] at hg
            cases res with
            | ok resp => exact .ok s' resp hg.1 hg.2.1 hg.2.2
            | http c => obtain ⟨rfl, hc⟩ := hg; exact .err c hc
            | py e => exact .crash s' e hg.1 hg.2.1 hg.2.2
    · rw [h]; exact .err 400 (by simp [okCodes])
    · rw [h]; exact .err 404 (by simp [okCodes])
    · rw [h]; exact .err 405 (by simp [okCodes])

/-- The exception algebra is closed: whatever the state and the request, a Python exception leaves the WSGI callable
    only if `update_from` itself raised it (every other raisable kind at every modelled call site is mapped). -/
theorem c11_no_escape_partial (s : St) (r : Req) (hI : Inv s) (e : PyExc) (h : (handle s r).2 = .crash e) : UFExc e := by
  unfold handle at h
  have := handleCore_outcome hI r
  cases hc : handleCore s r with
  | mk s' o =>
    rw [hc] at this h
    cases this with
    | ok s'' resp' _ _ hst => simp only [headStrip] at h; split at h <;> cases h
    | err c hcode => simp only [headStrip] at h; split at h <;> cases h
    | notAcceptable _ => simp only [headStrip] at h; split at h <;> cases h
    | notImplemented a hr => simp only [headStrip] at h; split at h <;> cases h
    | crash _ _ _ _ hu => simp only [headStrip] at h; cases h; exact hu
    | unmodelled => simp [headStrip] at h

/-- every status is 2xx, one of the mapped 4xx codes, 406, or 501 on a route declared unimplemented; never another 5xx -/
theorem c11_status_range (s : St) (r : Req) (hI : Inv s) (resp : Resp) (h : (handle s r).2 = .resp resp) :
    resp.status ∈ okStatus ∨ resp.status ∈ okCodes ∨ resp.status = 406 ∨
      (resp.status = 501 ∧ ∃ a, route r = .ok ("not_implemented", a)) := by
  unfold handle at h
  have := handleCore_outcome hI r
  cases hc : handleCore s r with
  | mk s' o =>
    rw [hc] at this h
    cases this with
    | ok s'' resp' _ _ hst =>
      simp only [headStrip] at h
      split at h <;> (cases h; left; exact hst)
    | err c hcode =>
      simp only [headStrip] at h
      split at h <;> (cases h; right; left; exact hcode)
    | notAcceptable _ =>
      simp only [headStrip] at h
      split at h <;> (cases h; right; right; left; rfl)
    | notImplemented a hr =>
      simp only [headStrip] at h
      split at h <;> (cases h; right; right; right; exact ⟨rfl, a, hr⟩)
    | crash _ _ _ _ _ => simp [headStrip] at h
    | unmodelled => simp [headStrip] at h

/-- a request answered with 4xx or 5xx leaves the stored data exactly as it was -/
theorem c11_4xx_pure (s : St) (r : Req) (hI : Inv s) (resp : Resp) (h : (handle s r).2 = .resp resp)
    (h4 : resp.status ≥ 400) : (handle s r).1 = s := by
  unfold handle at h ⊢
  have := handleCore_outcome hI r
  cases hc : handleCore s r with
  | mk s' o =>
    rw [hc] at this h
    cases this with
    | ok s'' resp' _ _ hst =>
      simp only [headStrip] at h
      exfalso
      split at h <;> (cases h; simp [okStatus] at hst h4; omega)
    | err c hcode => rfl
    | notAcceptable _ => rfl
    | notImplemented a hr => rfl
    | crash _ _ _ _ _ => simp [headStrip] at h
    | unmodelled => rfl

/-- 4xx/501 bodies are the Result structure with success = false; 406 is werkzeug's plain page (HEAD has no body) -/
theorem c11_result_body (s : St) (r : Req) (hI : Inv s) (resp : Resp) (h : (handle s r).2 = .resp resp)
    (h4 : resp.status ≥ 400) (hm : r.method ≠ "HEAD") :
    (resp.status ≠ 406 → resp.body = .result) ∧ (resp.status = 406 → resp.body = .plain) := by
  unfold handle at h
  have := handleCore_outcome hI r
  cases hc : handleCore s r with
  | mk s' o =>
    rw [hc] at this h
    cases this with
    | ok s'' resp' _ _ hst =>
      simp only [headStrip, hm, if_false] at h
      cases h; simp [okStatus] at hst; omega
    | err c hcode =>
      simp only [headStrip, hm, if_false] at h
      cases h
      simp [okCodes] at hcode
      constructor
      · intro _; rfl
      · intro h6; simp [errResp] at h6; omega
    | notAcceptable _ =>
      simp only [headStrip, hm, if_false] at h
      cases h; simp
    | notImplemented a hr =>
      simp only [headStrip, hm, if_false] at h
      cases h; simp [errResp]
    | crash _ _ _ _ _ => simp [headStrip] at h
    | unmodelled => simp [headStrip] at h

/-- the store invariant (unique keys, every object filed under its own id) and the backing mode survive every request,
    answered or crashed -/
theorem c11_inv_step (s : St) (r : Req) (hI : Inv s) : Inv (handle s r).1 ∧ (handle s r).1.fileBacked = s.fileBacked := by
  unfold handle
  have := handleCore_outcome hI r
  cases hc : handleCore s r with
  | mk s' o =>
    rw [hc] at this
    cases this with
    | ok s'' resp' h1 h2 _ => exact ⟨h1, h2⟩
    | err c hcode => exact ⟨hI, rfl⟩
    | notAcceptable _ => exact ⟨hI, rfl⟩
    | notImplemented a hr => exact ⟨hI, rfl⟩
    | crash _ _ h1 h2 _ => exact ⟨h1, h2⟩
    | unmodelled => exact ⟨hI, rfl⟩

/-- all of the above along EVERY request history from the empty store (dict- or file-backed): every state reached
    satisfies the invariant, and every output is a response in the allowed status set or an `update_from` crash -/
theorem c11_history (fb : Bool) (rs : List Req) :
    Inv (run ⟨[], fb⟩ rs).1 ∧ ∀ o ∈ (run ⟨[], fb⟩ rs).2,
      (∀ e, o = .crash e → UFExc e) ∧
      (∀ resp, o = .resp resp → resp.status ∈ okStatus ∨ resp.status ∈ okCodes ∨ resp.status = 406 ∨ resp.status = 501) := by
  suffices H : ∀ s, Inv s → Inv (run s rs).1 ∧ ∀ o ∈ (run s rs).2,
      (∀ e, o = .crash e → UFExc e) ∧
      (∀ resp, o = .resp resp → resp.status ∈ okStatus ∨ resp.status ∈ okCodes ∨ resp.status = 406 ∨ resp.status = 501) from
    H _ (inv_init fb)
  induction rs with
  | nil => intro s hI; exact ⟨hI, by simp [run]⟩
  | cons r rest ih =>
    intro s hI
    have hstep := c11_inv_step s r hI
    have := ih (handle s r).1 hstep.1
    simp only [run]
    refine ⟨this.1, ?_⟩
    intro o ho
    simp only [List.mem_cons] at ho
    rcases ho with rfl | ho
    · refine ⟨fun e he => c11_no_escape_partial s r hI e he, fun resp hr => ?_⟩
      rcases c11_status_range s r hI resp hr with h | h | h | ⟨h, _⟩
      · exact .inl h
      · exact .inr (.inl h)
      · exact .inr (.inr (.inl h))
      · exact .inr (.inr (.inr h))
    · exact this.2 o ho

/-! ### the defect that keeps `no_escape` partial, as a proved witness (known finding http:PUT:nested-class-change) -/

def witnessStore : St :=
  ⟨[("s", .sm "s" (.mk "" .sm none 0 [] [.mk "a" .prop (some "a") 0 [] []]))], false⟩

def witnessPut : Req :=
  { method := "PUT", path := [], ctype := .json,
    body := .ok (.obj (.sm "s" (.mk "" .sm none 1 [] [.mk "a" .coll (some "a") 1 [] [.mk "z" .prop (some "z") 1 [] []]]))) }

/-- `PUT /submodels/{s}` whose body turns the property `a` into a collection: `update_nss_from` takes the KeyError of the
    nested `update_from` for "not contained", re-adds `a`, and AASd-022 leaves the handler (and the WSGI callable) -/
theorem c11_escape_witness (h : Gen.Routes.classChangeReplaces = false) :
    (putObj "put_submodel" "s" .sm witnessPut witnessStore).2 = .py (.aascv 22) := by
  first
    | rfl                                   -- the tree as pinned: the witness evaluates to the crash
    | exact absurd h (by decide)            -- a tree with the repaired update_nss_from: the hypothesis is false

/-- with the repaired `update_nss_from` (C12's fix) the same request is answered -/
theorem c11_escape_witness_repaired (h : Gen.Routes.classChangeReplaces = true) :
    ∃ resp, (putObj "put_submodel" "s" .sm witnessPut witnessStore).2 = .ok resp ∧ resp.status = 204 := by
  first
    | exact ⟨_, rfl, rfl⟩
    | exact absurd h (by decide)

/-! ### non-vacuity: the hypotheses are satisfiable and the handlers do answer -/

example : Inv witnessStore := by
  refine ⟨by decide, ?_⟩
  intro k o h
  by_cases hk : k = "s"
  · subst hk; simp [witnessStore, AList.get] at h; subst h; rfl
  · simp [witnessStore, AList.get, Ne.symm hk] at h

example : (getObj "get_submodel" "s" .sm {method := "GET", path := []} witnessStore).2
    = .ok ⟨200, none, .item (.obj (.sm "s" (.mk "" .sm none 0 [] [.mk "a" .prop (some "a") 0 [] []])))⟩ := by rfl

example : (getObj "get_submodel" "zz" .sm {method := "GET", path := []} witnessStore).2 = .http 404 := by rfl

/-! ### Request bodies are read strictly

"Malformed ... client input always yields a 4xx": the handler model abstracts a body to its decode outcome; that a malformed body
IS an error for the reader rests on the reader being a strict one.  Which reader `HTTPApiDecoder` uses is regenerated from
`http.py` (`Gen/SelectHttp.lean`: the decoder class handed to `json.loads`, the `failsafe=` / `stripped=` arguments handed to
`read_aas_xml_element`), which class those arguments select from the XML reader (`Gen/Select.lean`). -/

/-- (re-checked against the source on every run) for JSON and XML, with and without `level=core`: the class that reads the body
    has `failsafe = False` - by attribute lookup along its method resolution order - and `stripped` exactly as requested -/
theorem c11_body_readers_strict : Select.bodyReadersOk Gen.SelectHttp.bodyReaders = true := by decide

example : Select.bodyReaderClass ("xml-dec", true, none, some false, some true) = some "StrictStrippedAASFromXmlDecoder" := by decide

end Basyx.Repo
