/-
  C06 — XSD simple values keep their value and type through the lexical mapping.
  Property theorems only.  Model: `Basyx/Model/Lex.lean` (+ `Lex/*.lean`); helper lemmas: `Basyx/Lemmas/Lex/*.lean`;
  specification side: `Basyx/Spec/XsdTypes.lean` and the `valid…` functions; tables regenerated from the source:
  `Basyx/Gen/XsdNames.lean`.

  Shape per type τ:  `…_roundtrip : InSpace v → parse (repr v) = some v`,  `…_valid : InSpace v → valid (repr v)`,
  `…_reject… : ¬ valid s → parse s = none` (full strength where the code really rejects; `_partial` with the exact
  excluded laxness and a proved witness of that laxness otherwise).  `none` = the call raises ValueError.
-/
import Basyx.Lemmas.Lex
import Basyx.Model.LexTyped
import Basyx.Spec.XsdTypes
import Basyx.Gen.XsdNames
namespace Basyx.Lex
open Basyx.Gen.XsdNames

/-! ## 1. names: every type under exactly its own xs: name, one-to-one (tables regenerated from the source) -/

def announced (ident : String) : Option String := (xsdNames.find? (fun e => e.1 = ident)).map (·.2.2)

theorem Ty.mem_all (τ : Ty) : τ ∈ Ty.all := by cases τ <;> decide

/-- each of the 31 types is a key of `XSD_TYPE_NAMES` and is announced as `xs:` + its own XSD name -/
theorem c06_names_own (τ : Ty) : announced τ.pyName = some ("xs:" ++ Spec.xsName τ) := by
  have h : ∀ τ ∈ Ty.all, announced τ.pyName = some ("xs:" ++ Spec.xsName τ) := by decide
  exact h τ (Ty.mem_all τ)

/-- the table has exactly 31 rows, pairwise different keys bound to pairwise different classes (so the dict literal
    loses no row), pairwise different names (so `XSD_TYPE_CLASSES`, its literal inverse, loses none either) -/
theorem c06_names_one_to_one :
    xsdNames.length = 31 ∧ (xsdNames.map (·.1)).Nodup ∧ (xsdNames.map (·.2.1)).Nodup ∧ (xsdNames.map (·.2.2)).Nodup ∧
      classesIsInverse = true := by decide

/-- hence two different types never share a name -/
theorem c06_names_injective (τ σ : Ty) (h : announced τ.pyName = announced σ.pyName) : τ = σ := by
  rw [c06_names_own, c06_names_own] at h
  have key : ∀ τ ∈ Ty.all, ∀ σ ∈ Ty.all, "xs:" ++ Spec.xsName τ = "xs:" ++ Spec.xsName σ → τ = σ := by decide
  exact key τ (Ty.mem_all τ) σ (Ty.mem_all σ) (Option.some.inj h)

/-! ## 2. integers -/

/-- the interval accepted by the class's `__new__`, as extracted from the source -/
def genRange (τ : Ty) : Range :=
  match intRanges.find? (fun e => e.1 = τ.pyName) with
  | some e => e.2
  | none => (none, none)

/-- the range literals in the 13 classes are the XSD value spaces -/
theorem c06_int_ranges (τ : Ty) (r : Range) (h : Spec.intRange τ = some r) : genRange τ = r := by
  have key : ∀ τ ∈ Ty.all, ∀ r, Spec.intRange τ = some r → genRange τ = r := by
    intro τ _ r h
    cases τ <;> simp [Spec.intRange] at h <;> subst h <;> decide
  exact key τ (Ty.mem_all τ) r h

/-- every integer of the type's value space: `str` gives an xs:integer literal and `T(str)` gives the integer back -/
theorem c06_int_roundtrip (τ : Ty) (r : Range) (h : Spec.intRange τ = some r) (v : Int) (hv : r.contains v = true) :
    parseInt (genRange τ) (intRepr v) = some v ∧ validInt (intRepr v) = true := by
  rw [c06_int_ranges τ r h]
  exact ⟨by simp [parseInt, pyInt_intRepr, construct, hv], validInt_intRepr v⟩

/-- a literal whose value lies outside the value space is rejected, and a Python int outside it cannot be constructed
    (never wrapped, truncated or clamped) -/
theorem c06_int_range_reject (τ : Ty) (r : Range) (h : Spec.intRange τ = some r) (v : Int) (hv : r.contains v = false) :
    construct (genRange τ) v = none ∧ ∀ s, pyInt s = some v → parseInt (genRange τ) s = none := by
  rw [c06_int_ranges τ r h]
  refine ⟨by simp [construct, hv], ?_⟩
  intro s hs; simp [parseInt, hs, construct, hv]

/-- whatever is accepted is the value `int()` read, and lies in the value space -/
theorem c06_int_accept_in_range (τ : Ty) (r : Range) (h : Spec.intRange τ = some r) (s : Str) (v : Int)
    (hp : parseInt (genRange τ) s = some v) : pyInt s = some v ∧ r.contains v = true := by
  rw [c06_int_ranges τ r h] at hp
  unfold parseInt at hp
  cases hi : pyInt s with
  | none => simp [hi] at hp
  | some w =>
    simp only [hi, Option.bind_some, construct] at hp
    split at hp
    · next hc => simp at hp; subst hp; exact ⟨rfl, hc⟩
    · simp at hp

/- Full statement (FALSE on the code):  `validInt s = false → pyInt s = none`.
   `int()` also takes surrounding white space, `_` between digits (and non-ASCII digits, not modelled). -/
/-- rejection of everything outside xs:integer's lexical space, for strings without white space and underscore -/
theorem c06_int_reject_partial (s : Str) (hv : validInt s = false) (hc : ∀ c ∈ s, isPySpace c = false ∧ c ≠ '_')
    (r : Range) : parseInt r s = none := by
  simp [parseInt, pyInt_none_of_invalid hv hc]

/-- witness of the laxness (known finding `lex:parse:int:underscore`, `…:whitespace`) -/
theorem c06_int_lax_witness :
    validInt "1_0".toList = false ∧ pyInt "1_0".toList = some 10 ∧ validInt " 12 ".toList = false ∧ pyInt " 12 ".toList = some 12 := by
  decide

/-- `trivial_cast(int, T)` for the 12 range-checked classes: the same integer or ValueError, decided by the XSD range -/
theorem c06_cast_int (τ : Ty) (r : Range) (h : Spec.intRange τ = some r) (hτ : τ ≠ .integer) (i : Int) :
    trivialCast genRange (.int i) τ = if r.contains i then .newInt i else .valueError := by
  have hg := c06_int_ranges τ r h
  by_cases hc : r.contains i = true <;>
    cases τ <;> simp [Spec.intRange] at h <;> simp [trivialCast, Ty.base, construct, hg, hc] <;> exact absurd rfl hτ

/-! ## 3. boolean and the string types -/

theorem c06_bool_roundtrip (b : Bool) : parseBool (reprBool b) = some b ∧ validBool (reprBool b) = true :=
  ⟨parseBool_reprBool b, validBool_reprBool b⟩

/-- accepted exactly on the lexical space `{true, false, 1, 0}` -/
theorem c06_bool_reject (s : Str) (h : validBool s = false) : parseBool s = none := by
  have := parseBool_isSome_iff s
  rw [h] at this
  cases hp : parseBool s with
  | none => rfl
  | some b => simp [hp] at this

/-- normalizedString: accepted unchanged exactly when free of CR, LF, TAB; rejected otherwise -/
theorem c06_normalized (s : Str) :
    (validNormalized s = true → parseNormalized s = some s) ∧ (validNormalized s = false → parseNormalized s = none) := by
  rw [parseNormalized_eq]; constructor <;> intro h <;> simp [h]

/-! ## 4. date, dateTime, time and the g-types: all years 1..9999, every month/day, all 10^6 fractions, all offsets -/

theorem c06_date_roundtrip (v : DateV) (hv : v.ok) (hz : v.tz.inXsd) :
    parseDate (reprDate v) = some v ∧ validDate (reprDate v) = true :=
  ⟨parseDate_reprDate v hv (Tz.inPy_of_inXsd hz), validDate_reprDate v hv hz⟩

theorem c06_time_roundtrip (v : TimeV) (hv : v.ok) (hz : v.tz.inXsd) :
    parseTime (reprTime v) = some v ∧ validTime (reprTime v) = true :=
  ⟨parseTime_reprTime v hv (Tz.inPy_of_inXsd hz), validTime_reprTime v hv hz⟩

theorem c06_dateTime_roundtrip (v : DateTimeV) (hv : v.ok) (hz : v.tz.inXsd) :
    parseDateTime (reprDateTime v) = some v ∧ validDateTime (reprDateTime v) = true :=
  ⟨parseDateTime_reprDateTime v hv (Tz.inPy_of_inXsd hz), validDateTime_reprDateTime v hv hz⟩

theorem c06_gYear_roundtrip (v : GYearV) (hv : v.ok) (hz : v.tz.inXsd) :
    ∃ s, reprGYear v = some s ∧ parseGYear s = some v ∧ validGYear s = true := by
  obtain ⟨s, hs, hp⟩ := parseGYear_reprGYear v hv (Tz.inPy_of_inXsd hz)
  obtain ⟨s', hs', hv'⟩ := validGYear_reprGYear v hv hz
  rw [hs] at hs'; cases hs'
  exact ⟨s, hs, hp, hv'⟩

theorem c06_gYearMonth_roundtrip (v : GYearMonthV) (hv : v.ok) (hz : v.tz.inXsd) :
    ∃ s, reprGYearMonth v = some s ∧ parseGYearMonth s = some v ∧ validGYearMonth s = true := by
  obtain ⟨s, hs, hp⟩ := parseGYearMonth_reprGYearMonth v hv (Tz.inPy_of_inXsd hz)
  obtain ⟨s', hs', hv'⟩ := validGYearMonth_reprGYearMonth v hv hz
  rw [hs] at hs'; cases hs'
  exact ⟨s, hs, hp, hv'⟩

theorem c06_gMonth_roundtrip (v : GMonthV) (hv : v.ok) (hz : v.tz.inXsd) :
    parseGMonth (reprGMonth v) = some v ∧ validGMonth (reprGMonth v) = true :=
  ⟨parseGMonth_reprGMonth v hv (Tz.inPy_of_inXsd hz), validGMonth_reprGMonth v hv hz⟩

theorem c06_gDay_roundtrip (v : GDayV) (hv : v.ok) (hz : v.tz.inXsd) :
    parseGDay (reprGDay v) = some v ∧ validGDay (reprGDay v) = true :=
  ⟨parseGDay_reprGDay v hv (Tz.inPy_of_inXsd hz), validGDay_reprGDay v hv hz⟩

theorem c06_gMonthDay_roundtrip (v : GMonthDayV) (hv : v.ok) (hz : v.tz.inXsd) :
    parseGMonthDay (reprGMonthDay v) = some v ∧ validGMonthDay (reprGMonthDay v) = true :=
  ⟨parseGMonthDay_reprGMonthDay v hv (Tz.inPy_of_inXsd hz), validGMonthDay_reprGMonthDay v hv hz⟩

/- Full statement (FALSE on the code):  `valid τ s = false → parse τ s = none`.
   The nine regular expressions accept any `hh:mm` zone with hh*60+mm < 1440 (XSD: at most 14:00, mm ≤ 59) and,
   being anchored with `$`, one trailing newline.  Everything else outside the lexical space IS rejected: -/
/-- a literal outside the lexical space that does not end in a newline is rejected — unless its only defect is an
    accepted zone text outside −14:00…+14:00 (`LaxZone`, known finding `lex:parse:zone-out-of-range`) -/
theorem c06_datetime_family_reject_partial (s : Str) (hnl : dropNl s = s) (hlax : ¬ LaxZone s) :
    (validDate s = false → parseDate s = none) ∧ (validTime s = false → parseTime s = none) ∧
    (validDateTime s = false → parseDateTime s = none) ∧ (validGYear s = false → parseGYear s = none) ∧
    (validGYearMonth s = false → parseGYearMonth s = none) ∧ (validGMonth s = false → parseGMonth s = none) ∧
    (validGDay s = false → parseGDay s = none) ∧ (validGMonthDay s = false → parseGMonthDay s = none) := by
  refine ⟨?_, ?_, ?_, ?_, ?_, ?_, ?_, ?_⟩ <;> intro hv
  · cases hp : parseDate s with
    | none => rfl
    | some v => rcases parseDate_valid_or_lax hp with h | h <;> rw [hnl] at h <;> simp_all
  · cases hp : parseTime s with
    | none => rfl
    | some v => rcases parseTime_valid_or_lax hp with h | h <;> rw [hnl] at h <;> simp_all
  · cases hp : parseDateTime s with
    | none => rfl
    | some v => rcases parseDateTime_valid_or_lax hp with h | h <;> rw [hnl] at h <;> simp_all
  · cases hp : parseGYear s with
    | none => rfl
    | some v => rcases parseGYear_valid_or_lax hp with h | h <;> rw [hnl] at h <;> simp_all
  · cases hp : parseGYearMonth s with
    | none => rfl
    | some v => rcases parseGYearMonth_valid_or_lax hp with h | h <;> rw [hnl] at h <;> simp_all
  · cases hp : parseGMonth s with
    | none => rfl
    | some v => rcases parseGMonth_valid_or_lax hp with h | h <;> rw [hnl] at h <;> simp_all
  · cases hp : parseGDay s with
    | none => rfl
    | some v => rcases parseGDay_valid_or_lax hp with h | h <;> rw [hnl] at h <;> simp_all
  · cases hp : parseGMonthDay s with
    | none => rfl
    | some v => rcases parseGMonthDay_valid_or_lax hp with h | h <;> rw [hnl] at h <;> simp_all

/-- witness of the zone laxness: `+15:00` and `+05:99` are accepted -/
theorem c06_zone_lax_witness :
    validDate "2020-01-01+15:00".toList = false ∧ (parseDate "2020-01-01+15:00".toList).isSome = true ∧
    validDate "2020-01-01+05:99".toList = false ∧ parseDate "2020-01-01+05:99".toList = some ⟨2020, 1, 1, some 399⟩ := by
  decide

/-- month/day/hour ranges: impossible calendar fields are rejected whatever the rest of the literal is -/
theorem c06_field_ranges (s : Str) :
    (∀ v, parseDate s = some v → dateOk v.year v.month v.day = true) ∧
    (∀ v, parseTime s = some v → timeOk v.hour v.minute v.second v.micro = true) ∧
    (∀ v, parseDateTime s = some v → dateOk v.year v.month v.day = true ∧ timeOk v.hour v.minute v.second v.micro = true) ∧
    (∀ v, parseGMonthDay s = some v → monthDayOk v.month v.day = true) := by
  refine ⟨?_, ?_, ?_, ?_⟩ <;> intro v h
  · unfold parseDate at h
    split at h
    · split at h
      · split at h
        · simp at h
        · simp only at h
          split at h
          · next hok => simp only [Option.some.injEq] at h; subst h; exact hok
          · simp at h
      · simp at h
    · simp at h
  · unfold parseTime at h
    split at h
    · split at h
      · split at h
        · simp at h
        · simp only at h
          split at h
          · next hok => simp only [Option.some.injEq] at h; subst h; exact hok
          · simp at h
      · simp at h
    · simp at h
  · unfold parseDateTime at h
    split at h
    · split at h
      · split at h
        · simp at h
        · simp only at h
          split at h
          · next hok => simp only [Option.some.injEq] at h; subst h; simpa using hok
          · simp at h
      · simp at h
    · simp at h
  · unfold parseGMonthDay at h
    split at h
    · split at h
      · split at h
        · simp at h
        · simp only at h
          split at h
          · next hok => simp only [Option.some.injEq] at h; subst h; exact hok
          · simp at h
      · simp at h
    · simp at h

/-! ## 5. hexBinary and base64Binary: arbitrary byte strings -/

theorem c06_hex_roundtrip (bs : Bytes) (h : bs.ok) :
    fromHex (hexEncode bs) = some bs ∧ validHex (hexEncode bs) = true :=
  ⟨fromHex_hexEncode bs h, validHex_hexEncode bs h⟩

/- Full statement (FALSE on the code): `validHex s = false → fromHex s = none`; `bytes.fromhex` skips ASCII white space. -/
theorem c06_hex_reject_partial (s : Str) (hv : validHex s = false) (hs : ∀ c ∈ s, isPySpace c = false) :
    fromHex s = none := by
  cases hp : fromHex s with
  | none => rfl
  | some bs => have := fromHex_valid_of_no_space s bs hp hs; simp [hv] at this

theorem c06_hex_lax_witness : validHex "0a 0b".toList = false ∧ fromHex "0a 0b".toList = some [10, 11] := by decide

theorem c06_base64_roundtrip (bs : Bytes) (h : bs.ok) :
    b64decode (b64encode bs) = some bs ∧ validB64 (b64encode bs) = true :=
  ⟨b64decode_b64encode bs h, validB64_b64encode bs h⟩

/-- the non-strict decoder is lax (known finding `lex:parse:base64:lenient`): characters outside the alphabet are
    skipped and non-canonical final quads are taken -/
theorem c06_base64_lax_witness :
    validB64 "YQ=!=".toList = false ∧ b64decode "YQ=!=".toList = some [97] ∧
    validB64 "YR==".toList = false ∧ b64decode "YR==".toList = some [97] := by decide

/-! ## 6. duration: all field combinations, both signs -/

/-- every `relativedelta` the constructor produces is in normal form (`_fix`), whatever the arguments -/
theorem c06_duration_constructed_normal (d : Dur) : d.fix.normal := Dur.fix_normal d

/-- every normal-form duration whose fields do not disagree in sign: the text is a valid xs:duration literal and parses
    back to the same seven fields -/
theorem c06_duration_roundtrip (d : Dur) (hn : d.normal) (hs : d.nonneg ∨ d.nonpos) :
    ∃ s, reprDur d = some s ∧ parseDur s = some d ∧ validDur s = true := dur_roundtrip d hn hs

/-- mixed signs are rejected with ValueError, not serialised -/
theorem c06_duration_mixed_sign_rejected (d : Dur)
    (h : (d.fix.fields.any (· < 0) && d.fix.fields.any (· > 0)) = true) : reprDur d = none := by
  simp only [reprDur]; rw [if_pos h]

/-- witness of the remaining laxness of DURATION_RE (known finding `lex:parse:duration:accepts-invalid:empty-designator`) -/
theorem c06_duration_lax_witness :
    validDur "P".toList = false ∧ (parseDur "P".toList).isSome = true ∧
    validDur "P1YT".toList = false ∧ (parseDur "P1YT".toList).isSome = true := by decide

/-! ## 7. float / double: the special-literal table (finite digit strings are CPython's and not modelled) -/

theorem c06_float_specials :
    ∀ v ∈ [FloatV.nan, FloatV.inf, FloatV.ninf],
      parseFloatSpecial (reprFloat v) = some v ∧ validFloat (reprFloat v) = true := by decide

theorem c06_float_special_texts :
    reprFloat .nan = "NaN".toList ∧ reprFloat .inf = "INF".toList ∧ reprFloat .ninf = "-INF".toList := by decide

/-! ## 8. decimal: any sign, coefficient and exponent -/

/-- `format(v, "f")` is a valid xs:decimal literal (no exponent notation) and `Decimal()` of it is the same number:
    identical for a negative exponent, the multiplied-out coefficient with exponent 0 otherwise (`DecV.plain`) -/
theorem c06_decimal_roundtrip (v : DecV) :
    parseDec (reprDec v) = some (.fin v.plain) ∧ validDecimal (reprDec v) = true := dec_roundtrip v

/-- `DecV.plain` keeps the number: sign, and coefficient · 10^exponent -/
theorem c06_decimal_plain_same_number (v : DecV) :
    v.plain.neg = v.neg ∧ (v.exp < 0 → v.plain = v) ∧
    (0 ≤ v.exp → v.plain.exp = 0 ∧ v.plain.coeff = v.coeff * 10 ^ v.exp.toNat) := by
  unfold DecV.plain
  by_cases h : v.exp ≥ 0
  · rw [if_pos h]; exact ⟨rfl, fun hn => absurd hn (by omega), fun _ => ⟨rfl, rfl⟩⟩
  · rw [if_neg h]; exact ⟨rfl, fun _ => rfl, fun hp => absurd hp (by omega)⟩

/-- witnesses of `Decimal()`'s laxness and of the unrejected special values (known findings) -/
theorem c06_decimal_lax_witness :
    validDecimal "1e3".toList = false ∧ parseDec "1e3".toList = some (.fin ⟨false, 1, 3⟩) ∧
    validDecimal "NaN".toList = false ∧ parseDec "NaN".toList = some (.nan false false) ∧
    validDecimal (reprDecR (.nan false false)) = false := by decide

/-! ## 9. all types at once: the dispatch of `xsd_repr` / `from_xsd` (`Model/LexTyped.lean`) -/

/-- the value space of the announced type (XML Schema part 2, as far as the Python classes can represent it) -/
def TV.inSpace : TV → Prop
  | .int τ v => ∃ r, Spec.intRange τ = some r ∧ r.contains v = true
  | .bool _ => True
  | .str τ s => τ = .string ∨ τ = .anyURI ∨ (τ = .normalizedString ∧ validNormalized s = true)
  | .date v => v.ok ∧ v.tz.inXsd
  | .time v => v.ok ∧ v.tz.inXsd
  | .dateTime v => v.ok ∧ v.tz.inXsd
  | .gYear v => v.ok ∧ v.tz.inXsd
  | .gMonth v => v.ok ∧ v.tz.inXsd
  | .gDay v => v.ok ∧ v.tz.inXsd
  | .gYearMonth v => v.ok ∧ v.tz.inXsd
  | .gMonthDay v => v.ok ∧ v.tz.inXsd
  | .hex bs => bs.ok
  | .b64 bs => bs.ok
  | .dur d => d.normal ∧ (d.nonneg ∨ d.nonpos)
  | .dec r => ∃ v, r = .fin v
  | .flt τ v => (τ = .float ∨ τ = .double) ∧ (v = .nan ∨ v = .inf ∨ v = .ninf)

/-- the value read back: identical, except that a Decimal with a positive exponent comes back multiplied out
    (`DecV.plain`, the same number — `c06_decimal_plain_same_number`) -/
def TV.readBack : TV → TV
  | .dec (.fin v) => .dec (.fin v.plain)
  | v => v

/-- **Value and type are kept, for every type and every value at once**: `xsd_repr` succeeds, its result lies in the
    lexical space of the announced type, the announced name is the type's own `xs:` name, and `from_xsd` with that type
    gives the value back.  Partial only in that finite floats are CPython's (`FloatV.finite` is outside `inSpace`). -/
theorem c06_typed_roundtrip_partial (v : TV) (h : v.inSpace) :
    ∃ s, reprTV v = some s ∧ validTV v.ty s = true ∧ parseTV genRange v.ty s = some v.readBack ∧
      announced v.ty.pyName = some ("xs:" ++ Spec.xsName v.ty) := by
  have hn := c06_names_own v.ty
  cases v with
  | int τ i =>
    obtain ⟨r, hr, hc⟩ := h
    obtain ⟨hp, hv⟩ := c06_int_roundtrip τ r hr i hc
    refine ⟨intRepr i, rfl, ?_, ?_, hn⟩
    · cases τ <;> simp [Spec.intRange] at hr <;> simpa [validTV, TV.ty] using hv
    · cases τ <;> simp [Spec.intRange] at hr <;> simp [parseTV, TV.ty, TV.readBack, hp]
  | bool b =>
    obtain ⟨hp, hv⟩ := c06_bool_roundtrip b
    exact ⟨reprBool b, rfl, by simpa [validTV, TV.ty] using hv, by simp [parseTV, TV.ty, TV.readBack, hp], hn⟩
  | str τ s =>
    rcases h with h | h | ⟨h, hv⟩ <;> subst h
    · exact ⟨s, rfl, rfl, rfl, hn⟩
    · exact ⟨s, rfl, rfl, rfl, hn⟩
    · refine ⟨s, rfl, by simpa [validTV, TV.ty] using hv, ?_, hn⟩
      simp [parseTV, TV.ty, TV.readBack, (c06_normalized s).1 hv]
  | date d =>
    obtain ⟨hp, hv⟩ := c06_date_roundtrip d h.1 h.2
    exact ⟨_, rfl, by simpa [validTV, TV.ty] using hv, by simp [parseTV, TV.ty, TV.readBack, hp], hn⟩
  | time d =>
    obtain ⟨hp, hv⟩ := c06_time_roundtrip d h.1 h.2
    exact ⟨_, rfl, by simpa [validTV, TV.ty] using hv, by simp [parseTV, TV.ty, TV.readBack, hp], hn⟩
  | dateTime d =>
    obtain ⟨hp, hv⟩ := c06_dateTime_roundtrip d h.1 h.2
    exact ⟨_, rfl, by simpa [validTV, TV.ty] using hv, by simp [parseTV, TV.ty, TV.readBack, hp], hn⟩
  | gYear d =>
    obtain ⟨s, hs, hp, hv⟩ := c06_gYear_roundtrip d h.1 h.2
    exact ⟨s, hs, by simpa [validTV, TV.ty] using hv, by simp [parseTV, TV.ty, TV.readBack, hp], hn⟩
  | gMonth d =>
    obtain ⟨hp, hv⟩ := c06_gMonth_roundtrip d h.1 h.2
    exact ⟨_, rfl, by simpa [validTV, TV.ty] using hv, by simp [parseTV, TV.ty, TV.readBack, hp], hn⟩
  | gDay d =>
    obtain ⟨hp, hv⟩ := c06_gDay_roundtrip d h.1 h.2
    exact ⟨_, rfl, by simpa [validTV, TV.ty] using hv, by simp [parseTV, TV.ty, TV.readBack, hp], hn⟩
  | gYearMonth d =>
    obtain ⟨s, hs, hp, hv⟩ := c06_gYearMonth_roundtrip d h.1 h.2
    exact ⟨s, hs, by simpa [validTV, TV.ty] using hv, by simp [parseTV, TV.ty, TV.readBack, hp], hn⟩
  | gMonthDay d =>
    obtain ⟨hp, hv⟩ := c06_gMonthDay_roundtrip d h.1 h.2
    exact ⟨_, rfl, by simpa [validTV, TV.ty] using hv, by simp [parseTV, TV.ty, TV.readBack, hp], hn⟩
  | hex bs =>
    obtain ⟨hp, hv⟩ := c06_hex_roundtrip bs h
    exact ⟨_, rfl, by simpa [validTV, TV.ty] using hv, by simp [parseTV, TV.ty, TV.readBack, hp], hn⟩
  | b64 bs =>
    obtain ⟨hp, hv⟩ := c06_base64_roundtrip bs h
    exact ⟨_, rfl, by simpa [validTV, TV.ty] using hv, by simp [parseTV, TV.ty, TV.readBack, hp], hn⟩
  | dur d =>
    obtain ⟨s, hs, hp, hv⟩ := c06_duration_roundtrip d h.1 h.2
    exact ⟨s, hs, by simpa [validTV, TV.ty] using hv, by simp [parseTV, TV.ty, TV.readBack, hp], hn⟩
  | dec r =>
    obtain ⟨d, rfl⟩ := h
    obtain ⟨hp, hv⟩ := c06_decimal_roundtrip d
    exact ⟨_, rfl, by simpa [validTV, TV.ty, reprDecR] using hv, by simp [parseTV, TV.ty, TV.readBack, reprDecR, hp], hn⟩
  | flt τ f =>
    obtain ⟨hτ, hf⟩ := h
    have hm : f ∈ [FloatV.nan, FloatV.inf, FloatV.ninf] := by rcases hf with rfl | rfl | rfl <;> simp
    obtain ⟨hp, hv⟩ := c06_float_specials f hm
    rcases hτ with rfl | rfl
    · exact ⟨_, rfl, by simpa [validTV, TV.ty] using hv, by simp [parseTV, TV.ty, TV.readBack, hp], hn⟩
    · exact ⟨_, rfl, by simpa [validTV, TV.ty] using hv, by simp [parseTV, TV.ty, TV.readBack, hp], hn⟩

/-! ## non-vacuity: the hypotheses are satisfiable, the functions compute -/

example : (⟨2024, 2, 29, some 840⟩ : DateV).ok ∧ Tz.inXsd (some 840) := by
  refine ⟨by show dateOk 2024 2 29 = true; decide, ?_⟩; intro m hm; cases hm; decide
example : reprDate ⟨2024, 2, 29, some (-605)⟩ = "2024-02-29-10:05".toList := by decide
example : parseDate "2024-02-29-10:05".toList = some ⟨2024, 2, 29, some (-605)⟩ := by decide
example : parseDate "2023-02-29".toList = none := by decide
example : parseTime "00:00:00.000249".toList = some ⟨0, 0, 0, 249, none⟩ := by decide
example : reprTime ⟨23, 59, 59, 999999, some 0⟩ = "23:59:59.999999+00:00".toList := by decide
example : parseGMonthDay "--02-30".toList = none ∧ (parseGMonthDay "--02-29Z".toList).isSome = true := by decide
example : reprGYearMonth ⟨999, 5, none⟩ = some "0999-05".toList := by decide
example : Spec.intRange .unsignedInt = some (some 0, some 4294967295) ∧ genRange .unsignedInt = (some 0, some 4294967295) := by decide
example : parseInt (genRange .byte) "128".toList = none ∧ parseInt (genRange .byte) "-128".toList = some (-128) := by decide
example : b64encode [97, 98, 99, 100] = "YWJjZA==".toList ∧ hexEncode [0, 255] = "00ff".toList := by decide
example : Bytes.ok [0, 255, 97] := by intro b hb; simp at hb; omega
example : announced "UnsignedInt" = some "xs:unsignedInt" ∧ announced "UnsignedByte" = some "xs:unsignedByte" := by decide
example : (⟨0, 0, -3, 0, -1, -30, -500000⟩ : Dur).normal ∧ (⟨0, 0, -3, 0, -1, -30, -500000⟩ : Dur).nonpos := by
  constructor <;> simp [Dur.normal, Dur.nonpos]
example : reprDur ⟨0, 0, -3, 0, -1, -30, -500000⟩ = some "-P3DT1M30.5S".toList := by decide
example : parseDur "-P3DT1M30.5S".toList = some ⟨0, 0, -3, 0, -1, -30, -500000⟩ := by decide
example : parseDur "PT90S".toList = some ⟨0, 0, 0, 0, 1, 30, 0⟩ ∧ parseDur "PT0.000249S".toList = some ⟨0, 0, 0, 0, 0, 0, 249⟩ := by decide
example : reprDur ⟨0, 0, -3, 0, 0, 10, 0⟩ = none := by decide
example : reprDec ⟨false, 1, 5⟩ = "100000".toList ∧ reprDec ⟨true, 123456, -6⟩ = "-0.123456".toList ∧
    reprDec ⟨false, 123, -2⟩ = "1.23".toList ∧ reprDec ⟨true, 0, 2⟩ = "-0".toList := by decide
example : ¬ LaxZone "2023-02-29".toList ∧ dropNl "2023-02-29".toList = "2023-02-29".toList :=
  ⟨fun h => absurd (LaxZone.colon h) (by decide), by decide⟩

end Basyx.Lex
