/-
  C16 — CouchDB store is a revision-guarded map: no lost update, no phantom object.
  Model: Basyx/Model/Couch.lean (client = transcription of couchdb.py as patched by fixes/C16-discard-bookkeeping.patch;
  server = specification of CouchDB's MVCC document API).  Histories are arbitrary lists of `Op` = SDK call with an arbitrary
  per-request fault plan | external write, i.e. every interleaving of the two clients' operation lists.
-/
import Basyx.Lemmas.Couch
import Basyx.Lemmas.CouchReplica
import Basyx.Gen.Backends
namespace Basyx.Couch
open Basyx

/-! ## 1. Identifiers of any shape are addressed correctly -/

/-- the server decodes the path segment the client builds back to the identifier -/
theorem c16_quote_roundtrip (i : Ident) : unquote (quote i) = i := unquote_quote i

theorem c16_quote_injective (i j : Ident) (h : quote i = quote j) : i = j := quote_injective h

/-- the segment contains only unreserved characters and `%`: no `/ ? # space`, nothing non-ASCII -/
theorem c16_quote_url_safe (i : Ident) : ∀ c ∈ quote i, urlSafe c = true := quote_safe i

/-- a document request built from an identifier reaches exactly that identifier's document -/
theorem c16_ids_addressed (sv : Server) (i : Ident) (m : Method) (rv : Option Rev) (dt : Option Data) :
    serve sv ⟨m, .doc (quote i), rv, dt⟩ = serveDoc sv i ⟨m, .doc (quote i), rv, dt⟩ := serve_doc_quote sv i m rv dt

/-! ## 2. The revision-store invariant holds after every history -/

/-- no revision the client remembers is ahead of the server's counter for that document -/
def RevInv (w : W) : Prop := ∀ q r, (q, r) ∈ w.cl.revs → r ≤ genOf w.sv (unquote q)

private theorem revInv_of_frame {w w' : W} {A : Quoted → Prop} (hI : RevInv w) (hf : Frame w w' A) : RevInv w' := by
  intro q r hm
  rcases hf.2.1 q r hm with h | ⟨_, h⟩
  · exact Nat.le_trans (hI q r h) (hf.1 _)
  · exact h

private theorem frame_step (w : W) (op : Op) : ∃ A, Frame w (step w op).1 A := by
  cases op with
  | client op plan =>
    refine ⟨addrs { w with plan := plan, log := [] } op, ?_⟩
    have := frame_cstep { w with plan := plan, log := [] } op
    exact ⟨this.1, this.2⟩
  | extPut i d =>
    refine ⟨fun _ => False, fun j => ?_, fun q r hm => Or.inl hm, fun hd => ?_⟩
    · simp only [step, extPut]; exact serve_gen_mono _ _ _
    · simp only [step, extPut]; exact docsInv_serve _ hd
  | extDelete i =>
    refine ⟨fun _ => False, fun j => ?_, fun q r hm => Or.inl hm, fun hd => ?_⟩
    · simp only [step, extDelete]; exact serve_gen_mono _ _ _
    · simp only [step, extDelete]; exact docsInv_serve _ hd

theorem c16_inv_init : RevInv init := by intro q r h; simp [init] at h

/-- one step of ANY kind (SDK call with any fault plan, external write) preserves the invariant -/
theorem c16_inv_step (w : W) (op : Op) (hI : RevInv w) : RevInv (step w op).1 := by
  obtain ⟨A, hf⟩ := frame_step w op
  exact revInv_of_frame hI hf

theorem c16_inv_run_from (ops : List Op) : ∀ w, RevInv w → RevInv (run w ops) := by
  induction ops with
  | nil => intro w h; exact h
  | cons op r ih => intro w h; exact ih _ (c16_inv_step w op h)

/-- … hence after every interleaved history of the two clients, with arbitrary faults -/
theorem c16_inv_run (ops : List Op) : RevInv (run init ops) := c16_inv_run_from ops init c16_inv_init

/-! ## 3. No lost update -/

/-- the replica's known revision of `i` (if any) is strictly older than the server's counter -/
def Behind (w : W) (i : Ident) : Prop := ∀ r, (quote i, r) ∈ w.cl.revs → r < genOf w.sv i

/-- an external write makes every replica of that document stale -/
theorem c16_ext_put_behind (w : W) (i : Ident) (d : Data) (hI : RevInv w) : Behind (step w (.extPut i d)).1 i := by
  intro r hm
  have := hI _ _ hm
  rw [unquote_quote] at this
  show r < genOf (extPut w.sv i d) i
  rw [extPut_eq, genOf_write_same]
  exact Nat.lt_succ_of_le this

theorem c16_ext_delete_behind (w : W) (i : Ident) (hI : RevInv w) (hl : (live w.sv i).isSome) :
    Behind (step w (.extDelete i)).1 i := by
  intro r hm
  have := hI _ _ hm
  rw [unquote_quote] at this
  show r < genOf (extDelete w.sv i) i
  rw [extDelete_eq, if_pos hl, genOf_write_same]
  exact Nat.lt_succ_of_le this

private theorem behind_of_frame {w w' : W} {A : Quoted → Prop} {i : Ident} (hb : Behind w i) (hf : Frame w w' A)
    (hA : ¬ A (quote i)) : Behind w' i := by
  intro r hm
  rcases hf.2.1 _ _ hm with h | ⟨h, _⟩
  · exact Nat.lt_of_lt_of_le (hb r h) (hf.1 _)
  · exact absurd h hA

/-- what a step re-learns: the revision-store keys it may set -/
def relearns (w : W) : Op → Quoted → Prop
  | .client op plan => addrs { w with plan := plan, log := [] } op
  | _ => fun _ => False

/-- staleness persists through every step that does not re-read / re-create that document: all external writes, and
    every SDK call addressed elsewhere (whatever its outcome and fault plan) -/
theorem c16_behind_step (w : W) (op : Op) (i : Ident) (hb : Behind w i) (hA : ¬ relearns w op (quote i)) :
    Behind (step w op).1 i := by
  cases op with
  | client op plan =>
    have := frame_cstep { w with plan := plan, log := [] } op
    exact behind_of_frame (w := w) hb ⟨this.1, this.2⟩ hA
  | extPut j d =>
    obtain ⟨A, hf⟩ := frame_step w (.extPut j d)
    refine behind_of_frame (A := fun _ => False) hb ⟨hf.1, fun q r hm => Or.inl hm, hf.2.2⟩ (fun h => h)
  | extDelete j =>
    obtain ⟨A, hf⟩ := frame_step w (.extDelete j)
    refine behind_of_frame (A := fun _ => False) hb ⟨hf.1, fun q r hm => Or.inl hm, hf.2.2⟩ (fun h => h)

/-- a history none of whose steps re-learns `i` -/
def Avoids (i : Ident) : W → List Op → Prop
  | _, [] => True
  | w, op :: r => ¬ relearns w op (quote i) ∧ Avoids i (step w op).1 r

theorem c16_behind_run (i : Ident) (ops : List Op) : ∀ w, Behind w i → Avoids i w ops → Behind (run w ops) i := by
  induction ops with
  | nil => intro w h _; exact h
  | cons op r ih => intro w h ha; exact ih _ (c16_behind_step w op i h ha.1) ha.2

private theorem not_live_of_behind {w : W} {i : Ident} (hb : Behind w i) :
    ∀ r d, AList.get (quote i) w.cl.revs = some r → live w.sv (unquote (quote i)) ≠ some (r, d) := by
  intro r d hg hl
  rw [unquote_quote] at hl
  have := hb r (mem_of_get hg)
  rw [live_gen hl] at this
  exact Nat.lt_irrefl _ this

def isRaise : Out → Prop | .raise _ => True | _ => False

/-- COMMIT from a replica whose known revision is not the server's current one (any fault plan): the call raises and the
    server is unchanged. -/
theorem c16_commit_stale (w : W) (h : Nat) (x : Obj) (q : Quoted) (hx : getObj w h = some x) (hq : x.source = some q)
    (hst : ∀ r d, AList.get q w.cl.revs = some r → live w.sv (unquote q) ≠ some (r, d)) :
    (commit w h).1.sv = w.sv ∧ isRaise (commit w h).2 := by
  unfold commit
  simp only [hx, hq]
  cases hr : AList.get q w.cl.revs with
  | none => exact ⟨rfl, trivial⟩
  | some rev =>
    simp only []
    obtain ⟨hs, hb⟩ := request_stale w .PUT (Or.inl rfl) q rev (some x.data) (fun d => hst rev d hr)
    split
    · rename_i w1 i' rev' heq
      obtain ⟨hw, ho⟩ := eq_of_request heq
      have := (hb _ ho.symm).1
      cases this
    all_goals
      first
        | (rename_i heq; exact ⟨by rw [(eq_of_request heq).1]; exact hs, trivial⟩)
        | (rename_i heq _; exact ⟨by rw [(eq_of_request heq).1]; exact hs, trivial⟩)
        | (rename_i heq _ _; exact ⟨by rw [(eq_of_request heq).1]; exact hs, trivial⟩)
        | (rename_i heq _ _ _; exact ⟨by rw [(eq_of_request heq).1]; exact hs, trivial⟩)


private theorem request_nofault (w : W) (rq : Req) (hp : w.plan = []) :
    request w rq = ({ w with sv := (serve w.sv rq).1, log := w.log ++ [(rq, .resp (serve w.sv rq).2)] },
                    classify rq.method (.resp (serve w.sv rq).2)) := by
  unfold request; rw [hp]

/-- … and without a fault on the wire the error is the conflict error -/
theorem c16_commit_stale_conflict (w : W) (h : Nat) (x : Obj) (i : Ident) (hx : getObj w h = some x)
    (hq : x.source = some (quote i)) (hp : w.plan = [])
    (hst : ∀ r d, AList.get (quote i) w.cl.revs = some r → live w.sv i ≠ some (r, d)) :
    (commit w h).2 = .raise .conflict := by
  unfold commit
  simp only [hx, hq]
  cases hr : AList.get (quote i) w.cl.revs with
  | none => rfl
  | some rev =>
    simp only [request_nofault _ _ hp, serve_doc_quote]
    have h409 : (serveDoc w.sv i ⟨.PUT, .doc (quote i), some rev, some x.data⟩).2 = err 409 := by
      rcases (serveDoc_put_stale w.sv i (quote i) rev (some x.data) (fun d => hst rev d hr)).2 with h | h
      · exact h
      · simp [serveDoc] at h
        cases hl : live w.sv i with
        | none => simp [hl, err] at h
        | some p => obtain ⟨g, d⟩ := p; simp [hl] at h; split at h <;> simp [err] at h
    rw [h409]
    simp [classify, err]

/-- SAFE DELETE from a replica whose known revision is not the server's current one (any fault plan): raises, server
    unchanged -/
theorem c16_safe_delete_stale (w : W) (h : Nat) (x : Obj) (hx : getObj w h = some x)
    (hpl : ∀ f rest, w.plan = some f :: rest → f.kind.genuine)
    (hst : ∀ r d, AList.get (quote x.id) w.cl.revs = some r → live w.sv x.id ≠ some (r, d)) :
    (discard w h true).1.sv = w.sv ∧ isRaise (discard w h true).2 := by
  unfold discard discardG
  simp only [hx]
  cases hr : AList.get (quote x.id) w.cl.revs with
  | none => exact ⟨rfl, trivial⟩
  | some rev =>
    simp only []
    unfold discardWith
    obtain ⟨hs, hb⟩ := request_stale w .DELETE (Or.inr rfl) (quote x.id) rev none
      (fun d => by rw [unquote_quote]; exact hst rev d hr)
    split
    · rename_i w1 b heq
      obtain ⟨hw, ho⟩ := eq_of_request heq
      obtain ⟨_, f, rest, hpf, hng⟩ := hb _ ho.symm
      exact absurd (hpl f rest hpf) hng
    all_goals
      first
        | (rename_i heq; exact ⟨by rw [(eq_of_request heq).1]; exact hs, trivial⟩)
        | (rename_i heq _; exact ⟨by rw [(eq_of_request heq).1]; exact hs, trivial⟩)
        | (rename_i heq _ _; exact ⟨by rw [(eq_of_request heq).1]; exact hs, trivial⟩)
        | (rename_i heq _ _ _; exact ⟨by rw [(eq_of_request heq).1]; exact hs, trivial⟩)


/-- NO LOST UPDATE over interleaved histories.  Take any history `hist` of SDK calls (with arbitrary fault plans) and external
    writes; let the external writer then write document `i`; let any further history `mid` follow that does not re-read or
    re-create `i` (other SDK calls on other documents, failed or not, more external writes …).  Then a `commit()` of ANY local
    replica bound to `i`, under ANY fault plan, raises and leaves the server exactly as it was. -/
theorem c16_no_lost_update (hist mid : List Op) (i : Ident) (d : Data) (plan : List (Option Fault)) (h : Nat) (x : Obj)
    (hav : Avoids i (step (run init hist) (.extPut i d)).1 mid) :
    let w := run (step (run init hist) (.extPut i d)).1 mid
    getObj w h = some x → x.source = some (quote i) →
    (step w (.client (.commit h) plan)).1.sv = w.sv ∧ isRaise (step w (.client (.commit h) plan)).2 := by
  intro w hx hq
  have hb : Behind w i := c16_behind_run i mid _ (c16_ext_put_behind _ i d (c16_inv_run hist)) hav
  have hb' : Behind { w with plan := plan, log := [] } i := hb
  exact c16_commit_stale { w with plan := plan, log := [] } h x (quote i) hx hq (not_live_of_behind hb')

/-- the same for a safe delete (the injected answers being error answers) -/
theorem c16_no_lost_delete (hist mid : List Op) (i : Ident) (d : Data) (plan : List (Option Fault)) (h : Nat) (x : Obj)
    (hav : Avoids i (step (run init hist) (.extPut i d)).1 mid)
    (hpl : ∀ f rest, plan = some f :: rest → f.kind.genuine) :
    let w := run (step (run init hist) (.extPut i d)).1 mid
    getObj w h = some x → x.id = i →
    (step w (.client (.discard h true) plan)).1.sv = w.sv ∧ isRaise (step w (.client (.discard h true) plan)).2 := by
  intro w hx hi
  have hb : Behind w i := c16_behind_run i mid _ (c16_ext_put_behind _ i d (c16_inv_run hist)) hav
  have hb' : Behind { w with plan := plan, log := [] } i := hb
  subst hi
  refine c16_safe_delete_stale { w with plan := plan, log := [] } h x hx hpl ?_
  intro r d' hg hl
  exact not_live_of_behind hb' r d' hg (by rw [unquote_quote]; exact hl)

/-! ## 4. A commit from an up-to-date replica is what every later reader sees -/

private theorem serveDoc_put_current (sv : Server) (i : Ident) (q : Quoted) (g : Rev) (d0 d : Data) (hl : live sv i = some (g, d0)) :
    serveDoc sv i ⟨.PUT, .doc q, some g, some d⟩ = (write sv i (some d), ⟨201, true, .written i (g + 1), some (g + 1)⟩) := by
  simp [serveDoc, hl]

theorem c16_commit_visible (w : W) (h : Nat) (x : Obj) (i : Ident) (g : Rev) (d0 : Data)
    (hx : getObj w h = some x) (hq : x.source = some (quote i)) (hp : w.plan = [])
    (hr : AList.get (quote i) w.cl.revs = some g) (hl : live w.sv i = some (g, d0)) :
    (commit w h).2 = .unit ∧
    live (commit w h).1.sv i = some (g + 1, x.data) ∧
    AList.get (quote i) (commit w h).1.cl.revs = some (g + 1) ∧
    (∀ j, j ≠ i → live (commit w h).1.sv j = live w.sv j) := by
  unfold commit
  simp only [hx, hq, hr, request_nofault _ _ hp, serve_doc_quote, serveDoc_put_current _ _ _ _ _ _ hl]
  simp only [classify]
  refine ⟨by simp, ?_, by simp [setRev], fun j hj => ?_⟩
  · simp only [show (¬ (200 ≤ 201 ∧ 201 < 300)) = False by simp, if_false]
    simp [setRev, live_write_same, live_gen hl]
  · simp only [show (¬ (200 ≤ 201 ∧ 201 < 300)) = False by simp, if_false]
    simp [setRev, live_write_other _ _ hj]

/-- reading: a fault-free `get_identifiable` returns an object carrying exactly the live document, bound to it, and records
    its revision -/
theorem c16_get_reads_live (w : W) (i : Ident) (g : Rev) (d : Data) (hp : w.plan = []) (hl : live w.sv i = some (g, d)) :
    ∃ h, (getByCouchId w i).2 = .handle h ∧
      getObj (getByCouchId w i).1 h = some ⟨i, d, some (quote i)⟩ ∧
      (getByCouchId w i).1.sv = w.sv ∧
      AList.get (quote i) (getByCouchId w i).1.cl.revs = some g := by
  unfold getByCouchId
  simp only [request_nofault _ _ hp, serve_doc_quote]
  simp only [serveDoc, hl, classify]
  simp only [show (¬ (200 ≤ 200 ∧ 200 < 300)) = False by simp, if_false]
  simp only [show (Method.GET = Method.HEAD) = False by simp, if_false]
  simp only [show (true = false) = False by simp, if_false]
  unfold adopt
  cases hc : AList.get i (setRev { w with sv := w.sv, log := _ } (quote i) g).cl.cache with
  | none => exact ⟨_, rfl, by simp [freshObj, getObj, setRev], rfl, by simp [freshObj, setRev]⟩
  | some h' =>
    simp only []
    cases ho : getObj (setRev { w with sv := w.sv, log := _ } (quote i) g) h' with
    | none => exact ⟨_, rfl, by simp [freshObj, getObj, setRev], rfl, by simp [freshObj, setRev]⟩
    | some old =>
      simp only []
      by_cases hs : old.source = some (quote i)
      · simp only [hs, if_true]
        exact ⟨h', rfl, by simp [getObj, setObj, setRev, hs], rfl, by simp [setObj, setRev]⟩
      · simp only [hs, if_false]
        exact ⟨_, rfl, by simp [freshObj, getObj, setRev], rfl, by simp [freshObj, setRev]⟩

/-- `update()` of a bound replica reads the live document -/
theorem c16_update_reads_live (w : W) (h : Nat) (x : Obj) (i : Ident) (g : Rev) (d : Data) (hx : getObj w h = some x)
    (hq : x.source = some (quote i)) (hp : w.plan = []) (hl : live w.sv i = some (g, d)) :
    (update w h).2 = .unit ∧ getObj (update w h).1 h = some ⟨i, d, some (quote i)⟩ ∧
    AList.get (quote i) (update w h).1.cl.revs = some g := by
  unfold update
  simp only [hx, hq, request_nofault _ _ hp, serve_doc_quote]
  simp only [serveDoc, hl, classify]
  simp only [show (¬ (200 ≤ 200 ∧ 200 < 300)) = False by simp, if_false]
  simp only [show (Method.GET = Method.HEAD) = False by simp, if_false]
  simp only [show (true = false) = False by simp, if_false]
  refine ⟨by simp, ?_, ?_⟩
  · simp [getObj, setObj, setRev, hq]
  · simp [setObj, setRev]

/-- so: after a commit from an up-to-date replica, ANY reader of that server state (this client or another one: `w2` is an
    arbitrary client state) that reads without a fault holds the committed payload -/
theorem c16_commit_then_read (w : W) (h : Nat) (x : Obj) (i : Ident) (g : Rev) (d0 : Data)
    (hx : getObj w h = some x) (hq : x.source = some (quote i)) (hp : w.plan = [])
    (hr : AList.get (quote i) w.cl.revs = some g) (hl : live w.sv i = some (g, d0))
    (w2 : W) (hsv : w2.sv = (commit w h).1.sv) (hp2 : w2.plan = []) :
    ∃ h', (getByCouchId w2 i).2 = .handle h' ∧ getObj (getByCouchId w2 i).1 h' = some ⟨i, x.data, some (quote i)⟩ := by
  obtain ⟨_, h2, _, _⟩ := c16_commit_visible w h x i g d0 hx hq hp hr hl
  obtain ⟨h', a, b, _, _⟩ := c16_get_reads_live w2 i (g + 1) x.data hp2 (by rw [hsv]; exact h2)
  exact ⟨h', a, b⟩


/-! ## 5. Errors never look like success -/

/-- what counts as a successful HTTP exchange for `do_request` -/
def Wire.success (m : Method) : Wire → Prop
  | .fail _ => False
  | .resp r => (200 ≤ r.status ∧ r.status < 300) ∧ (m = .HEAD ∨ (r.json = true ∧ r.body ≠ .notJson ∧ r.body ≠ .empty))

/-- one of the documented error types: CouchDBServerError, CouchDBResponseError, CouchDBConnectionError -/
def Outcome.isError : Outcome → Prop
  | .serverError _ | .responseError | .connectionError => True
  | _ => False

/-- protocol assumption: a non-2xx answer whose body parses as JSON has CouchDB's `{error, reason}` shape -/
def Wire.errorShaped : Wire → Prop
  | .fail _ => True
  | .resp r => ¬ (200 ≤ r.status ∧ r.status < 300) → r.json = true → (r.body = .error ∨ r.body = .notJson ∨ r.body = .empty)

/-- TOTALITY of the classification: anything but a genuine 2xx (JSON) answer is turned into one of the CouchDB error types,
    and only a genuine success is returned normally. -/
theorem c16_errors_classify (m : Method) (wr : Wire) (hs : wr.errorShaped) :
    (¬ wr.success m → (classify m wr).isError) ∧ (wr.success m → ¬ (classify m wr).isError) := by
  cases wr with
  | fail k => cases k <;> simp [Wire.success, classify, Outcome.isError]
  | resp r =>
    obtain ⟨st, js, body, etag⟩ := r
    simp only [Wire.success, Wire.errorShaped, classify] at hs ⊢
    by_cases h2 : (200 ≤ st ∧ st < 300)
    · by_cases hm : m = .HEAD
      · simp [h2, hm, Outcome.isError]
      · cases js <;> cases body <;> simp [h2, hm, Outcome.isError]
    · cases js
      · simp [h2, Outcome.isError]
      · by_cases hm : m = .HEAD
        · simp [h2, hm, Outcome.isError]
        · have := hs h2 rfl
          rcases this with h | h | h <;> simp [h2, hm, h, Outcome.isError]

/-- the faults of the property's quantifier: status 401/404/409/412/500 (any non-2xx) with any body, a non-JSON body under
    any status, a failed transport — each surfaces as an error type, for every method -/
theorem c16_errors_fault (m : Method) (k : FaultKind)
    (hk : match k with
          | .status c jt jb => ¬ (200 ≤ c ∧ c < 300) ∨ (m ≠ .HEAD ∧ (jt = false ∨ jb = false))
          | .transport _ => True) :
    (classify m (faultWire k)).isError := by
  cases k with
  | transport t => cases t <;> simp [faultWire, classify, Outcome.isError]
  | status c jt jb =>
    simp only at hk
    simp only [faultWire, classify]
    rcases hk with h | ⟨hm, h⟩
    · cases jt <;> cases jb <;> by_cases hm : m = .HEAD <;> simp [h, hm, Outcome.isError]
    · by_cases h2 : (200 ≤ c ∧ c < 300)
      · cases jt <;> cases jb <;> simp_all [Outcome.isError]
      · cases jt <;> cases jb <;> simp [h2, hm, Outcome.isError]

private theorem excOf_isError {o : Outcome} (h : o.isError) :
    (∃ c, o = .serverError c ∧ excOf o = .serverError c) ∨ (o = .responseError ∧ excOf o = .responseError) ∨
    (o = .connectionError ∧ excOf o = .connectionError) := by
  cases o <;> simp [Outcome.isError, excOf] at h ⊢

/-- every store call whose (first failing) request is classified as an error raises — it never returns normally.
    (`contains` is the one documented exception: a 404 means "not contained".) -/
theorem c16_errors_get (w : W) (i : Ident) (h : (request w ⟨.GET, .doc (quote i), none, none⟩).2.isError) :
    isRaise (getByCouchId w i).2 := by
  unfold getByCouchId
  split <;> simp_all [isRaise, Outcome.isError]

theorem c16_errors_add (w : W) (h : Nat) (x : Obj) (hx : getObj w h = some x)
    (he : (request w ⟨.PUT, .doc (quote x.id), none, some x.data⟩).2.isError) : isRaise (add w h).2 := by
  unfold add
  simp only [hx]
  split <;> simp_all [isRaise, Outcome.isError]

theorem c16_errors_commit (w : W) (h : Nat) (x : Obj) (q : Quoted) (r : Rev) (hx : getObj w h = some x)
    (hq : x.source = some q) (hr : AList.get q w.cl.revs = some r)
    (he : (request w ⟨.PUT, .doc q, some r, some x.data⟩).2.isError) : isRaise (commit w h).2 := by
  unfold commit
  simp only [hx, hq, hr]
  split <;> simp_all [isRaise, Outcome.isError]

theorem c16_errors_update (w : W) (h : Nat) (x : Obj) (q : Quoted) (hx : getObj w h = some x) (hq : x.source = some q)
    (he : (request w ⟨.GET, .doc q, none, none⟩).2.isError) : isRaise (update w h).2 := by
  unfold update
  simp only [hx, hq]
  split <;> simp_all [isRaise, Outcome.isError]

theorem c16_errors_len (w : W) (he : (request w ⟨.GET, .db, none, none⟩).2.isError) : isRaise (len w).2 := by
  unfold len
  split <;> simp_all [isRaise, Outcome.isError]

theorem c16_errors_iter (w : W) (he : (request w ⟨.GET, .allDocs, none, none⟩).2.isError) : isRaise (iter w).2 := by
  unfold iter
  split <;> simp_all [isRaise, Outcome.isError]

theorem c16_errors_contains (w : W) (i : Ident) (he : (request w ⟨.HEAD, .doc (quote i), none, none⟩).2.isError) :
    isRaise (contains w i).2 ∨
    ((request w ⟨.HEAD, .doc (quote i), none, none⟩).2 = .serverError 404 ∧ (contains w i).2 = .bool false) := by
  unfold contains
  split <;> simp_all [isRaise, Outcome.isError]

theorem c16_errors_discardWith (fixed : Bool) (w : W) (h : Nat) (x : Obj) (q : Quoted) (r : Rev)
    (he : (request w ⟨.DELETE, .doc q, some r, none⟩).2.isError) : isRaise (discardWith fixed w h x q r).2 := by
  unfold discardWith
  split <;> simp_all [isRaise, Outcome.isError]

theorem c16_errors_discard_head (w : W) (h : Nat) (x : Obj) (hx : getObj w h = some x)
    (he : (request w ⟨.HEAD, .doc (quote x.id), none, none⟩).2.isError) : isRaise (discard w h false).2 := by
  unfold discard discardG
  simp only [hx]
  split <;> simp_all [isRaise, Outcome.isError]

/-- an iteration stops with the exception of the first failing fetch -/
theorem c16_errors_iterLoop (ids : List Ident) : ∀ (w : W) (acc : List Nat),
    ∃ hs e, (iterLoop w ids acc).2 = .handles hs e := by
  induction ids with
  | nil => intro w acc; exact ⟨_, _, rfl⟩
  | cons i r ih =>
    intro w acc
    unfold iterLoop
    split
    · exact ih _ _
    · exact ⟨_, _, rfl⟩
    · exact ⟨_, _, rfl⟩

theorem c16_errors_iterLoop_stop (i : Ident) (rest : List Ident) (w : W) (acc : List Nat)
    (he : (request w ⟨.GET, .doc (quote i), none, none⟩).2.isError) :
    ∃ e, (iterLoop w (i :: rest) acc).2 = .handles acc.reverse (some e) := by
  have := c16_errors_get w i he
  unfold iterLoop
  split
  · rename_i heq; rw [heq] at this; simp [isRaise] at this
  · exact ⟨_, rfl⟩
  · exact ⟨_, rfl⟩



/-! ## 6. No phantom object: bookkeeping agrees with the server -/

private theorem serveDoc_not_ok_unchanged (sv : Server) (i : Ident) (rq : Req)
    (h : ∀ b, classify rq.method (.resp (serveDoc sv i rq).2) ≠ .ok b) : (serveDoc sv i rq).1 = sv := by
  unfold serveDoc at h ⊢
  cases hm : rq.method <;> simp only [hm] at h ⊢
  · split <;> rfl
  · split <;> rfl
  · cases hd : rq.data with
    | none => rfl
    | some d =>
      simp only [hd] at h ⊢
      cases hl : live sv i with
      | none =>
        simp only [hl] at h ⊢
        by_cases hr : rq.rev = none
        · simp only [hr, if_true] at h; exact absurd rfl (h _)
        · simp [hr]
      | some p =>
        obtain ⟨g, d'⟩ := p
        simp only [hl] at h ⊢
        by_cases hr : rq.rev = some g
        · simp only [hr, if_true] at h; exact absurd rfl (h _)
        · simp [hr]
  · cases hl : live sv i with
    | none => rfl
    | some p =>
      obtain ⟨g, d'⟩ := p
      simp only [hl] at h ⊢
      by_cases hr : rq.rev = some g
      · simp only [hr, if_true] at h; exact absurd rfl (h _)
      · simp [hr]

private theorem serve_not_ok_unchanged (sv : Server) (rq : Req)
    (h : ∀ b, classify rq.method (.resp (serve sv rq).2) ≠ .ok b) : (serve sv rq).1 = sv := by
  unfold serve at h ⊢
  cases ht : rq.target with
  | db => simp only []; split <;> rfl
  | allDocs => simp only []; split <;> rfl
  | doc q =>
    simp only [ht] at h ⊢
    by_cases hq : 47 ∈ q
    · simp [hq]
    · simp only [hq, if_false] at h ⊢
      exact serveDoc_not_ok_unchanged _ _ _ h

private theorem serve_head_unchanged (sv : Server) (rq : Req) (hm : rq.method = .HEAD) : (serve sv rq).1 = sv := by
  apply serve_not_ok_unchanged
  intro b hb
  simp only [classify, hm] at hb
  repeat' split at hb
  all_goals simp_all

/-- a call's plan injects only faults whose request does not reach the server (the answer is replaced, nothing is lost) -/
def Unprocessed (plan : List (Option Fault)) : Prop := ∀ f, some f ∈ plan → f.processed = false

private theorem request_plan (w : W) (rq : Req) : (request w rq).1.plan = w.plan.tail := by
  unfold request; split <;> simp_all

private theorem request_not_ok_unchanged (w : W) (rq : Req) (hu : Unprocessed w.plan)
    (h : ∀ b, (request w rq).2 ≠ .ok b) : (request w rq).1.sv = w.sv := by
  cases hp : w.plan with
  | nil =>
    simp only [request, hp] at h ⊢
    exact serve_not_ok_unchanged _ _ h
  | cons a rest =>
    cases a with
    | none =>
      simp only [request, hp] at h ⊢
      exact serve_not_ok_unchanged _ _ h
    | some f =>
      have : f.processed = false := hu f (by rw [hp]; exact List.mem_cons_self)
      simp [request, hp, this]

private theorem request_head_unchanged (w : W) (q : Quoted) (rv dt) : (request w ⟨.HEAD, .doc q, rv, dt⟩).1.sv = w.sv := by
  rcases (request_cases w ⟨.HEAD, .doc q, rv, dt⟩).2 with ⟨h, _⟩ | ⟨_, h | h, _⟩
  · rw [h]; exact serve_head_unchanged _ _ rfl
  · exact h
  · rw [h]; exact serve_head_unchanged _ _ rfl

private theorem unprocessed_tail {plan : List (Option Fault)} (h : Unprocessed plan) : Unprocessed plan.tail :=
  fun f hf => h f (List.mem_of_mem_tail hf)

/-- `discard` (as patched) is atomic w.r.t. the server: if it raises — and no answer was lost after execution — the server is
    exactly as before.  On the pinned tree this is false: see `c16_pinned_discard_phantom`. -/
theorem c16_discardWith_atomic (w : W) (h : Nat) (x : Obj) (q : Quoted) (r : Rev) (hu : Unprocessed w.plan)
    (hr : isRaise (discardWith true w h x q r).2) : (discardWith true w h x q r).1.sv = w.sv := by
  unfold discardWith at hr ⊢
  split at hr
  · simp [isRaise] at hr
  all_goals
    rename_i heq
    obtain ⟨hw, ho⟩ := eq_of_request heq
    simp only []
    rw [hw]
    apply request_not_ok_unchanged _ _ hu
    intro b hb
    rw [← ho] at hb
    first
      | (cases hb; done)
      | (rename_i hn _ _; exact hn b hb)

theorem c16_discard_atomic (w : W) (h : Nat) (safe : Bool) (hu : Unprocessed w.plan)
    (hr : isRaise (discard w h safe).2) : (discard w h safe).1.sv = w.sv := by
  unfold discard discardG at hr ⊢
  split at hr
  · rfl
  · split at hr
    · exact c16_discardWith_atomic _ _ _ _ _ hu hr
    · rfl
    · split at hr
      · rename_i x _ _ _ _ _ _ heq
        obtain ⟨hw, ho⟩ := eq_of_request heq
        have hsv : (request w ⟨.HEAD, .doc (quote x.id), none, none⟩).1.sv = w.sv := request_head_unchanged _ _ _ _
        have hu' : Unprocessed (request w ⟨.HEAD, .doc (quote x.id), none, none⟩).1.plan := by
          rw [request_plan]; exact unprocessed_tail hu
        rw [hw] at hr ⊢
        rw [c16_discardWith_atomic _ _ _ _ _ hu' hr, hsv]
      all_goals
        rename_i heq
        first
          | (rw [(eq_of_request heq).1]; exact request_head_unchanged _ _ _ _)
          | (rename_i h1 _ _; rw [(eq_of_request h1).1]; exact request_head_unchanged _ _ _ _)
          | (rename_i h1 _ _ _; rw [(eq_of_request h1).1]; exact request_head_unchanged _ _ _ _)


private theorem discardWith_ok (w : W) (h : Nat) (x : Obj) (q : Quoted) (r : Rev) (hr : (discardWith true w h x q r).2 = .unit) :
    AList.get q (discardWith true w h x q r).1.cl.revs = none ∧
    AList.get x.id (discardWith true w h x q r).1.cl.cache = none ∧
    getObj (discardWith true w h x q r).1 h = some { x with source := none } ∧
    ∃ b, (request w ⟨.DELETE, .doc q, some r, none⟩).2 = .ok b ∧
      (discardWith true w h x q r).1.sv = (request w ⟨.DELETE, .doc q, some r, none⟩).1.sv := by
  unfold discardWith at hr ⊢
  split at hr
  · rename_i w1 b heq
    obtain ⟨hw, ho⟩ := eq_of_request heq
    simp only [Bool.not_true, Bool.false_and, Bool.false_eq_true, if_false]
    refine ⟨by simp [setObj, get_eraseKey_same], by simp [setObj, get_eraseKey_same], by simp [getObj, setObj],
      b, ho.symm, by simp [setObj, hw]⟩
  all_goals simp at hr

/-- after a successful `discard` nothing of the object is left behind in this process: no remembered revision, no cache entry,
    no source on the object -/
theorem c16_discard_bookkeeping (w : W) (h : Nat) (safe : Bool) (x : Obj) (hx : getObj w h = some x)
    (hr : (discard w h safe).2 = .unit) :
    AList.get (quote x.id) (discard w h safe).1.cl.revs = none ∧
    AList.get x.id (discard w h safe).1.cl.cache = none ∧
    getObj (discard w h safe).1 h = some { x with source := none } := by
  unfold discard discardG at hr ⊢
  simp only [hx] at hr ⊢
  split at hr
  · obtain ⟨a, b, c, _⟩ := discardWith_ok _ _ _ _ _ hr; exact ⟨a, b, c⟩
  · simp at hr
  · split at hr
    · obtain ⟨a, b, c, _⟩ := discardWith_ok _ _ _ _ _ hr; exact ⟨a, b, c⟩
    all_goals simp at hr

/-- a DELETE that the server itself answered with success removed the document -/
private theorem serve_delete_ok (sv : Server) (i : Ident) (r : Rev) (b : Body)
    (h : classify .DELETE (.resp (serve sv ⟨.DELETE, .doc (quote i), some r, none⟩).2) = .ok b) :
    live (serve sv ⟨.DELETE, .doc (quote i), some r, none⟩).1 i = none := by
  rw [serve_doc_quote] at h ⊢
  unfold serveDoc at h ⊢
  simp only [] at h ⊢
  cases hl : live sv i with
  | none => simp [hl]
  | some p =>
    obtain ⟨g, d⟩ := p
    simp only [hl] at h ⊢
    by_cases hr : some r = some g
    · simp only [hr, if_true]; exact live_write_none _ _
    · simp only [hr, if_false] at h
      simp [classify, err] at h

/-- … and, the injected answers being genuine error answers, a `discard` that returns normally has deleted the document -/
theorem c16_discard_deletes (w : W) (h : Nat) (x : Obj) (hx : getObj w h = some x)
    (hr : AList.get (quote x.id) w.cl.revs ≠ none)
    (hg : ∀ f rest, w.plan = some f :: rest → f.kind.genuine)
    (hu : (discard w h true).2 = .unit) : live (discard w h true).1.sv x.id = none := by
  unfold discard discardG at hu ⊢
  simp only [hx] at hu ⊢
  cases hrv : AList.get (quote x.id) w.cl.revs with
  | none => exact absurd hrv hr
  | some r =>
    simp only [hrv] at hu ⊢
    obtain ⟨_, _, _, b, hb, hsv⟩ := discardWith_ok _ _ _ _ _ hu
    rw [hsv]
    cases hp : w.plan with
    | nil =>
      simp only [request, hp] at hb ⊢
      exact serve_delete_ok _ _ _ _ hb
    | cons a rest =>
      cases a with
      | none =>
        simp only [request, hp] at hb ⊢
        exact serve_delete_ok _ _ _ _ hb
      | some f =>
        simp only [request, hp] at hb
        exact absurd hb (hg f rest hp _ _)

/-- after a successful `add` the object is stored, bound, cached and its revision known -/
theorem c16_add_bookkeeping (w : W) (h : Nat) (x : Obj) (hx : getObj w h = some x) (hr : (add w h).2 = .unit) :
    AList.get x.id (add w h).1.cl.cache = some h ∧
    getObj (add w h).1 h = some { x with source := some (quote x.id) } ∧
    AList.get (quote x.id) (add w h).1.cl.revs = some (genOf (add w h).1.sv x.id) := by
  unfold add at hr ⊢
  simp only [hx] at hr ⊢
  split at hr
  · rename_i w1 i' rev heq
    obtain ⟨hw, ho⟩ := eq_of_request heq
    obtain ⟨_, hg⟩ := request_written ho.symm
    rw [unquote_quote] at hg
    refine ⟨by simp [setObj, setRev], by simp [getObj, setObj], ?_⟩
    simp [setObj, setRev, hw, hg]
  all_goals simp at hr

private theorem serve_put_ok_written (sv : Server) (q : Quoted) (rv : Option Rev) (dt : Option Data) (b : Body)
    (h : classify .PUT (.resp (serve sv ⟨.PUT, .doc q, rv, dt⟩).2) = .ok b) : ∃ i g, b = .written i g := by
  simp only [serve] at h
  by_cases hq : 47 ∈ q
  · simp [hq, classify, err] at h
  · simp only [hq, if_false] at h
    unfold serveDoc at h
    simp only [] at h
    cases dt with
    | none => simp [classify, err] at h
    | some d =>
      simp only [] at h
      cases hl : live sv (unquote q) with
      | none =>
        simp only [hl] at h
        by_cases hr : rv = none
        · simp [hr, classify] at h; exact ⟨_, _, h.symm⟩
        · simp [hr, classify, err] at h
      | some p =>
        obtain ⟨g, d'⟩ := p
        simp only [hl] at h
        by_cases hr : rv = some g
        · simp [hr, classify] at h; exact ⟨_, _, h.symm⟩
        · simp [hr, classify, err] at h

/-- a rejected `add` (no answer lost after execution, injected answers genuine errors) changes neither the server nor the
    client's bookkeeping -/
theorem c16_add_atomic (w : W) (h : Nat) (hu : Unprocessed w.plan) (hr : isRaise (add w h).2) :
    (add w h).1.sv = w.sv ∧ (add w h).1.cl = w.cl := by
  unfold add at hr ⊢
  cases hx : getObj w h with
  | none => exact ⟨rfl, rfl⟩
  | some x =>
    simp only [hx] at hr ⊢
    have key : (request w ⟨.PUT, .doc (quote x.id), none, some x.data⟩).1.sv = w.sv ∨
        ∃ i g, (request w ⟨.PUT, .doc (quote x.id), none, some x.data⟩).2 = .ok (.written i g) := by
      cases hp : w.plan with
      | nil =>
        by_cases hok : ∃ b, (request w ⟨.PUT, .doc (quote x.id), none, some x.data⟩).2 = .ok b
        · obtain ⟨b, hb⟩ := hok
          right
          have hb' := hb
          simp only [request, hp] at hb'
          obtain ⟨i, g, e⟩ := serve_put_ok_written _ _ _ _ _ hb'
          exact ⟨i, g, by rw [hb, e]⟩
        · left; exact request_not_ok_unchanged _ _ hu (fun b hb => hok ⟨b, hb⟩)
      | cons a rest =>
        cases a with
        | none =>
          by_cases hok : ∃ b, (request w ⟨.PUT, .doc (quote x.id), none, some x.data⟩).2 = .ok b
          · obtain ⟨b, hb⟩ := hok
            right
            have hb' := hb
            simp only [request, hp] at hb'
            obtain ⟨i, g, e⟩ := serve_put_ok_written _ _ _ _ _ hb'
            exact ⟨i, g, by rw [hb, e]⟩
          · left; exact request_not_ok_unchanged _ _ hu (fun b hb => hok ⟨b, hb⟩)
        | some f =>
          left
          have : f.processed = false := hu f (by rw [hp]; exact List.mem_cons_self)
          simp [request, hp, this]
    split at hr
    · simp [isRaise] at hr
    all_goals
      rename_i heq
      obtain ⟨hw, ho⟩ := eq_of_request heq
      refine ⟨?_, by simp only []; rw [hw]; exact request_cl _ _⟩
      simp only []
      rw [hw]
      rcases key with k | ⟨i, g, k⟩
      · exact k
      · rw [k] at ho
        clear hw heq k hr hu
        first
          | (cases ho; done)
          | (rename_i hn; injection ho with hb; exact (hn _ _ hb).elim)
          | (rename_i hn _ _; exact (hn _ _ ho).elim)

/-! ### the pinned tree: `del d[key]` after the server-side delete (DESIGN A.16) -/

/-- a local object for an identifier that an external writer has stored -/
def phantomWorld : W := (step (step init (.client (.mk [97] 0) [])).1 (.extPut [97] 7)).1

/-- On the pinned tree, `discard` of that object deletes the document on the server and then raises KeyError, leaving the
    object's source and the call's atomicity broken; the patched `discard` returns normally. -/
theorem c16_pinned_discard_phantom :
    (discardPinned phantomWorld 0 false).2 = .raise .keyError ∧
    live phantomWorld.sv [97] = some (1, 7) ∧ live (discardPinned phantomWorld 0 false).1.sv [97] = none ∧
    (discard phantomWorld 0 false).2 = .unit := by
  decide



/-! ## 7. A single client (no faults, no other writer) refines a persistent map -/

/-- the abstract map: identifier ↦ payload -/
abbrev M := Ident → Option Data
def abs (w : W) : M := fun i => (live w.sv i).map Prod.snd
def upd (m : M) (i : Ident) (v : Option Data) : M := fun j => if j = i then v else m j

private theorem abs_write (w : W) (sv' : Server) (i : Ident) (b : Option Data) (h : sv' = write w.sv i b) (w' : W) (hw : w'.sv = sv') :
    abs w' = upd (abs w) i b := by
  funext j
  unfold abs upd
  rw [hw, h]
  by_cases hj : j = i
  · subst hj
    cases b with
    | none => simp [live_write_none]
    | some d => simp [live_write_same]
  · simp [hj, live_write_other _ _ hj]

private theorem classify_err_code (m : Method) (c : Nat) (hc : 300 ≤ c) (hm : m ≠ .HEAD) : classify m (.resp (err c)) = .serverError c := by
  simp only [classify, err]
  have : ¬ (200 ≤ c ∧ c < 300) := by omega
  simp [this, hm]

private theorem classify_ok (m : Method) (st : Nat) (b : Body) (e : Option Rev) (hs : 200 ≤ st ∧ st < 300) (hm : m ≠ .HEAD)
    (h1 : b ≠ .notJson) (h2 : b ≠ .empty) : classify m (.resp ⟨st, true, b, e⟩) = .ok b := by
  simp only [classify]
  simp only [hs, not_true_eq_false, if_false, hm]
  cases b <;> simp_all

private theorem classify_head_ok (st : Nat) (b : Body) (e : Option Rev) (hs : 200 ≤ st ∧ st < 300) :
    classify .HEAD (.resp ⟨st, true, b, e⟩) = .headers e := by
  simp [classify, hs]

private theorem classify_head_404 : classify .HEAD (.resp ⟨404, true, .empty, none⟩) = .serverError 404 := by
  simp [classify]

/-- single client, nobody else writes, no faults: the client knows the current revision of every live document and every
    bound object is bound to its own document -/
structure Sync (w : W) : Prop where
  revs : ∀ i g d, live w.sv i = some (g, d) → AList.get (quote i) w.cl.revs = some g
  src : ∀ h x q, getObj w h = some x → x.source = some q → q = quote x.id

/-! ### add -/

theorem c16_map_add_dup (w : W) (h : Nat) (x : Obj) (hx : getObj w h = some x) (hp : w.plan = [])
    (hd : abs w x.id ≠ none) : (add w h).2 = .raise .keyError ∧ (add w h).1.sv = w.sv ∧ (add w h).1.cl = w.cl := by
  unfold abs at hd
  cases hl : live w.sv x.id with
  | none => simp [hl] at hd
  | some p =>
    obtain ⟨g, d⟩ := p
    unfold add
    simp only [hx, request_nofault _ _ hp, serve_doc_quote]
    simp only [serveDoc, hl]
    simp only [show (none : Option Rev) = some g ↔ False by simp, if_false]
    rw [classify_err_code _ _ (by decide) (by decide)]
    exact ⟨rfl, rfl, rfl⟩

theorem c16_map_add_new (w : W) (h : Nat) (x : Obj) (hx : getObj w h = some x) (hp : w.plan = [])
    (hd : abs w x.id = none) :
    (add w h).2 = .unit ∧ abs (add w h).1 = upd (abs w) x.id (some x.data) := by
  unfold abs at hd
  cases hl : live w.sv x.id with
  | some p => simp [hl] at hd
  | none =>
    unfold add
    simp only [hx, request_nofault _ _ hp, serve_doc_quote]
    simp only [serveDoc, hl, if_true]
    rw [classify_ok _ _ _ _ (by decide) (by decide) (by simp) (by simp)]
    refine ⟨rfl, ?_⟩
    exact abs_write w _ x.id (some x.data) rfl _ rfl


/-! ### lookup, membership -/

theorem c16_map_get_missing (w : W) (i : Ident) (hp : w.plan = []) (hd : abs w i = none) :
    (getByCouchId w i).2 = .raise .keyError ∧ (getByCouchId w i).1.sv = w.sv ∧ (getByCouchId w i).1.cl = w.cl := by
  unfold abs at hd
  cases hl : live w.sv i with
  | some p => simp [hl] at hd
  | none =>
    unfold getByCouchId
    simp only [request_nofault _ _ hp, serve_doc_quote]
    simp only [serveDoc, hl]
    rw [classify_err_code _ _ (by decide) (by decide)]
    exact ⟨rfl, rfl, rfl⟩

theorem c16_map_get_present (w : W) (i : Ident) (d : Data) (hp : w.plan = []) (hd : abs w i = some d) :
    ∃ h, (getByCouchId w i).2 = .handle h ∧ getObj (getByCouchId w i).1 h = some ⟨i, d, some (quote i)⟩ ∧
      (getByCouchId w i).1.sv = w.sv := by
  unfold abs at hd
  cases hl : live w.sv i with
  | none => simp [hl] at hd
  | some p =>
    obtain ⟨g, d'⟩ := p
    simp [hl] at hd; subst hd
    obtain ⟨h, a, b, c, _⟩ := c16_get_reads_live w i g d' hp hl
    exact ⟨h, a, b, c⟩

theorem c16_map_contains (w : W) (i : Ident) (hp : w.plan = []) :
    (contains w i).2 = .bool (abs w i).isSome ∧ (contains w i).1.sv = w.sv ∧ (contains w i).1.cl = w.cl := by
  unfold contains abs
  simp only [request_nofault _ _ hp, serve_doc_quote]
  cases hl : live w.sv i with
  | none =>
    simp only [serveDoc, hl]
    rw [classify_head_404]
    exact ⟨rfl, rfl, rfl⟩
  | some p =>
    obtain ⟨g, d⟩ := p
    simp only [serveDoc, hl]
    rw [classify_head_ok _ _ _ (by decide)]
    exact ⟨rfl, rfl, rfl⟩

/-! ### commit / update of a bound replica -/

theorem c16_map_commit_unbound (w : W) (h : Nat) (x : Obj) (hx : getObj w h = some x) (hs : x.source = none) :
    commit w h = (w, .unit) := by
  unfold commit; simp [hx, hs]

theorem c16_map_commit_present (w : W) (hS : Sync w) (h : Nat) (x : Obj) (hx : getObj w h = some x)
    (hs : x.source ≠ none) (hp : w.plan = []) (hd : abs w x.id ≠ none) :
    (commit w h).2 = .unit ∧ abs (commit w h).1 = upd (abs w) x.id (some x.data) := by
  cases hq : x.source with
  | none => exact absurd hq hs
  | some q =>
    have hqe : q = quote x.id := hS.src h x q hx hq
    subst hqe
    unfold abs at hd
    cases hl : live w.sv x.id with
    | none => simp [hl] at hd
    | some p =>
      obtain ⟨g, d0⟩ := p
      have hr := hS.revs _ _ _ hl
      obtain ⟨a, b, _, c⟩ := c16_commit_visible w h x x.id g d0 hx hq hp hr hl
      refine ⟨a, ?_⟩
      funext j
      unfold abs upd
      by_cases hj : j = x.id
      · subst hj; simp [b]
      · simp [hj, c j hj]

theorem c16_map_commit_missing (w : W) (hS : Sync w) (h : Nat) (x : Obj) (hx : getObj w h = some x)
    (hs : x.source ≠ none) (hd : abs w x.id = none) :
    isRaise (commit w h).2 ∧ (commit w h).1.sv = w.sv := by
  cases hq : x.source with
  | none => exact absurd hq hs
  | some q =>
    have hqe : q = quote x.id := hS.src h x q hx hq
    subst hqe
    have := c16_commit_stale w h x (quote x.id) hx hq (by
      intro r d _ hl
      rw [unquote_quote] at hl
      unfold abs at hd; simp [hl] at hd)
    exact ⟨this.2, this.1⟩

theorem c16_map_update_unbound (w : W) (h : Nat) (x : Obj) (hx : getObj w h = some x) (hs : x.source = none) :
    update w h = (w, .unit) := by
  unfold update; simp [hx, hs]

theorem c16_map_update_present (w : W) (hS : Sync w) (h : Nat) (x : Obj) (hx : getObj w h = some x)
    (hs : x.source ≠ none) (hp : w.plan = []) (d : Data) (hd : abs w x.id = some d) :
    (update w h).2 = .unit ∧ getObj (update w h).1 h = some ⟨x.id, d, x.source⟩ := by
  cases hq : x.source with
  | none => exact absurd hq hs
  | some q =>
    have hqe : q = quote x.id := hS.src h x q hx hq
    subst hqe
    unfold abs at hd
    cases hl : live w.sv x.id with
    | none => simp [hl] at hd
    | some p =>
      obtain ⟨g, d'⟩ := p
      simp [hl] at hd; subst hd
      obtain ⟨a, b, _⟩ := c16_update_reads_live w h x x.id g d' hx hq hp hl
      exact ⟨a, b⟩

theorem c16_map_update_missing (w : W) (hS : Sync w) (h : Nat) (x : Obj) (hx : getObj w h = some x)
    (hs : x.source ≠ none) (hp : w.plan = []) (hd : abs w x.id = none) :
    (update w h).2 = .raise .keyError ∧ (update w h).1.sv = w.sv ∧ (update w h).1.cl = w.cl := by
  cases hq : x.source with
  | none => exact absurd hq hs
  | some q =>
    have hqe : q = quote x.id := hS.src h x q hx hq
    subst hqe
    unfold abs at hd
    cases hl : live w.sv x.id with
    | some p => simp [hl] at hd
    | none =>
      unfold update
      simp only [hx, hq, request_nofault _ _ hp, serve_doc_quote]
      simp only [serveDoc, hl]
      rw [classify_err_code _ _ (by decide) (by decide)]
      exact ⟨rfl, rfl, rfl⟩


/-! ### discard -/

private theorem discardWith_current (w : W) (h : Nat) (x : Obj) (i : Ident) (g : Rev) (d : Data) (hp : w.plan = [])
    (hl : live w.sv i = some (g, d)) :
    (discardWith true w h x (quote i) g).2 = .unit ∧ (discardWith true w h x (quote i) g).1.sv = write w.sv i none := by
  unfold discardWith
  simp only [request_nofault _ _ hp, serve_doc_quote]
  simp only [serveDoc, hl, if_true]
  rw [classify_ok _ _ _ _ (by decide) (by decide) (by simp) (by simp)]
  simp [setObj]

theorem c16_map_discard_present (w : W) (hS : Sync w) (h : Nat) (safe : Bool) (x : Obj) (hx : getObj w h = some x)
    (hp : w.plan = []) (hd : abs w x.id ≠ none) :
    (discard w h safe).2 = .unit ∧ abs (discard w h safe).1 = upd (abs w) x.id none := by
  unfold abs at hd
  cases hl : live w.sv x.id with
  | none => simp [hl] at hd
  | some p =>
    obtain ⟨g, d⟩ := p
    have hr := hS.revs _ _ _ hl
    unfold discard discardG
    simp only [hx, hr]
    cases safe with
    | true =>
      simp only []
      obtain ⟨a, b⟩ := discardWith_current w h x x.id g d hp hl
      exact ⟨a, abs_write w _ x.id none b _ rfl⟩
    | false =>
      simp only [request_nofault _ _ hp, serve_doc_quote]
      simp only [serveDoc, hl]
      rw [classify_head_ok _ _ _ (by decide)]
      simp only []
      obtain ⟨a, b⟩ := discardWith_current { w with log := w.log ++ [_] } h x x.id g d hp hl
      exact ⟨a, abs_write w _ x.id none b _ rfl⟩

theorem c16_map_discard_missing (w : W) (h : Nat) (safe : Bool) (x : Obj) (hx : getObj w h = some x)
    (hp : w.plan = []) (hd : abs w x.id = none) :
    isRaise (discard w h safe).2 ∧ (discard w h safe).1.sv = w.sv := by
  have hl : live w.sv x.id = none := by
    unfold abs at hd
    cases hl : live w.sv x.id with
    | none => rfl
    | some p => simp [hl] at hd
  cases safe with
  | true =>
    have := c16_safe_delete_stale w h x hx (by intro f rest hf; rw [hp] at hf; cases hf) (by
      intro r d _ hl'; rw [hl] at hl'; cases hl')
    exact ⟨this.2, this.1⟩
  | false =>
    unfold discard discardG
    simp only [hx, request_nofault _ _ hp, serve_doc_quote]
    simp only [serveDoc, hl]
    rw [classify_head_404]
    exact ⟨trivial, rfl⟩

/-! ### len / iteration -/

private theorem live_isSome_of_mem {docs : List (Ident × Doc)} (hn : (AList.keys docs).Nodup) {i : Ident} {dc : Doc}
    (hm : (i, dc) ∈ docs) : AList.get i docs = some dc := by
  induction docs with
  | nil => cases hm
  | cons hd t ih =>
    obtain ⟨k, v⟩ := hd
    have hn' : k ∉ AList.keys t ∧ (AList.keys t).Nodup := by simpa [AList.keys, List.nodup_cons] using hn
    rcases List.mem_cons.1 hm with e | hm'
    · cases e; simp [AList.get]
    · have hk : k ≠ i := by
        intro e; apply hn'.1; rw [e]; exact AList.mem_keys_of_get (ih hn'.2 hm')
      simp [AList.get, hk, ih hn'.2 hm']

/-- the `_all_docs` listing enumerates exactly the domain of the abstract map, each identifier once -/
theorem c16_liveIds_enumerates (w : W) (hn : DocsInv w.sv) :
    (liveIds w.sv).Nodup ∧ ∀ i, i ∈ liveIds w.sv ↔ (abs w i).isSome := by
  constructor
  · unfold liveIds
    have : ((w.sv.docs.filter (fun p => p.2.body.isSome)).map Prod.fst).Sublist (AList.keys w.sv.docs) := by
      unfold AList.keys
      exact List.Sublist.map _ List.filter_sublist
    exact this.nodup hn
  · intro i
    unfold liveIds abs live lookup
    constructor
    · intro hm
      obtain ⟨⟨k, dc⟩, hmem, hk⟩ := List.mem_map.1 hm
      simp only at hk; subst hk
      obtain ⟨hin, hb⟩ := List.mem_filter.1 hmem
      rw [live_isSome_of_mem hn hin]
      obtain ⟨g, b⟩ := dc
      cases b with
      | none => simp at hb
      | some d => simp
    · intro hs
      cases hg : AList.get i w.sv.docs with
      | none => simp [hg] at hs
      | some dc =>
        obtain ⟨g, b⟩ := dc
        cases b with
        | none => simp [hg] at hs
        | some d =>
          exact List.mem_map.2 ⟨(i, ⟨g, some d⟩), List.mem_filter.2 ⟨mem_of_get hg, by simp⟩, rfl⟩

theorem c16_map_len (w : W) (hp : w.plan = []) :
    (len w).2 = .nat (liveIds w.sv).length ∧ (len w).1.sv = w.sv ∧ (len w).1.cl = w.cl := by
  unfold len
  simp only [request_nofault _ _ hp]
  simp only [serve]
  rw [classify_ok _ _ _ _ (by decide) (by decide) (by simp) (by simp)]
  exact ⟨rfl, rfl, rfl⟩


/-! ### the single-client invariant is preserved -/

private theorem sync_congr {w w' : W} (hr : w'.cl.revs = w.cl.revs) (ho : w'.cl.objs = w.cl.objs) (hs : w'.sv = w.sv)
    (h : Sync w) : Sync w' :=
  ⟨fun i g d hl => by rw [hr]; exact h.revs i g d (by rw [← hs]; exact hl),
   fun hh x q hx hq => h.src hh x q (by unfold getObj at hx ⊢; rw [← ho]; exact hx) hq⟩

private theorem sync_setRev {w : W} (h : Sync w) (i : Ident) (g : Rev) (d : Data) (hl : live w.sv i = some (g, d)) :
    Sync (setRev w (quote i) g) := by
  refine ⟨fun j g' d' hl' => ?_, fun hh x q hx hq => h.src hh x q hx hq⟩
  by_cases hj : j = i
  · subst hj
    have hl'' : live w.sv j = some (g', d') := hl'
    rw [hl] at hl''; cases hl''
    simp [setRev]
  · have : quote j ≠ quote i := fun e => hj (quote_injective e)
    simp only [setRev]
    rw [AList.get_set_other _ _ this]
    exact h.revs j g' d' hl'

private theorem sync_setObj {w : W} (h : Sync w) (hh : Nat) (x : Obj) (hx : ∀ q, x.source = some q → q = quote x.id) :
    Sync (setObj w hh x) := by
  refine ⟨fun j g d hl => h.revs j g d hl, fun h' x' q hx' hq => ?_⟩
  by_cases e : h' = hh
  · subst e
    simp [getObj, setObj] at hx'
    subst hx'
    exact hx q hq
  · simp only [getObj, setObj] at hx'
    rw [AList.get_set_other _ _ e] at hx'
    exact h.src h' x' q hx' hq

private theorem sync_adopt {w : W} (h : Sync w) (i : Ident) (d : Data) : Sync (adopt w i d).1 := by
  have hf : Sync (freshObj w i d).1 := by
    refine ⟨fun j g d' hl => h.revs j g d' hl, fun h' x' q hx' hq => ?_⟩
    by_cases e : h' = w.cl.next
    · subst e
      simp [getObj, freshObj] at hx'
      subst hx'
      simp at hq; exact hq.symm
    · simp only [getObj, freshObj] at hx'
      rw [AList.get_set_other _ _ e] at hx'
      exact h.src h' x' q hx' hq
  unfold adopt
  split
  · split
    · split
      · rename_i old _ hsrc
        exact sync_setObj h _ _ (fun q hq => by simp [hsrc] at hq; exact hq.symm)
      · exact hf
    · exact hf
  · exact hf

theorem c16_sync_get (w : W) (hS : Sync w) (i : Ident) (hp : w.plan = []) :
    Sync (getByCouchId w i).1 ∧ (getByCouchId w i).1.plan = [] ∧ (getByCouchId w i).1.sv = w.sv := by
  unfold getByCouchId
  simp only [request_nofault _ _ hp, serve_doc_quote]
  cases hl : live w.sv i with
  | none =>
    simp only [serveDoc, hl]
    rw [classify_err_code _ _ (by decide) (by decide)]
    simp only []
    exact ⟨sync_congr (w := w) rfl rfl rfl hS, hp, trivial⟩
  | some p =>
    obtain ⟨g, d⟩ := p
    simp only [serveDoc, hl]
    rw [classify_ok _ _ _ _ (by decide) (by decide) (by simp) (by simp)]
    simp only []
    have h1 : Sync ({ w with sv := w.sv, log := w.log ++ [(⟨.GET, .doc (quote i), none, none⟩,
        Wire.resp ⟨200, true, .doc i g d, some g⟩)] } : W) := sync_congr (w := w) rfl rfl rfl hS
    have h2 := sync_setRev h1 i g d hl
    refine ⟨sync_adopt h2 i d, ?_, ?_⟩
    · unfold adopt; repeat' split
      all_goals simp [setObj, freshObj, setRev, hp]
    · unfold adopt; repeat' split
      all_goals simp [setObj, freshObj, setRev]


private theorem sync_written {w : W} (h : Sync w) (i : Ident) (d : Data) (w' : W)
    (hs : w'.sv = write w.sv i (some d)) (hr : w'.cl.revs = AList.set (quote i) (genOf w.sv i + 1) w.cl.revs)
    (ho : w'.cl.objs = w.cl.objs) : Sync w' := by
  refine ⟨fun j g d' hl => ?_, fun hh x q hx hq => h.src hh x q (by unfold getObj at hx ⊢; rw [← ho]; exact hx) hq⟩
  rw [hs] at hl
  rw [hr]
  by_cases hj : j = i
  · subst hj
    rw [live_write_same] at hl; cases hl
    simp
  · rw [live_write_other _ _ hj] at hl
    have : quote j ≠ quote i := fun e => hj (quote_injective e)
    rw [AList.get_set_other _ _ this]
    exact h.revs j g d' hl

private theorem sync_deleted {w : W} (h : Sync w) (i : Ident) (w' : W)
    (hs : w'.sv = write w.sv i none) (hr : w'.cl.revs = eraseKey (quote i) w.cl.revs)
    (ho : w'.cl.objs = w.cl.objs) : Sync w' := by
  refine ⟨fun j g d' hl => ?_, fun hh x q hx hq => h.src hh x q (by unfold getObj at hx ⊢; rw [← ho]; exact hx) hq⟩
  rw [hs] at hl
  rw [hr]
  by_cases hj : j = i
  · subst hj
    rw [live_write_none] at hl; cases hl
  · rw [live_write_other _ _ hj] at hl
    have : quote j ≠ quote i := fun e => hj (quote_injective e)
    rw [get_eraseKey_other _ this]
    exact h.revs j g d' hl

theorem c16_sync_add (w : W) (hS : Sync w) (h : Nat) (hp : w.plan = []) : Sync (add w h).1 := by
  cases hx : getObj w h with
  | none => unfold add; simp only [hx]; exact hS
  | some x =>
    by_cases hd : abs w x.id = none
    · unfold abs at hd
      cases hl : live w.sv x.id with
      | some p => simp [hl] at hd
      | none =>
        unfold add
        simp only [hx, request_nofault _ _ hp, serve_doc_quote]
        simp only [serveDoc, hl, if_true]
        rw [classify_ok _ _ _ _ (by decide) (by decide) (by simp) (by simp)]
        simp only []
        apply sync_setObj _ _ _ (fun q hq => by simp at hq; exact hq.symm)
        exact sync_written hS x.id x.data _ rfl rfl rfl
    · obtain ⟨_, h2, h3⟩ := c16_map_add_dup w h x hx hp hd
      exact sync_congr (by rw [h3]) (by rw [h3]) h2 hS

theorem c16_sync_commit (w : W) (hS : Sync w) (h : Nat) (hp : w.plan = []) : Sync (commit w h).1 := by
  cases hx : getObj w h with
  | none => unfold commit; simp only [hx]; exact hS
  | some x =>
    cases hq : x.source with
    | none => rw [c16_map_commit_unbound w h x hx hq]; exact hS
    | some q =>
      have hqe : q = quote x.id := hS.src h x q hx hq
      subst hqe
      unfold commit
      simp only [hx, hq]
      cases hr : AList.get (quote x.id) w.cl.revs with
      | none => exact hS
      | some r =>
        simp only [request_nofault _ _ hp, serve_doc_quote]
        cases hl : live w.sv x.id with
        | none =>
          simp only [serveDoc, hl]
          simp only [show (some r : Option Rev) = none ↔ False by simp, if_false]
          rw [classify_err_code _ _ (by decide) (by decide)]
          simp only []
          exact sync_congr (w := w) rfl rfl rfl hS
        | some p =>
          obtain ⟨g, d0⟩ := p
          have hrg : r = g := by
            have := hS.revs _ _ _ hl; rw [hr] at this; cases this; rfl
          subst hrg
          simp only [serveDoc, hl, if_true]
          rw [classify_ok _ _ _ _ (by decide) (by decide) (by simp) (by simp)]
          simp only []
          exact sync_written hS x.id x.data _ rfl (by simp [setRev, live_gen hl]) rfl

theorem c16_sync_update (w : W) (hS : Sync w) (h : Nat) (hp : w.plan = []) : Sync (update w h).1 := by
  cases hx : getObj w h with
  | none => unfold update; simp only [hx]; exact hS
  | some x =>
    cases hq : x.source with
    | none => rw [c16_map_update_unbound w h x hx hq]; exact hS
    | some q =>
      have hqe : q = quote x.id := hS.src h x q hx hq
      subst hqe
      unfold update
      simp only [hx, hq, request_nofault _ _ hp, serve_doc_quote]
      cases hl : live w.sv x.id with
      | none =>
        simp only [serveDoc, hl]
        rw [classify_err_code _ _ (by decide) (by decide)]
        simp only []
        exact sync_congr (w := w) rfl rfl rfl hS
      | some p =>
        obtain ⟨g, d⟩ := p
        simp only [serveDoc, hl]
        rw [classify_ok _ _ _ _ (by decide) (by decide) (by simp) (by simp)]
        simp only []
        apply sync_setObj _ _ _ (fun q hq' => by simp [hq] at hq'; exact hq'.symm)
        refine sync_setRev ?_ x.id g d hl
        exact sync_congr (w := w) rfl rfl rfl hS


private theorem discardWith_current_state (w : W) (h : Nat) (x : Obj) (i : Ident) (g : Rev) (d : Data) (hp : w.plan = [])
    (hl : live w.sv i = some (g, d)) :
    (discardWith true w h x (quote i) g).1 =
      setObj { w with cl := { w.cl with revs := eraseKey (quote i) w.cl.revs, cache := eraseKey x.id w.cl.cache },
                      sv := write w.sv i none,
                      log := w.log ++ [(⟨.DELETE, .doc (quote i), some g, none⟩,
                                        Wire.resp ⟨200, true, .written i (g + 1), some (g + 1)⟩)] } h { x with source := none } := by
  unfold discardWith
  simp only [request_nofault _ _ hp, serve_doc_quote]
  simp only [serveDoc, hl, if_true]
  rw [classify_ok _ _ _ _ (by decide) (by decide) (by simp) (by simp)]
  simp

theorem c16_sync_discard (w : W) (hS : Sync w) (h : Nat) (safe : Bool) (hp : w.plan = []) : Sync (discard w h safe).1 := by
  cases hx : getObj w h with
  | none => unfold discard discardG; simp only [hx]; exact hS
  | some x =>
    cases hl : live w.sv x.id with
    | none =>
      -- nothing to delete: every path raises without touching the bookkeeping
      unfold discard discardG
      simp only [hx]
      cases safe with
      | false =>
        simp only [request_nofault _ _ hp, serve_doc_quote]
        simp only [serveDoc, hl]
        rw [classify_head_404]
        simp only []
        exact sync_congr (w := w) rfl rfl rfl hS
      | true =>
        cases hr : AList.get (quote x.id) w.cl.revs with
        | none => exact hS
        | some r =>
          simp only []
          unfold discardWith
          simp only [request_nofault _ _ hp, serve_doc_quote]
          simp only [serveDoc, hl]
          rw [classify_err_code _ _ (by decide) (by decide)]
          simp only []
          exact sync_congr (w := w) rfl rfl rfl hS
    | some p =>
      obtain ⟨g, d⟩ := p
      have hr := hS.revs _ _ _ hl
      unfold discard discardG
      simp only [hx, hr]
      cases safe with
      | true =>
        simp only []
        rw [discardWith_current_state w h x x.id g d hp hl]
        apply sync_setObj _ _ _ (fun q hq => by simp at hq)
        exact sync_deleted hS x.id _ rfl rfl rfl
      | false =>
        simp only [request_nofault _ _ hp, serve_doc_quote]
        simp only [serveDoc, hl]
        rw [classify_head_ok _ _ _ (by decide)]
        simp only []
        rw [discardWith_current_state { w with log := w.log ++ [_] } h x x.id g d hp hl]
        apply sync_setObj _ _ _ (fun q hq => by simp at hq)
        exact sync_deleted hS x.id _ rfl rfl rfl

theorem c16_sync_local (w : W) (hS : Sync w) :
    (∀ i d, Sync (mk w i d).1) ∧ (∀ h d, Sync (modify w h d).1) ∧ (∀ h, Sync (drop w h).1) := by
  refine ⟨fun i d => ?_, fun h d => ?_, fun h => ?_⟩
  · refine ⟨fun j g d' hl => hS.revs j g d' hl, fun h' x' q hx' hq => ?_⟩
    by_cases e : h' = w.cl.next
    · subst e
      simp [getObj, mk] at hx'
      subst hx'
      simp at hq
    · simp only [getObj, mk] at hx'
      rw [AList.get_set_other _ _ e] at hx'
      exact hS.src h' x' q hx' hq
  · unfold modify
    cases hx : getObj w h with
    | none => exact hS
    | some x => exact sync_setObj hS _ _ (fun q hq => hS.src h x q hx hq)
  · refine ⟨fun j g d' hl => hS.revs j g d' hl, fun h' x' q hx' hq => ?_⟩
    simp only [getObj, drop] at hx'
    by_cases e : h' = h
    · subst e; rw [get_eraseKey_same] at hx'; cases hx'
    · rw [get_eraseKey_other _ e] at hx'
      exact hS.src h' x' q hx' hq

theorem c16_sync_iterLoop (ids : List Ident) : ∀ (w : W) (acc : List Nat), Sync w → w.plan = [] →
    (∀ i ∈ ids, (live w.sv i).isSome) →
    Sync (iterLoop w ids acc).1 ∧ (iterLoop w ids acc).1.sv = w.sv ∧
    ∃ hs, (iterLoop w ids acc).2 = .handles (acc.reverse ++ hs) none ∧ hs.length = ids.length := by
  induction ids with
  | nil => intro w acc hS _ _; exact ⟨hS, rfl, [], by simp [iterLoop], rfl⟩
  | cons i rest ih =>
    intro w acc hS hp hall
    have hli := hall i List.mem_cons_self
    cases hl : live w.sv i with
    | none => simp [hl] at hli
    | some p =>
      obtain ⟨g, d⟩ := p
      obtain ⟨h, ho, _, hsv, _⟩ := c16_get_reads_live w i g d hp hl
      obtain ⟨hS', hp', _⟩ := c16_sync_get w hS i hp
      unfold iterLoop
      have hpair : getByCouchId w i = ((getByCouchId w i).1, .handle h) := by rw [← ho]
      rw [hpair]
      simp only []
      obtain ⟨a, b, hs, c, e⟩ := ih (getByCouchId w i).1 (h :: acc) hS' hp'
        (fun j hj => by rw [hsv]; exact hall j (List.mem_cons_of_mem _ hj))
      refine ⟨a, by rw [b, hsv], h :: hs, ?_, by simp [e]⟩
      rw [c]; simp

/-- `list(store)` of a single client: every live document is yielded (one object per listed identifier, no exception), the
    server is untouched -/
theorem c16_map_iter (w : W) (hS : Sync w) (hn : DocsInv w.sv) (hp : w.plan = []) :
    Sync (iter w).1 ∧ (iter w).1.sv = w.sv ∧
    ∃ hs, (iter w).2 = .handles hs none ∧ hs.length = (liveIds w.sv).length := by
  unfold iter
  simp only [request_nofault _ _ hp]
  simp only [serve]
  rw [classify_ok _ _ _ _ (by decide) (by decide) (by simp) (by simp)]
  simp only []
  have hall : ∀ i ∈ liveIds w.sv, (live w.sv i).isSome := by
    intro i hi
    have := ((c16_liveIds_enumerates w hn).2 i).1 hi
    unfold abs at this
    cases hl : live w.sv i with
    | none => simp [hl] at this
    | some p => simp
  obtain ⟨a, b, hs, c, e⟩ := c16_sync_iterLoop (liveIds w.sv)
    { w with log := w.log ++ [(⟨.GET, .allDocs, none, none⟩, Wire.resp ⟨200, true, .rows (liveIds w.sv), none⟩)] } []
    (sync_congr (w := w) rfl rfl rfl hS) hp hall
  exact ⟨a, b, hs, by simpa using c, e⟩

/-- a history of SDK calls only, none of them faulted -/
def SingleClient : List Op → Prop
  | [] => True
  | .client _ plan :: r => plan = [] ∧ SingleClient r
  | _ :: _ => False

theorem c16_sync_step (w : W) (hS : Sync w) (hn : DocsInv w.sv) (op : COp) : Sync (step w (.client op [])).1 := by
  have hS' : Sync ({ w with plan := [], log := [] } : W) := sync_congr (w := w) rfl rfl rfl hS
  cases op with
  | mk i d => exact (c16_sync_local _ hS').1 i d
  | modify h d => exact (c16_sync_local _ hS').2.1 h d
  | drop h => exact (c16_sync_local _ hS').2.2 h
  | add h => exact c16_sync_add _ hS' h rfl
  | get i => exact (c16_sync_get _ hS' i rfl).1
  | commit h => exact c16_sync_commit _ hS' h rfl
  | update h => exact c16_sync_update _ hS' h rfl
  | discard h s => exact c16_sync_discard _ hS' h s rfl
  | contains i =>
    obtain ⟨_, b, c⟩ := c16_map_contains ({ w with plan := [], log := [] } : W) i rfl
    show Sync (contains { w with plan := [], log := [] } i).1
    exact sync_congr (congrArg Client.revs c) (congrArg Client.objs c) b hS'
  | len =>
    obtain ⟨_, b, c⟩ := c16_map_len ({ w with plan := [], log := [] } : W) rfl
    show Sync (len { w with plan := [], log := [] }).1
    exact sync_congr (congrArg Client.revs c) (congrArg Client.objs c) b hS'
  | iter => exact (c16_map_iter _ hS' hn rfl).1

private theorem docsInv_step (w : W) (op : Op) (hn : DocsInv w.sv) : DocsInv (step w op).1.sv := by
  obtain ⟨A, hf⟩ := frame_step w op
  exact hf.2.2 hn

/-- THE SINGLE-CLIENT INVARIANT holds after every fault-free history of SDK calls; with the per-call theorems `c16_map_*`
    above (each stated under `Sync`) this is the refinement of the store to a persistent map `Ident → Option Data`:
    `add` ↦ insert-if-absent else KeyError, `get` ↦ lookup else KeyError, `commit` ↦ overwrite, `update` ↦ read,
    `discard` ↦ delete else KeyError, `contains` ↦ membership, `len`/`iter` ↦ size / enumeration of the domain. -/
theorem c16_map_invariant (ops : List Op) : ∀ w, Sync w → DocsInv w.sv → SingleClient ops →
    Sync (run w ops) ∧ DocsInv (run w ops).sv := by
  induction ops with
  | nil => intro w hS hn _; exact ⟨hS, hn⟩
  | cons op r ih =>
    intro w hS hn hsc
    cases op with
    | client c plan =>
      obtain ⟨hp, hr⟩ := hsc
      subst hp
      exact ih _ (c16_sync_step w hS hn c) (docsInv_step w _ hn) hr
    | extPut i d => exact absurd hsc (by simp [SingleClient])
    | extDelete i => exact absurd hsc (by simp [SingleClient])

theorem c16_map_init : Sync init ∧ DocsInv init.sv := by
  refine ⟨⟨fun i g d hl => ?_, fun h x q hx _ => ?_⟩, ?_⟩
  · simp [init, live, lookup] at hl
  · simp [init, getObj] at hx
  · simp [init, DocsInv, AList.keys]

theorem c16_map_run (ops : List Op) (h : SingleClient ops) : Sync (run init ops) ∧ DocsInv (run init ops).sv :=
  c16_map_invariant ops init c16_map_init.1 c16_map_init.2 h



/-! ## 8. Non-vacuity: the hypotheses of the theorems above are satisfiable, and what they exclude really fails -/

/-- id "a" (one byte), id "/" (needs quoting) -/
def idA : Ident := [97]
def idSlash : Ident := [47]

example : quote idSlash = [37, 50, 70] ∧ unquote (quote idSlash) = idSlash := by decide

/-- the SDK adds "a", an external writer overwrites it, the SDK commits its stale replica -/
def staleHist : List Op := [.client (.mk idA 0) [], .client (.add 0) []]

-- hypotheses of `c16_no_lost_update` hold on a concrete interleaving, and its conclusion is the conflict error
example :
    let w := run (step (run init staleHist) (.extPut idA 5)).1 [.client (.mk idSlash 1) [], .client (.add 1) [], .extPut idSlash 9]
    Avoids idA (step (run init staleHist) (.extPut idA 5)).1 [.client (.mk idSlash 1) [], .client (.add 1) [], .extPut idSlash 9] ∧
    (∃ x, getObj w 0 = some x ∧ x.source = some (quote idA)) ∧
    (step w (.client (.commit 0) [])).2 = .raise .conflict ∧
    live (step w (.client (.commit 0) [])).1.sv idA = some (2, 5) := by
  refine ⟨?_, ?_, ?_, ?_⟩
  · refine ⟨fun h => h, ?_, fun h => h, trivial⟩
    intro h
    obtain ⟨x, hx, hq⟩ := h
    have h2 : getObj ({ (step (step (run init staleHist) (.extPut idA 5)).1 (.client (.mk idSlash 1) [])).1 with
        plan := [], log := [] } : W) 1 = some ⟨idSlash, 1, none⟩ := by decide
    rw [h2] at hx
    cases hx
    revert hq; decide
  · exact ⟨⟨idA, 0, some (quote idA)⟩, by decide, by decide⟩
  · decide
  · decide

-- hypotheses of `c16_commit_visible` / `c16_commit_then_read`: an up-to-date replica
example :
    let w := run init (staleHist ++ [.client (.modify 0 3) []])
    (∃ x, getObj w 0 = some x ∧ x.source = some (quote idA) ∧ x.data = 3) ∧ w.plan = [] ∧
    AList.get (quote idA) w.cl.revs = some 1 ∧ live w.sv idA = some (1, 0) ∧
    (commit w 0).2 = .unit ∧ live (commit w 0).1.sv idA = some (2, 3) := by decide

-- `Behind`, `RevInv`, `Sync`, `DocsInv`, `Unprocessed`, `SingleClient` are inhabited by non-trivial worlds
example : Behind (step (run init staleHist) (.extPut idA 5)).1 idA ∧ (run init staleHist).cl.revs ≠ [] :=
  ⟨c16_ext_put_behind _ _ _ (c16_inv_run _), by decide⟩

example : SingleClient staleHist ∧ (run init staleHist).sv.docs ≠ [] := ⟨⟨rfl, rfl, trivial⟩, by decide⟩

example : Unprocessed [none, some ⟨.status 500 true true, false⟩] := by
  intro f hf; simp at hf; subst hf; rfl

example : (FaultKind.status 500 true true).genuine ∧ (FaultKind.status 404 false false).genuine ∧
    (FaultKind.transport .protocol).genuine ∧ (FaultKind.status 200 true false).genuine := by
  refine ⟨?_, ?_, ?_, ?_⟩ <;> intro m b <;> cases m <;> simp [classify, faultWire]

-- … and what `genuine` excludes really breaks the statement: a 2xx answer with a JSON body is success for `discard`
example :
    let w : W := { (step (run init staleHist) (.extPut idA 5)).1 with plan := [some ⟨.status 200 true true, false⟩] }
    (discard w 0 true).2 = .unit ∧ (discard w 0 true).1.sv = w.sv := by decide

-- protocol assumption of `c16_errors_classify`: a non-2xx JSON body that is not error-shaped leaks a KeyError
example : classify .GET (.resp ⟨500, true, .dbInfo 0, none⟩) = .keyError := by decide

-- a processed-but-lost answer is why atomicity needs `Unprocessed`: the add happened, the call raised
example :
    let w : W := { (step init (.client (.mk idA 0) [])).1 with plan := [some ⟨.transport .protocol, true⟩] }
    (add w 0).2 = .raise .connectionError ∧ live (add w 0).1.sv idA = some (1, 0) := by decide

-- map refinement hypotheses: present / missing documents
example : abs (run init staleHist) idA = some 0 ∧ abs (run init staleHist) idSlash = none := by decide


/-! ### the replica the application holds stays THE replica (round 8) -/

/-- **A discard that fails changes nothing on the client side**: whatever the failure (conflict on a stale revision, a
    transport or server fault at the HEAD or the DELETE request, a missing revision) - the replicas, the object cache and
    the known revisions are exactly what they were. -/
theorem c16_failed_discard_keeps_client (w : W) (h : Nat) (safe : Bool) (hr : isRaise (discard w h safe).2) :
    (discard w h safe).1.cl = w.cl := by
  rcases discard_unit_or_cl w h safe with hu | hc
  · rw [hu] at hr; simp [isRaise] at hr
  · exact hc

/-- **A retrieval hands out the live replica**: when the cache files `i` under a live replica whose source is `i`'s
    document, the object a retrieval returns is that very replica (refreshed), and the cache is unchanged. -/
theorem c16_get_returns_live_replica (w : W) (i : Ident) (d : Data) (h : Nat) (old : Obj)
    (hc : AList.get i w.cl.cache = some h) (ho : getObj w h = some old) (hs : old.source = some (quote i)) :
    (adopt w i d).2 = .handle h ∧ (adopt w i d).1.cl.cache = w.cl.cache := by
  simp [adopt, hc, ho, hs, setObj]

/-- **… also after a discard that failed**: the replica the application holds is still the one every later retrieval
    returns - there are never two replicas of one document of which the stale one could overwrite what the other read
    (what seeded change C16-r8-1 - eviction from the cache BEFORE the DELETE request - breaks). -/
theorem c16_replica_survives_failed_discard (w : W) (h : Nat) (safe : Bool) (x : Obj) (hx : getObj w h = some x)
    (hs : x.source = some (quote x.id)) (hc : AList.get x.id w.cl.cache = some h) (hr : isRaise (discard w h safe).2) (d : Data) :
    (adopt (discard w h safe).1 x.id d).2 = .handle h := by
  have hcl := c16_failed_discard_keeps_client w h safe hr
  refine (c16_get_returns_live_replica (discard w h safe).1 x.id d h x ?_ ?_ hs).1
  · rw [hcl]; exact hc
  · unfold getObj; rw [hcl]; exact hx

/-! ### The document name is `quote(identifier, safe='')`

`c16_quote_injective` / `c16_quote_roundtrip` are about `quote` with NO character exempt from escaping besides the unreserved ones.
That every `urllib.parse.quote` call of couchdb.py passes `safe=''` (the store builds document names in three places) and that
`_transform_id` has the modelled shape is regenerated from the source (`Gen/Backends.lean`). -/

theorem c16_document_name_quotes_everything :
    Gen.Backends.couchQuoteSafe.all (· == "") = true ∧ Gen.Backends.couchQuoteSafe.length = 3 ∧ Gen.Backends.unrecognised = [] := by
  decide

end Basyx.Couch
