/-
  C16 — CouchDB store is a revision-guarded map: no lost update, no phantom object.
  Model: Basyx/Model/Couch.lean (client = transcription of couchdb.py as patched by fixes/C16-discard-bookkeeping.patch;
  server = specification of CouchDB's MVCC document API).  Histories are arbitrary lists of `Op` = SDK call with an arbitrary
  per-request fault plan | external write, i.e. every interleaving of the two clients' operation lists.
-/
import Basyx.Lemmas.Couch
namespace Basyx.Couch
open Basyx

/-! ## 1. Identifiers of any shape are addressed correctly -/

/-- the server decodes the path segment the client builds back to the identifier -/
theorem c16_quote_roundtrip (i : Ident) : unquote (quote i) = i := unquote_quote i

theorem c16_quote_injective (i j : Ident) (h : quote i = quote j) : i = j := quote_injective h

/-- the segment contains only unreserved characters and `%`: no `/ ? # space`, nothing non-ASCII -/
theorem c16_quote_url_safe (i : Ident) : ∀ c ∈ quote i, urlSafe c = true := quote_safe i

/-- a document request built from an identifier reaches exactly that identifier's document -/
theorem c16_ids_addressed (sv : Server) (i : Ident) (m : Method) (rv : Option Rev) (dt : Option Data) :
    serve sv ⟨m, .doc (quote i), rv, dt⟩ = serveDoc sv i ⟨m, .doc (quote i), rv, dt⟩ := serve_doc_quote sv i m rv dt

/-! ## 2. The revision-store invariant holds after every history -/

/-- no revision the client remembers is ahead of the server's counter for that document -/
def RevInv (w : W) : Prop := ∀ q r, (q, r) ∈ w.cl.revs → r ≤ genOf w.sv (unquote q)

theorem revInv_of_frame {w w' : W} {A : Quoted → Prop} (hI : RevInv w) (hf : Frame w w' A) : RevInv w' := by
  intro q r hm
  rcases hf.2.1 q r hm with h | ⟨_, h⟩
  · exact Nat.le_trans (hI q r h) (hf.1 _)
  · exact h

theorem frame_step (w : W) (op : Op) : ∃ A, Frame w (step w op).1 A := by
  cases op with
  | client op plan =>
    refine ⟨addrs { w with plan := plan, log := [] } op, ?_⟩
    have := frame_cstep { w with plan := plan, log := [] } op
    exact ⟨this.1, this.2⟩
  | extPut i d =>
    refine ⟨fun _ => False, fun j => ?_, fun q r hm => Or.inl hm, fun hd => ?_⟩
    · simp only [step, extPut]; exact serve_gen_mono _ _ _
    · simp only [step, extPut]; exact docsInv_serve _ hd
  | extDelete i =>
    refine ⟨fun _ => False, fun j => ?_, fun q r hm => Or.inl hm, fun hd => ?_⟩
    · simp only [step, extDelete]; exact serve_gen_mono _ _ _
    · simp only [step, extDelete]; exact docsInv_serve _ hd

theorem c16_inv_init : RevInv init := by intro q r h; simp [init] at h

/-- one step of ANY kind (SDK call with any fault plan, external write) preserves the invariant -/
theorem c16_inv_step (w : W) (op : Op) (hI : RevInv w) : RevInv (step w op).1 := by
  obtain ⟨A, hf⟩ := frame_step w op
  exact revInv_of_frame hI hf

theorem c16_inv_run_from (ops : List Op) : ∀ w, RevInv w → RevInv (run w ops) := by
  induction ops with
  | nil => intro w h; exact h
  | cons op r ih => intro w h; exact ih _ (c16_inv_step w op h)

/-- … hence after every interleaved history of the two clients, with arbitrary faults -/
theorem c16_inv_run (ops : List Op) : RevInv (run init ops) := c16_inv_run_from ops init c16_inv_init

/-! ## 3. No lost update -/

/-- the replica's known revision of `i` (if any) is strictly older than the server's counter -/
def Behind (w : W) (i : Ident) : Prop := ∀ r, (quote i, r) ∈ w.cl.revs → r < genOf w.sv i

/-- an external write makes every replica of that document stale -/
theorem c16_ext_put_behind (w : W) (i : Ident) (d : Data) (hI : RevInv w) : Behind (step w (.extPut i d)).1 i := by
  intro r hm
  have := hI _ _ hm
  rw [unquote_quote] at this
  show r < genOf (extPut w.sv i d) i
  rw [extPut_eq, genOf_write_same]
  exact Nat.lt_succ_of_le this

theorem c16_ext_delete_behind (w : W) (i : Ident) (hI : RevInv w) (hl : (live w.sv i).isSome) :
    Behind (step w (.extDelete i)).1 i := by
  intro r hm
  have := hI _ _ hm
  rw [unquote_quote] at this
  show r < genOf (extDelete w.sv i) i
  rw [extDelete_eq, if_pos hl, genOf_write_same]
  exact Nat.lt_succ_of_le this

theorem behind_of_frame {w w' : W} {A : Quoted → Prop} {i : Ident} (hb : Behind w i) (hf : Frame w w' A)
    (hA : ¬ A (quote i)) : Behind w' i := by
  intro r hm
  rcases hf.2.1 _ _ hm with h | ⟨h, _⟩
  · exact Nat.lt_of_lt_of_le (hb r h) (hf.1 _)
  · exact absurd h hA

/-- what a step re-learns: the revision-store keys it may set -/
def relearns (w : W) : Op → Quoted → Prop
  | .client op plan => addrs { w with plan := plan, log := [] } op
  | _ => fun _ => False

/-- staleness persists through every step that does not re-read / re-create that document: all external writes, and
    every SDK call addressed elsewhere (whatever its outcome and fault plan) -/
theorem c16_behind_step (w : W) (op : Op) (i : Ident) (hb : Behind w i) (hA : ¬ relearns w op (quote i)) :
    Behind (step w op).1 i := by
  cases op with
  | client op plan =>
    have := frame_cstep { w with plan := plan, log := [] } op
    exact behind_of_frame (w := w) hb ⟨this.1, this.2⟩ hA
  | extPut j d =>
    obtain ⟨A, hf⟩ := frame_step w (.extPut j d)
    refine behind_of_frame (A := fun _ => False) hb ⟨hf.1, fun q r hm => Or.inl hm, hf.2.2⟩ (fun h => h)
  | extDelete j =>
    obtain ⟨A, hf⟩ := frame_step w (.extDelete j)
    refine behind_of_frame (A := fun _ => False) hb ⟨hf.1, fun q r hm => Or.inl hm, hf.2.2⟩ (fun h => h)

/-- a history none of whose steps re-learns `i` -/
def Avoids (i : Ident) : W → List Op → Prop
  | _, [] => True
  | w, op :: r => ¬ relearns w op (quote i) ∧ Avoids i (step w op).1 r

theorem c16_behind_run (i : Ident) (ops : List Op) : ∀ w, Behind w i → Avoids i w ops → Behind (run w ops) i := by
  induction ops with
  | nil => intro w h _; exact h
  | cons op r ih => intro w h ha; exact ih _ (c16_behind_step w op i h ha.1) ha.2

theorem not_live_of_behind {w : W} {i : Ident} (hb : Behind w i) :
    ∀ r d, AList.get (quote i) w.cl.revs = some r → live w.sv (unquote (quote i)) ≠ some (r, d) := by
  intro r d hg hl
  rw [unquote_quote] at hl
  have := hb r (mem_of_get hg)
  rw [live_gen hl] at this
  exact Nat.lt_irrefl _ this

def isRaise : Out → Prop | .raise _ => True | _ => False

/-- COMMIT from a replica whose known revision is not the server's current one (any fault plan): the call raises and the
    server is unchanged. -/
theorem c16_commit_stale (w : W) (h : Nat) (x : Obj) (q : Quoted) (hx : getObj w h = some x) (hq : x.source = some q)
    (hst : ∀ r d, AList.get q w.cl.revs = some r → live w.sv (unquote q) ≠ some (r, d)) :
    (commit w h).1.sv = w.sv ∧ isRaise (commit w h).2 := by
  unfold commit
  simp only [hx, hq]
  cases hr : AList.get q w.cl.revs with
  | none => exact ⟨rfl, trivial⟩
  | some rev =>
    simp only []
    obtain ⟨hs, hb⟩ := request_stale w .PUT (Or.inl rfl) q rev (some x.data) (fun d => hst rev d hr)
    split
    · rename_i w1 i' rev' heq
      obtain ⟨hw, ho⟩ := eq_of_request heq
      have := (hb _ ho.symm).1
      cases this
    all_goals
      first
        | (rename_i heq; exact ⟨by rw [(eq_of_request heq).1]; exact hs, trivial⟩)
        | (rename_i heq _; exact ⟨by rw [(eq_of_request heq).1]; exact hs, trivial⟩)
        | (rename_i heq _ _; exact ⟨by rw [(eq_of_request heq).1]; exact hs, trivial⟩)
        | (rename_i heq _ _ _; exact ⟨by rw [(eq_of_request heq).1]; exact hs, trivial⟩)


theorem request_nofault (w : W) (rq : Req) (hp : w.plan = []) :
    request w rq = ({ w with sv := (serve w.sv rq).1, log := w.log ++ [(rq, .resp (serve w.sv rq).2)] },
                    classify rq.method (.resp (serve w.sv rq).2)) := by
  unfold request; rw [hp]

/-- … and without a fault on the wire the error is the conflict error -/
theorem c16_commit_stale_conflict (w : W) (h : Nat) (x : Obj) (i : Ident) (hx : getObj w h = some x)
    (hq : x.source = some (quote i)) (hp : w.plan = [])
    (hst : ∀ r d, AList.get (quote i) w.cl.revs = some r → live w.sv i ≠ some (r, d)) :
    (commit w h).2 = .raise .conflict := by
  unfold commit
  simp only [hx, hq]
  cases hr : AList.get (quote i) w.cl.revs with
  | none => rfl
  | some rev =>
    simp only [request_nofault _ _ hp, serve_doc_quote]
    have h409 : (serveDoc w.sv i ⟨.PUT, .doc (quote i), some rev, some x.data⟩).2 = err 409 := by
      rcases (serveDoc_put_stale w.sv i (quote i) rev (some x.data) (fun d => hst rev d hr)).2 with h | h
      · exact h
      · simp [serveDoc] at h
        cases hl : live w.sv i with
        | none => simp [hl, err] at h
        | some p => obtain ⟨g, d⟩ := p; simp [hl] at h; split at h <;> simp [err] at h
    rw [h409]
    simp [classify, err]

/-- SAFE DELETE from a replica whose known revision is not the server's current one (any fault plan): raises, server
    unchanged -/
theorem c16_safe_delete_stale (w : W) (h : Nat) (x : Obj) (hx : getObj w h = some x)
    (hpl : ∀ f rest, w.plan = some f :: rest → f.kind.genuine)
    (hst : ∀ r d, AList.get (quote x.id) w.cl.revs = some r → live w.sv x.id ≠ some (r, d)) :
    (discard w h true).1.sv = w.sv ∧ isRaise (discard w h true).2 := by
  unfold discard discardG
  simp only [hx]
  cases hr : AList.get (quote x.id) w.cl.revs with
  | none => exact ⟨rfl, trivial⟩
  | some rev =>
    simp only []
    unfold discardWith
    obtain ⟨hs, hb⟩ := request_stale w .DELETE (Or.inr rfl) (quote x.id) rev none
      (fun d => by rw [unquote_quote]; exact hst rev d hr)
    split
    · rename_i w1 b heq
      obtain ⟨hw, ho⟩ := eq_of_request heq
      obtain ⟨_, f, rest, hpf, hng⟩ := hb _ ho.symm
      exact absurd (hpl f rest hpf) hng
    all_goals
      first
        | (rename_i heq; exact ⟨by rw [(eq_of_request heq).1]; exact hs, trivial⟩)
        | (rename_i heq _; exact ⟨by rw [(eq_of_request heq).1]; exact hs, trivial⟩)
        | (rename_i heq _ _; exact ⟨by rw [(eq_of_request heq).1]; exact hs, trivial⟩)
        | (rename_i heq _ _ _; exact ⟨by rw [(eq_of_request heq).1]; exact hs, trivial⟩)


/-- NO LOST UPDATE over interleaved histories.  Take any history `hist` of SDK calls (with arbitrary fault plans) and external
    writes; let the external writer then write document `i`; let any further history `mid` follow that does not re-read or
    re-create `i` (other SDK calls on other documents, failed or not, more external writes …).  Then a `commit()` of ANY local
    replica bound to `i`, under ANY fault plan, raises and leaves the server exactly as it was. -/
theorem c16_no_lost_update (hist mid : List Op) (i : Ident) (d : Data) (plan : List (Option Fault)) (h : Nat) (x : Obj)
    (hav : Avoids i (step (run init hist) (.extPut i d)).1 mid) :
    let w := run (step (run init hist) (.extPut i d)).1 mid
    getObj w h = some x → x.source = some (quote i) →
    (step w (.client (.commit h) plan)).1.sv = w.sv ∧ isRaise (step w (.client (.commit h) plan)).2 := by
  intro w hx hq
  have hb : Behind w i := c16_behind_run i mid _ (c16_ext_put_behind _ i d (c16_inv_run hist)) hav
  have hb' : Behind { w with plan := plan, log := [] } i := hb
  exact c16_commit_stale { w with plan := plan, log := [] } h x (quote i) hx hq (not_live_of_behind hb')

/-- the same for a safe delete (the injected answers being error answers) -/
theorem c16_no_lost_delete (hist mid : List Op) (i : Ident) (d : Data) (plan : List (Option Fault)) (h : Nat) (x : Obj)
    (hav : Avoids i (step (run init hist) (.extPut i d)).1 mid)
    (hpl : ∀ f rest, plan = some f :: rest → f.kind.genuine) :
    let w := run (step (run init hist) (.extPut i d)).1 mid
    getObj w h = some x → x.id = i →
    (step w (.client (.discard h true) plan)).1.sv = w.sv ∧ isRaise (step w (.client (.discard h true) plan)).2 := by
  intro w hx hi
  have hb : Behind w i := c16_behind_run i mid _ (c16_ext_put_behind _ i d (c16_inv_run hist)) hav
  have hb' : Behind { w with plan := plan, log := [] } i := hb
  subst hi
  refine c16_safe_delete_stale { w with plan := plan, log := [] } h x hx hpl ?_
  intro r d' hg hl
  exact not_live_of_behind hb' r d' hg (by rw [unquote_quote]; exact hl)

/-! ## 4. A commit from an up-to-date replica is what every later reader sees -/

theorem serveDoc_put_current (sv : Server) (i : Ident) (q : Quoted) (g : Rev) (d0 d : Data) (hl : live sv i = some (g, d0)) :
    serveDoc sv i ⟨.PUT, .doc q, some g, some d⟩ = (write sv i (some d), ⟨201, true, .written i (g + 1), some (g + 1)⟩) := by
  simp [serveDoc, hl]

theorem c16_commit_visible (w : W) (h : Nat) (x : Obj) (i : Ident) (g : Rev) (d0 : Data)
    (hx : getObj w h = some x) (hq : x.source = some (quote i)) (hp : w.plan = [])
    (hr : AList.get (quote i) w.cl.revs = some g) (hl : live w.sv i = some (g, d0)) :
    (commit w h).2 = .unit ∧
    live (commit w h).1.sv i = some (g + 1, x.data) ∧
    AList.get (quote i) (commit w h).1.cl.revs = some (g + 1) ∧
    (∀ j, j ≠ i → live (commit w h).1.sv j = live w.sv j) := by
  unfold commit
  simp only [hx, hq, hr, request_nofault _ _ hp, serve_doc_quote, serveDoc_put_current _ _ _ _ _ _ hl]
  simp only [classify]
  refine ⟨by simp, ?_, by simp [setRev], fun j hj => ?_⟩
  · simp only [show (¬ (200 ≤ 201 ∧ 201 < 300)) = False by simp, if_false]
    simp [setRev, live_write_same, live_gen hl]
  · simp only [show (¬ (200 ≤ 201 ∧ 201 < 300)) = False by simp, if_false]
    simp [setRev, live_write_other _ _ hj]

/-- reading: a fault-free `get_identifiable` returns an object carrying exactly the live document, bound to it, and records
    its revision -/
theorem c16_get_reads_live (w : W) (i : Ident) (g : Rev) (d : Data) (hp : w.plan = []) (hl : live w.sv i = some (g, d)) :
    ∃ h, (getByCouchId w i).2 = .handle h ∧
      getObj (getByCouchId w i).1 h = some ⟨i, d, some (quote i)⟩ ∧
      (getByCouchId w i).1.sv = w.sv ∧
      AList.get (quote i) (getByCouchId w i).1.cl.revs = some g := by
  unfold getByCouchId
  simp only [request_nofault _ _ hp, serve_doc_quote]
  simp only [serveDoc, hl, classify]
  simp only [show (¬ (200 ≤ 200 ∧ 200 < 300)) = False by simp, if_false]
  simp only [show (Method.GET = Method.HEAD) = False by simp, if_false]
  simp only [show (true = false) = False by simp, if_false]
  unfold adopt
  cases hc : AList.get i (setRev { w with sv := w.sv, log := _ } (quote i) g).cl.cache with
  | none => exact ⟨_, rfl, by simp [freshObj, getObj, setRev], rfl, by simp [freshObj, setRev]⟩
  | some h' =>
    simp only []
    cases ho : getObj (setRev { w with sv := w.sv, log := _ } (quote i) g) h' with
    | none => exact ⟨_, rfl, by simp [freshObj, getObj, setRev], rfl, by simp [freshObj, setRev]⟩
    | some old =>
      simp only []
      by_cases hs : old.source = some (quote i)
      · simp only [hs, if_true]
        exact ⟨h', rfl, by simp [getObj, setObj, setRev, hs], rfl, by simp [setObj, setRev]⟩
      · simp only [hs, if_false]
        exact ⟨_, rfl, by simp [freshObj, getObj, setRev], rfl, by simp [freshObj, setRev]⟩

/-- `update()` of a bound replica reads the live document -/
theorem c16_update_reads_live (w : W) (h : Nat) (x : Obj) (i : Ident) (g : Rev) (d : Data) (hx : getObj w h = some x)
    (hq : x.source = some (quote i)) (hp : w.plan = []) (hl : live w.sv i = some (g, d)) :
    (update w h).2 = .unit ∧ getObj (update w h).1 h = some ⟨i, d, some (quote i)⟩ ∧
    AList.get (quote i) (update w h).1.cl.revs = some g := by
  unfold update
  simp only [hx, hq, request_nofault _ _ hp, serve_doc_quote]
  simp only [serveDoc, hl, classify]
  simp only [show (¬ (200 ≤ 200 ∧ 200 < 300)) = False by simp, if_false]
  simp only [show (Method.GET = Method.HEAD) = False by simp, if_false]
  simp only [show (true = false) = False by simp, if_false]
  refine ⟨by simp, ?_, ?_⟩
  · simp [getObj, setObj, setRev, hq]
  · simp [setObj, setRev]

/-- so: after a commit from an up-to-date replica, ANY reader of that server state (this client or another one: `w2` is an
    arbitrary client state) that reads without a fault holds the committed payload -/
theorem c16_commit_then_read (w : W) (h : Nat) (x : Obj) (i : Ident) (g : Rev) (d0 : Data)
    (hx : getObj w h = some x) (hq : x.source = some (quote i)) (hp : w.plan = [])
    (hr : AList.get (quote i) w.cl.revs = some g) (hl : live w.sv i = some (g, d0))
    (w2 : W) (hsv : w2.sv = (commit w h).1.sv) (hp2 : w2.plan = []) :
    ∃ h', (getByCouchId w2 i).2 = .handle h' ∧ getObj (getByCouchId w2 i).1 h' = some ⟨i, x.data, some (quote i)⟩ := by
  obtain ⟨_, h2, _, _⟩ := c16_commit_visible w h x i g d0 hx hq hp hr hl
  obtain ⟨h', a, b, _, _⟩ := c16_get_reads_live w2 i (g + 1) x.data hp2 (by rw [hsv]; exact h2)
  exact ⟨h', a, b⟩


/-! ## 5. Errors never look like success -/

/-- what counts as a successful HTTP exchange for `do_request` -/
def Wire.success (m : Method) : Wire → Prop
  | .fail _ => False
  | .resp r => (200 ≤ r.status ∧ r.status < 300) ∧ (m = .HEAD ∨ (r.json = true ∧ r.body ≠ .notJson ∧ r.body ≠ .empty))

/-- one of the documented error types: CouchDBServerError, CouchDBResponseError, CouchDBConnectionError -/
def Outcome.isError : Outcome → Prop
  | .serverError _ | .responseError | .connectionError => True
  | _ => False

/-- protocol assumption: a non-2xx answer whose body parses as JSON has CouchDB's `{error, reason}` shape -/
def Wire.errorShaped : Wire → Prop
  | .fail _ => True
  | .resp r => ¬ (200 ≤ r.status ∧ r.status < 300) → r.json = true → (r.body = .error ∨ r.body = .notJson ∨ r.body = .empty)

/-- TOTALITY of the classification: anything but a genuine 2xx (JSON) answer is turned into one of the CouchDB error types,
    and only a genuine success is returned normally. -/
theorem c16_errors_classify (m : Method) (wr : Wire) (hs : wr.errorShaped) :
    (¬ wr.success m → (classify m wr).isError) ∧ (wr.success m → ¬ (classify m wr).isError) := by
  cases wr with
  | fail k => cases k <;> simp [Wire.success, classify, Outcome.isError]
  | resp r =>
    obtain ⟨st, js, body, etag⟩ := r
    simp only [Wire.success, Wire.errorShaped, classify] at hs ⊢
    by_cases h2 : (200 ≤ st ∧ st < 300)
    · by_cases hm : m = .HEAD
      · simp [h2, hm, Outcome.isError]
      · cases js <;> cases body <;> simp [h2, hm, Outcome.isError]
    · cases js
      · simp [h2, Outcome.isError]
      · by_cases hm : m = .HEAD
        · simp [h2, hm, Outcome.isError]
        · have := hs h2 rfl
          rcases this with h | h | h <;> simp [h2, hm, h, Outcome.isError]

/-- the faults of the property's quantifier: status 401/404/409/412/500 (any non-2xx) with any body, a non-JSON body under
    any status, a failed transport — each surfaces as an error type, for every method -/
theorem c16_errors_fault (m : Method) (k : FaultKind)
    (hk : match k with
          | .status c jt jb => ¬ (200 ≤ c ∧ c < 300) ∨ (m ≠ .HEAD ∧ (jt = false ∨ jb = false))
          | .transport _ => True) :
    (classify m (faultWire k)).isError := by
  cases k with
  | transport t => cases t <;> simp [faultWire, classify, Outcome.isError]
  | status c jt jb =>
    simp only at hk
    simp only [faultWire, classify]
    rcases hk with h | ⟨hm, h⟩
    · cases jt <;> cases jb <;> by_cases hm : m = .HEAD <;> simp [h, hm, Outcome.isError]
    · by_cases h2 : (200 ≤ c ∧ c < 300)
      · cases jt <;> cases jb <;> simp_all [Outcome.isError]
      · cases jt <;> cases jb <;> simp [h2, hm, Outcome.isError]

theorem excOf_isError {o : Outcome} (h : o.isError) :
    (∃ c, o = .serverError c ∧ excOf o = .serverError c) ∨ (o = .responseError ∧ excOf o = .responseError) ∨
    (o = .connectionError ∧ excOf o = .connectionError) := by
  cases o <;> simp [Outcome.isError, excOf] at h ⊢

/-- every store call whose (first failing) request is classified as an error raises — it never returns normally.
    (`contains` is the one documented exception: a 404 means "not contained".) -/
theorem c16_errors_get (w : W) (i : Ident) (h : (request w ⟨.GET, .doc (quote i), none, none⟩).2.isError) :
    isRaise (getByCouchId w i).2 := by
  unfold getByCouchId
  split <;> simp_all [isRaise, Outcome.isError]

theorem c16_errors_add (w : W) (h : Nat) (x : Obj) (hx : getObj w h = some x)
    (he : (request w ⟨.PUT, .doc (quote x.id), none, some x.data⟩).2.isError) : isRaise (add w h).2 := by
  unfold add
  simp only [hx]
  split <;> simp_all [isRaise, Outcome.isError]

theorem c16_errors_commit (w : W) (h : Nat) (x : Obj) (q : Quoted) (r : Rev) (hx : getObj w h = some x)
    (hq : x.source = some q) (hr : AList.get q w.cl.revs = some r)
    (he : (request w ⟨.PUT, .doc q, some r, some x.data⟩).2.isError) : isRaise (commit w h).2 := by
  unfold commit
  simp only [hx, hq, hr]
  split <;> simp_all [isRaise, Outcome.isError]

theorem c16_errors_update (w : W) (h : Nat) (x : Obj) (q : Quoted) (hx : getObj w h = some x) (hq : x.source = some q)
    (he : (request w ⟨.GET, .doc q, none, none⟩).2.isError) : isRaise (update w h).2 := by
  unfold update
  simp only [hx, hq]
  split <;> simp_all [isRaise, Outcome.isError]

theorem c16_errors_len (w : W) (he : (request w ⟨.GET, .db, none, none⟩).2.isError) : isRaise (len w).2 := by
  unfold len
  split <;> simp_all [isRaise, Outcome.isError]

theorem c16_errors_iter (w : W) (he : (request w ⟨.GET, .allDocs, none, none⟩).2.isError) : isRaise (iter w).2 := by
  unfold iter
  split <;> simp_all [isRaise, Outcome.isError]

theorem c16_errors_contains (w : W) (i : Ident) (he : (request w ⟨.HEAD, .doc (quote i), none, none⟩).2.isError) :
    isRaise (contains w i).2 ∨
    ((request w ⟨.HEAD, .doc (quote i), none, none⟩).2 = .serverError 404 ∧ (contains w i).2 = .bool false) := by
  unfold contains
  split <;> simp_all [isRaise, Outcome.isError]

theorem c16_errors_discardWith (fixed : Bool) (w : W) (h : Nat) (x : Obj) (q : Quoted) (r : Rev)
    (he : (request w ⟨.DELETE, .doc q, some r, none⟩).2.isError) : isRaise (discardWith fixed w h x q r).2 := by
  unfold discardWith
  split <;> simp_all [isRaise, Outcome.isError]

theorem c16_errors_discard_head (w : W) (h : Nat) (x : Obj) (hx : getObj w h = some x)
    (he : (request w ⟨.HEAD, .doc (quote x.id), none, none⟩).2.isError) : isRaise (discard w h false).2 := by
  unfold discard discardG
  simp only [hx]
  split <;> simp_all [isRaise, Outcome.isError]

/-- an iteration stops with the exception of the first failing fetch -/
theorem c16_errors_iterLoop (ids : List Ident) : ∀ (w : W) (acc : List Nat),
    ∃ hs e, (iterLoop w ids acc).2 = .handles hs e := by
  induction ids with
  | nil => intro w acc; exact ⟨_, _, rfl⟩
  | cons i r ih =>
    intro w acc
    unfold iterLoop
    split
    · exact ih _ _
    · exact ⟨_, _, rfl⟩
    · exact ⟨_, _, rfl⟩

theorem c16_errors_iterLoop_stop (i : Ident) (rest : List Ident) (w : W) (acc : List Nat)
    (he : (request w ⟨.GET, .doc (quote i), none, none⟩).2.isError) :
    ∃ e, (iterLoop w (i :: rest) acc).2 = .handles acc.reverse (some e) := by
  have := c16_errors_get w i he
  unfold iterLoop
  split
  · rename_i heq; rw [heq] at this; simp [isRaise] at this
  · exact ⟨_, rfl⟩
  · exact ⟨_, rfl⟩



/-! ## 6. No phantom object: bookkeeping agrees with the server -/

theorem serveDoc_not_ok_unchanged (sv : Server) (i : Ident) (rq : Req)
    (h : ∀ b, classify rq.method (.resp (serveDoc sv i rq).2) ≠ .ok b) : (serveDoc sv i rq).1 = sv := by
  unfold serveDoc at h ⊢
  cases hm : rq.method <;> simp only [hm] at h ⊢
  · split <;> rfl
  · split <;> rfl
  · cases hd : rq.data with
    | none => rfl
    | some d =>
      simp only [hd] at h ⊢
      cases hl : live sv i with
      | none =>
        simp only [hl] at h ⊢
        by_cases hr : rq.rev = none
        · simp only [hr, if_true] at h; exact absurd rfl (h _)
        · simp [hr]
      | some p =>
        obtain ⟨g, d'⟩ := p
        simp only [hl] at h ⊢
        by_cases hr : rq.rev = some g
        · simp only [hr, if_true] at h; exact absurd rfl (h _)
        · simp [hr]
  · cases hl : live sv i with
    | none => rfl
    | some p =>
      obtain ⟨g, d'⟩ := p
      simp only [hl] at h ⊢
      by_cases hr : rq.rev = some g
      · simp only [hr, if_true] at h; exact absurd rfl (h _)
      · simp [hr]

theorem serve_not_ok_unchanged (sv : Server) (rq : Req)
    (h : ∀ b, classify rq.method (.resp (serve sv rq).2) ≠ .ok b) : (serve sv rq).1 = sv := by
  unfold serve at h ⊢
  cases ht : rq.target with
  | db => simp only []; split <;> rfl
  | allDocs => simp only []; split <;> rfl
  | doc q =>
    simp only [ht] at h ⊢
    by_cases hq : 47 ∈ q
    · simp [hq]
    · simp only [hq, if_false] at h ⊢
      exact serveDoc_not_ok_unchanged _ _ _ h

theorem serve_head_unchanged (sv : Server) (rq : Req) (hm : rq.method = .HEAD) : (serve sv rq).1 = sv := by
  apply serve_not_ok_unchanged
  intro b hb
  simp only [classify, hm] at hb
  repeat' split at hb
  all_goals simp_all

/-- a call's plan injects only faults whose request does not reach the server (the answer is replaced, nothing is lost) -/
def Unprocessed (plan : List (Option Fault)) : Prop := ∀ f, some f ∈ plan → f.processed = false

theorem request_plan (w : W) (rq : Req) : (request w rq).1.plan = w.plan.tail := by
  unfold request; split <;> simp_all

theorem request_not_ok_unchanged (w : W) (rq : Req) (hu : Unprocessed w.plan)
    (h : ∀ b, (request w rq).2 ≠ .ok b) : (request w rq).1.sv = w.sv := by
  cases hp : w.plan with
  | nil =>
    simp only [request, hp] at h ⊢
    exact serve_not_ok_unchanged _ _ h
  | cons a rest =>
    cases a with
    | none =>
      simp only [request, hp] at h ⊢
      exact serve_not_ok_unchanged _ _ h
    | some f =>
      have : f.processed = false := hu f (by rw [hp]; exact List.mem_cons_self)
      simp [request, hp, this]

theorem request_head_unchanged (w : W) (q : Quoted) (rv dt) : (request w ⟨.HEAD, .doc q, rv, dt⟩).1.sv = w.sv := by
  rcases (request_cases w ⟨.HEAD, .doc q, rv, dt⟩).2 with ⟨h, _⟩ | ⟨_, h | h, _⟩
  · rw [h]; exact serve_head_unchanged _ _ rfl
  · exact h
  · rw [h]; exact serve_head_unchanged _ _ rfl

theorem unprocessed_tail {plan : List (Option Fault)} (h : Unprocessed plan) : Unprocessed plan.tail :=
  fun f hf => h f (List.mem_of_mem_tail hf)

/-- `discard` (as patched) is atomic w.r.t. the server: if it raises — and no answer was lost after execution — the server is
    exactly as before.  On the pinned tree this is false: see `c16_pinned_discard_phantom`. -/
theorem c16_discardWith_atomic (w : W) (h : Nat) (x : Obj) (q : Quoted) (r : Rev) (hu : Unprocessed w.plan)
    (hr : isRaise (discardWith true w h x q r).2) : (discardWith true w h x q r).1.sv = w.sv := by
  unfold discardWith at hr ⊢
  split at hr
  · simp [isRaise] at hr
  all_goals
    rename_i heq
    obtain ⟨hw, ho⟩ := eq_of_request heq
    simp only []
    rw [hw]
    apply request_not_ok_unchanged _ _ hu
    intro b hb
    rw [← ho] at hb
    first
      | (cases hb; done)
      | (rename_i hn _ _; exact hn b hb)

theorem c16_discard_atomic (w : W) (h : Nat) (safe : Bool) (hu : Unprocessed w.plan)
    (hr : isRaise (discard w h safe).2) : (discard w h safe).1.sv = w.sv := by
  unfold discard discardG at hr ⊢
  split at hr
  · rfl
  · split at hr
    · exact c16_discardWith_atomic _ _ _ _ _ hu hr
    · rfl
    · split at hr
      · rename_i x _ _ _ _ _ _ heq
        obtain ⟨hw, ho⟩ := eq_of_request heq
        have hsv : (request w ⟨.HEAD, .doc (quote x.id), none, none⟩).1.sv = w.sv := request_head_unchanged _ _ _ _
        have hu' : Unprocessed (request w ⟨.HEAD, .doc (quote x.id), none, none⟩).1.plan := by
          rw [request_plan]; exact unprocessed_tail hu
        rw [hw] at hr ⊢
        rw [c16_discardWith_atomic _ _ _ _ _ hu' hr, hsv]
      all_goals
        rename_i heq
        first
          | (rw [(eq_of_request heq).1]; exact request_head_unchanged _ _ _ _)
          | (rename_i h1 _ _; rw [(eq_of_request h1).1]; exact request_head_unchanged _ _ _ _)
          | (rename_i h1 _ _ _; rw [(eq_of_request h1).1]; exact request_head_unchanged _ _ _ _)


theorem discardWith_ok (w : W) (h : Nat) (x : Obj) (q : Quoted) (r : Rev) (hr : (discardWith true w h x q r).2 = .unit) :
    AList.get q (discardWith true w h x q r).1.cl.revs = none ∧
    AList.get x.id (discardWith true w h x q r).1.cl.cache = none ∧
    getObj (discardWith true w h x q r).1 h = some { x with source := none } ∧
    ∃ b, (request w ⟨.DELETE, .doc q, some r, none⟩).2 = .ok b ∧
      (discardWith true w h x q r).1.sv = (request w ⟨.DELETE, .doc q, some r, none⟩).1.sv := by
  unfold discardWith at hr ⊢
  split at hr
  · rename_i w1 b heq
    obtain ⟨hw, ho⟩ := eq_of_request heq
    simp only [Bool.not_true, Bool.false_and, Bool.false_eq_true, if_false]
    refine ⟨by simp [setObj, get_eraseKey_same], by simp [setObj, get_eraseKey_same], by simp [getObj, setObj],
      b, ho.symm, by simp [setObj, hw]⟩
  all_goals simp at hr

/-- after a successful `discard` nothing of the object is left behind in this process: no remembered revision, no cache entry,
    no source on the object -/
theorem c16_discard_bookkeeping (w : W) (h : Nat) (safe : Bool) (x : Obj) (hx : getObj w h = some x)
    (hr : (discard w h safe).2 = .unit) :
    AList.get (quote x.id) (discard w h safe).1.cl.revs = none ∧
    AList.get x.id (discard w h safe).1.cl.cache = none ∧
    getObj (discard w h safe).1 h = some { x with source := none } := by
  unfold discard discardG at hr ⊢
  simp only [hx] at hr ⊢
  split at hr
  · obtain ⟨a, b, c, _⟩ := discardWith_ok _ _ _ _ _ hr; exact ⟨a, b, c⟩
  · simp at hr
  · split at hr
    · obtain ⟨a, b, c, _⟩ := discardWith_ok _ _ _ _ _ hr; exact ⟨a, b, c⟩
    all_goals simp at hr

/-- a DELETE that the server itself answered with success removed the document -/
theorem serve_delete_ok (sv : Server) (i : Ident) (r : Rev) (b : Body)
    (h : classify .DELETE (.resp (serve sv ⟨.DELETE, .doc (quote i), some r, none⟩).2) = .ok b) :
    live (serve sv ⟨.DELETE, .doc (quote i), some r, none⟩).1 i = none := by
  rw [serve_doc_quote] at h ⊢
  unfold serveDoc at h ⊢
  simp only [] at h ⊢
  cases hl : live sv i with
  | none => simp [hl]
  | some p =>
    obtain ⟨g, d⟩ := p
    simp only [hl] at h ⊢
    by_cases hr : some r = some g
    · simp only [hr, if_true]; exact live_write_none _ _
    · simp only [hr, if_false] at h
      simp [classify, err] at h

/-- … and, the injected answers being genuine error answers, a `discard` that returns normally has deleted the document -/
theorem c16_discard_deletes (w : W) (h : Nat) (x : Obj) (hx : getObj w h = some x)
    (hr : AList.get (quote x.id) w.cl.revs ≠ none)
    (hg : ∀ f rest, w.plan = some f :: rest → f.kind.genuine)
    (hu : (discard w h true).2 = .unit) : live (discard w h true).1.sv x.id = none := by
  unfold discard discardG at hu ⊢
  simp only [hx] at hu ⊢
  cases hrv : AList.get (quote x.id) w.cl.revs with
  | none => exact absurd hrv hr
  | some r =>
    simp only [hrv] at hu ⊢
    obtain ⟨_, _, _, b, hb, hsv⟩ := discardWith_ok _ _ _ _ _ hu
    rw [hsv]
    cases hp : w.plan with
    | nil =>
      simp only [request, hp] at hb ⊢
      exact serve_delete_ok _ _ _ _ hb
    | cons a rest =>
      cases a with
      | none =>
        simp only [request, hp] at hb ⊢
        exact serve_delete_ok _ _ _ _ hb
      | some f =>
        simp only [request, hp] at hb
        exact absurd hb (hg f rest hp _ _)

/-- after a successful `add` the object is stored, bound, cached and its revision known -/
theorem c16_add_bookkeeping (w : W) (h : Nat) (x : Obj) (hx : getObj w h = some x) (hr : (add w h).2 = .unit) :
    AList.get x.id (add w h).1.cl.cache = some h ∧
    getObj (add w h).1 h = some { x with source := some (quote x.id) } ∧
    AList.get (quote x.id) (add w h).1.cl.revs = some (genOf (add w h).1.sv x.id) := by
  unfold add at hr ⊢
  simp only [hx] at hr ⊢
  split at hr
  · rename_i w1 i' rev heq
    obtain ⟨hw, ho⟩ := eq_of_request heq
    obtain ⟨_, hg⟩ := request_written ho.symm
    rw [unquote_quote] at hg
    refine ⟨by simp [setObj, setRev], by simp [getObj, setObj], ?_⟩
    simp [setObj, setRev, hw, hg]
  all_goals simp at hr

theorem serve_put_ok_written (sv : Server) (q : Quoted) (rv : Option Rev) (dt : Option Data) (b : Body)
    (h : classify .PUT (.resp (serve sv ⟨.PUT, .doc q, rv, dt⟩).2) = .ok b) : ∃ i g, b = .written i g := by
  simp only [serve] at h
  by_cases hq : 47 ∈ q
  · simp [hq, classify, err] at h
  · simp only [hq, if_false] at h
    unfold serveDoc at h
    simp only [] at h
    cases dt with
    | none => simp [classify, err] at h
    | some d =>
      simp only [] at h
      cases hl : live sv (unquote q) with
      | none =>
        simp only [hl] at h
        by_cases hr : rv = none
        · simp [hr, classify] at h; exact ⟨_, _, h.symm⟩
        · simp [hr, classify, err] at h
      | some p =>
        obtain ⟨g, d'⟩ := p
        simp only [hl] at h
        by_cases hr : rv = some g
        · simp [hr, classify] at h; exact ⟨_, _, h.symm⟩
        · simp [hr, classify, err] at h

/-- a rejected `add` (no answer lost after execution, injected answers genuine errors) changes neither the server nor the
    client's bookkeeping -/
theorem c16_add_atomic (w : W) (h : Nat) (hu : Unprocessed w.plan) (hr : isRaise (add w h).2) :
    (add w h).1.sv = w.sv ∧ (add w h).1.cl = w.cl := by
  unfold add at hr ⊢
  cases hx : getObj w h with
  | none => exact ⟨rfl, rfl⟩
  | some x =>
    simp only [hx] at hr ⊢
    have key : (request w ⟨.PUT, .doc (quote x.id), none, some x.data⟩).1.sv = w.sv ∨
        ∃ i g, (request w ⟨.PUT, .doc (quote x.id), none, some x.data⟩).2 = .ok (.written i g) := by
      cases hp : w.plan with
      | nil =>
        by_cases hok : ∃ b, (request w ⟨.PUT, .doc (quote x.id), none, some x.data⟩).2 = .ok b
        · obtain ⟨b, hb⟩ := hok
          right
          have hb' := hb
          simp only [request, hp] at hb'
          obtain ⟨i, g, e⟩ := serve_put_ok_written _ _ _ _ _ hb'
          exact ⟨i, g, by rw [hb, e]⟩
        · left; exact request_not_ok_unchanged _ _ hu (fun b hb => hok ⟨b, hb⟩)
      | cons a rest =>
        cases a with
        | none =>
          by_cases hok : ∃ b, (request w ⟨.PUT, .doc (quote x.id), none, some x.data⟩).2 = .ok b
          · obtain ⟨b, hb⟩ := hok
            right
            have hb' := hb
            simp only [request, hp] at hb'
            obtain ⟨i, g, e⟩ := serve_put_ok_written _ _ _ _ _ hb'
            exact ⟨i, g, by rw [hb, e]⟩
          · left; exact request_not_ok_unchanged _ _ hu (fun b hb => hok ⟨b, hb⟩)
        | some f =>
          left
          have : f.processed = false := hu f (by rw [hp]; exact List.mem_cons_self)
          simp [request, hp, this]
    split at hr
    · simp [isRaise] at hr
    all_goals
      rename_i heq
      obtain ⟨hw, ho⟩ := eq_of_request heq
      refine ⟨?_, by simp only []; rw [hw]; exact request_cl _ _⟩
      simp only []
      rw [hw]
      rcases key with k | ⟨i, g, k⟩
      · exact k
      · rw [k] at ho
        clear hw heq k hr hu
        first
          | (cases ho; done)
          | (rename_i hn; injection ho with hb; exact (hn _ _ hb).elim)
          | (rename_i hn _ _; exact (hn _ _ ho).elim)

/-! ### the pinned tree: `del d[key]` after the server-side delete (DESIGN A.16) -/

/-- a local object for an identifier that an external writer has stored -/
def phantomWorld : W := (step (step init (.client (.mk [97] 0) [])).1 (.extPut [97] 7)).1

/-- On the pinned tree, `discard` of that object deletes the document on the server and then raises KeyError, leaving the
    object's source and the call's atomicity broken; the patched `discard` returns normally. -/
theorem c16_pinned_discard_phantom :
    (discardPinned phantomWorld 0 false).2 = .raise .keyError ∧
    live phantomWorld.sv [97] = some (1, 7) ∧ live (discardPinned phantomWorld 0 false).1.sv [97] = none ∧
    (discard phantomWorld 0 false).2 = .unit := by
  decide


end Basyx.Couch
